"""Bounded end-to-end stand-in: each property as an executable postcondition of convert(),
evaluated on a corpus (forms harvested from /repo/tests + seeded grammar generator +
property-specific small-scope families).  Labelled *bounded*; never counted as proved.

    python -m bounded.e2e C07 [--tier quick|thorough]     (respects VERIF_REPO, VERIF_SEED)

Oracle modules live in bounded/oracles/Cxx.py and implement (see bounded/ORACLES.md):
    USES_DEFAULT_CORPUS: bool
    cases(tier, seed) -> list[corpus.Case]                      (optional)
    check(case, res, ctx) -> list[{"key":..., "what":...}]      (per converted case)
    check_global(tier, seed, ctx) -> (list[violation], evaluations)   (optional; not per case)
"""
from __future__ import annotations

import importlib
import json
import os
import sys
import time
import traceback

from . import corpus


def load_oracle(prop):
    try:
        return importlib.import_module(f"bounded.oracles.{prop}")
    except ModuleNotFoundError as e:
        if e.name == f"bounded.oracles.{prop}":
            return None
        raise


def run(prop: str, tier: str, seed: int) -> dict | None:
    o = load_oracle(prop)
    if o is None:
        return None
    t0 = time.time()
    cases = []
    if getattr(o, "USES_DEFAULT_CORPUS", True):
        cases.extend(corpus.corpus(tier, seed, getattr(o, "N_GENERATED", {}).get(tier)))
    if hasattr(o, "cases"):
        cases.extend(o.cases(tier, seed))
    ctx = {"tier": tier, "seed": seed}
    violations, seen = [], set()
    evaluations, accepted, distinct = 0, 0, set()
    samples = []
    budget_s = getattr(o, "TIME_BUDGET_S", {"quick": 90, "thorough": 1200})[tier]
    for case in cases:
        if time.time() - t0 > budget_s:
            break
        kw = getattr(o, "CONVERT_KWARGS", {})
        res = corpus.convert_case(case, **kw)
        evaluations += 1
        accepted += 1 if res.ok else 0
        try:
            key = hash(case.as_md())
        except Exception:  # noqa: BLE001
            key = case.name
        distinct.add(key)
        try:
            vs = o.check(case, res, ctx) if hasattr(o, "check") else []
        except Exception as e:  # noqa: BLE001
            raise RuntimeError(f"oracle {prop} crashed on case {case.name}: {type(e).__name__}: {e}\n"
                               f"{traceback.format_exc()[-1200:]}") from e
        for v in vs:
            if v["key"] in seen:
                continue
            seen.add(v["key"])
            v = dict(v)
            v.setdefault("case", case.name)
            v["form_md"] = case.as_md() if case.md is not None or corpus.md_safe(case.wb) else None
            v["form_dict"] = corpus.wb_to_dict(case.wb) if case.wb is not None else None
            v["convert_kwargs"] = {**case.kwargs, **kw}
            violations.append(v)
        if len(samples) < 3 and res.ok:
            samples.append({"case": case.name, "origin": case.origin, "form": case.as_md()[:400]})
    if hasattr(o, "check_global"):
        gv, gn = o.check_global(tier, seed, ctx)
        evaluations += gn
        for v in gv:
            if v["key"] not in seen:
                seen.add(v["key"])
                violations.append(v)
    return {
        "evaluations": evaluations,
        "accepted_forms": accepted,
        "distinct_nontrivial": len(distinct),
        "rule": "distinct = distinct form texts converted; harvested md literals of /repo/tests + seeded "
                "grammar generator + property-specific families (see bounded/oracles/%s.py)" % prop,
        "samples": samples,
        "wall_s": round(time.time() - t0, 2),
        "violations": violations,
    }


def replay(payload: dict) -> int:
    """Re-run one recorded e2e violation on the current tree."""
    prop = payload["property"]
    o = load_oracle(prop)
    if payload.get("form_dict") is not None:
        case = corpus.Case(payload.get("case", "replay"), wb=None, kwargs={})
        src = payload["form_dict"]
    else:
        src = payload["form_md"]
        case = corpus.Case(payload.get("case", "replay"), md=src)
    kw = payload.get("convert_kwargs") or {}
    res = corpus.convert_case(case, _source=src, **kw)
    vs = o.check(case, res, {"tier": "quick", "seed": 0}) if hasattr(o, "check") else []
    hit = [v for v in vs if v["key"] == payload.get("key")]
    print("replay:", "REPRODUCED" if hit else "not reproduced", payload.get("key"))
    for v in hit:
        print("  ", v["what"][:500])
    return 1 if hit else 0


if __name__ == "__main__":
    import argparse

    ap = argparse.ArgumentParser()
    ap.add_argument("prop")
    ap.add_argument("--tier", default="quick")
    a = ap.parse_args()
    out = run(a.prop, a.tier, int(os.environ.get("VERIF_SEED", "0")))
    if out is None:
        print("no oracle for", a.prop)
        sys.exit(2)
    for v in out["violations"]:
        print("E2E-VIOLATION", v["key"], "|", v["what"][:300], "| case:", v.get("case"))
    print(json.dumps({k: v for k, v in out.items() if k not in ("violations", "samples")}))
    sys.exit(1 if out["violations"] else 0)
