"""Corpus for the bounded end-to-end stand-ins: abstract workbooks, renderers, harvesting of the
forms in /repo/tests, a seeded grammar-based generator, conversion and XForm parsing helpers.

An abstract workbook (WB) is {sheet_name: (headers, rows)} with rows as lists of cell texts
(None = empty).  Everything here is deterministic given the seed.
"""
from __future__ import annotations

import ast
import csv
import glob
import io
import os
import random
import re
import xml.etree.ElementTree as ET
from dataclasses import dataclass, field

REPO = os.environ.get("VERIF_REPO", "/repo")

NS = {
    "h": "http://www.w3.org/1999/xhtml",
    "x": "http://www.w3.org/2002/xforms",
    "jr": "http://openrosa.org/javarosa",
    "odk": "http://www.opendatakit.org/xforms",
    "orx": "http://openrosa.org/xforms",
    "ev": "http://www.w3.org/2001/xml-events",
    "ent": "http://www.opendatakit.org/xforms/entities",
}
XF = "{http://www.w3.org/2002/xforms}"
XH = "{http://www.w3.org/1999/xhtml}"


# ----------------------------------------------------------------------------- workbooks


class WB(dict):
    """{sheet: (headers, rows)}; insertion ordered."""

    def copy(self):
        return WB({k: (list(h), [list(r) for r in rows]) for k, (h, rows) in self.items()})

    def sheet(self, name):
        return self.get(name, ([], []))

    def col(self, sheet, header):
        h, rows = self[sheet]
        i = h.index(header)
        return [r[i] if i < len(r) else None for r in rows]

    def set(self, sheet, r, header, value):
        h, rows = self[sheet]
        if header not in h:
            h.append(header)
        i = h.index(header)
        while len(rows[r]) <= i:
            rows[r].append(None)
        rows[r][i] = value


def wb_to_dict(wb: WB) -> dict:
    """The dict the readers produce (and convert() accepts directly)."""
    out = {"sheet_names": list(wb.keys())}
    for name, (headers, rows) in wb.items():
        key = name.lower()
        out[key] = [
            {h: c for h, c in zip(headers, row) if h is not None and c not in (None, "")} for row in rows
        ]
        out[f"{key}_header"] = [{h: None for h in headers if h is not None}] if headers else []
    return out


def _md_cell(c):
    if c is None:
        return ""
    return str(c).replace("|", r"\|")


def wb_to_md(wb: WB) -> str:
    lines = []
    for name, (headers, rows) in wb.items():
        lines.append(f"| {name} |")
        lines.append("| | " + " | ".join(_md_cell(h) for h in headers) + " |")
        for row in rows:
            cells = [_md_cell(c) for c in row] + [""] * (len(headers) - len(row))
            lines.append("| | " + " | ".join(cells) + " |")
    return "\n".join(lines) + "\n"


def md_safe(wb: WB) -> bool:
    """Markdown cannot carry '#', newlines or leading/trailing pipes faithfully."""
    for _, (headers, rows) in wb.items():
        for c in [*headers, *[c for r in rows for c in r]]:
            if c is not None and ("#" in str(c) or "\n" in str(c) or "\\" in str(c)):
                return False
    return True


def wb_to_csv(wb: WB) -> str:
    buf = io.StringIO(newline="")
    w = csv.writer(buf, quoting=csv.QUOTE_ALL)
    for name, (headers, rows) in wb.items():
        w.writerow([name])
        w.writerow(["", *[h or "" for h in headers]])
        for row in rows:
            w.writerow(["", *[("" if c is None else str(c)) for c in row]])
    return buf.getvalue()


def wb_to_xlsx(wb: WB, typed=False) -> bytes:
    from openpyxl import Workbook

    book = Workbook()
    book.remove(book.active)
    for name, (headers, rows) in wb.items():
        ws = book.create_sheet(title=name)
        ws.append([h for h in headers])
        for row in rows:
            out = []
            for c in row:
                if typed and isinstance(c, str) and re.fullmatch(r"-?\d+", c) and len(c) < 15:
                    out.append(int(c))
                else:
                    out.append(c)
            ws.append(out)
    buf = io.BytesIO()
    book.save(buf)
    return buf.getvalue()


# ----------------------------------------------------------------------------- cases


@dataclass
class Case:
    name: str
    md: str | None = None
    wb: WB | None = None
    kwargs: dict = field(default_factory=dict)
    origin: str = "generated"
    tags: set = field(default_factory=set)

    def source(self):
        if self.wb is not None:
            return wb_to_dict(self.wb)
        return self.md

    def as_md(self):
        if self.md is not None:
            return self.md
        return wb_to_md(self.wb)


@dataclass
class Result:
    ok: bool
    xform: str | None = None
    warnings: list | None = None
    itemsets: str | None = None
    error: BaseException | None = None
    pyxform: dict | None = None
    survey: object | None = None

    @property
    def internal_error(self):
        from pyxform.errors import PyXFormError

        return self.error is not None and not isinstance(self.error, PyXFormError)


def convert_case(case: Case, **over) -> Result:
    from pyxform.xls2xform import convert

    kw = {**case.kwargs, **over}
    src = kw.pop("_source", None) or case.source()
    if isinstance(src, str) and "file_type" not in kw:
        kw["file_type"] = ".md"
    warnings = []
    try:
        r = convert(xlsform=src, warnings=warnings, **kw)
        return Result(True, r.xform, list(r.warnings), r.itemsets, None, r._pyxform, r._survey)
    except BaseException as e:  # noqa: BLE001
        if isinstance(e, (KeyboardInterrupt, SystemExit, MemoryError)):
            raise
        return Result(False, None, warnings, None, e)


# ----------------------------------------------------------------------------- harvesting


_harvest_cache = None


def harvested() -> list[Case]:
    """Every string literal passed as md= (or assigned to a name used as md=) in /repo/tests."""
    global _harvest_cache
    if _harvest_cache is not None:
        return _harvest_cache
    out, seen = [], set()
    for path in sorted(glob.glob(os.path.join(REPO, "tests", "**", "*.py"), recursive=True)):
        try:
            tree = ast.parse(open(path, encoding="utf-8").read())
        except SyntaxError:
            continue
        consts = {}
        for n in ast.walk(tree):
            if isinstance(n, ast.Assign) and len(n.targets) == 1 and isinstance(n.targets[0], ast.Name) \
                    and isinstance(n.value, ast.Constant) and isinstance(n.value.value, str) and "|" in n.value.value:
                consts[n.targets[0].id] = n.value.value
        for n in ast.walk(tree):
            if isinstance(n, ast.Call):
                for k in n.keywords:
                    if k.arg == "md":
                        v = k.value
                        s = None
                        if isinstance(v, ast.Constant) and isinstance(v.value, str):
                            s = v.value
                        elif isinstance(v, ast.Name) and v.id in consts:
                            s = consts[v.id]
                        if s and "survey" in s.lower() and s not in seen and "{" not in s.replace("${", ""):
                            seen.add(s)
                            out.append(Case(f"{os.path.basename(path)}:{n.lineno}", md=s, origin="harvested"))
    _harvest_cache = out
    return out


# ----------------------------------------------------------------------------- generator

SIMPLE_TYPES = ["text", "integer", "decimal", "date", "time", "dateTime", "note", "geopoint", "barcode",
                "image", "audio", "acknowledge", "calculate", "hidden", "range", "file", "email"]
NAMES = ["a", "b", "q1", "q2", "age", "name_", "x_1", "Y", "r", "r2", "rr", "g", "g2", "outer", "inner",
         "town", "crop", "k", "m", "n", "p", "s", "t", "u", "v", "w", "z9"]
LANGS = ["English (en)", "French (fr)", "Swahili (sw)"]
TEXTS = ["Name?", "How old", "A < B & C > D", "Quote \" and ' here", "]]> end", "Tab\there", "Ünïcødé ☃",
         "<b>bold</b>", "&amp; entity", "  spaced  out ", "x", "-", "emoji \U0001F600", "rtl ‮ abc", "a ]]> b"]


class FormGen:
    """Seeded grammar-based generator of abstract workbooks."""

    def __init__(self, seed: int):
        self.r = random.Random(seed)

    def pick(self, xs):
        return self.r.choice(xs)

    def gen(self, idx: int, profile: str = "mixed") -> Case:
        r = self.r
        names = iter(r.sample(NAMES, len(NAMES)))
        langs = r.sample(LANGS, r.choice([0, 0, 1, 2, 2, 3])) if profile in ("mixed", "lang") else []
        n_lists = r.choice([0, 1, 2, 3])
        lists = [f"l{i}" for i in range(n_lists)]
        rows: list[dict] = []
        questions: list[tuple[str, list[str]]] = []  # (name, repeat-ancestor stack)
        stack: list[tuple[str, str]] = []
        budget = r.randint(2, 9)
        depth_cap = r.choice([1, 2, 3, 4])

        def label_cells(row, base="label", text=None):
            t = text or r.choice(TEXTS)
            if langs and r.random() < 0.7:
                for L in langs:
                    if r.random() < 0.8:
                        row[f"{base}::{L}"] = r.choice(TEXTS)
                if r.random() < 0.3:
                    row[base] = t
            else:
                row[base] = t

        def add_question():
            try:
                nm = next(names)
            except StopIteration:
                return
            kind = r.random()
            row = {"name": nm}
            if lists and kind < 0.3:
                sel = r.choice(["select_one", "select_multiple", "rank"] if profile != "simple" else ["select_one"])
                row["type"] = f"{sel} {r.choice(lists)}"
                if sel != "rank" and r.random() < 0.15 and not langs:
                    row["type"] += " or_other"
                if r.random() < 0.2:
                    row["choice_filter"] = "true()"
                if r.random() < 0.15 and sel != "rank":
                    row["parameters"] = r.choice(["randomize=true", "randomize=true, seed=42"])
            else:
                row["type"] = r.choice(SIMPLE_TYPES)
            t = row["type"]
            if t == "calculate":
                row["calculation"] = self.expr(questions, stack, nm)
            elif t != "hidden":
                label_cells(row)
            if t == "range" and r.random() < 0.5:
                row["parameters"] = r.choice(["start=1 end=10 step=1", "start=0.5 end=5 step=0.5", "start=1;end=5;step=2"])
            if t == "image" and r.random() < 0.5:
                row["parameters"] = "max-pixels=640"
            if r.random() < 0.3 and t not in ("note",):
                row["hint"] = r.choice(TEXTS)
                if r.random() < 0.3:
                    row["guidance_hint"] = r.choice(TEXTS)
            if questions and r.random() < 0.45:
                col = r.choice(["relevant", "constraint", "required", "readonly", "calculation"])
                if col == "calculation" and t in ("note", "acknowledge", "hidden", "calculate"):
                    col = "relevant"
                if col in ("required", "readonly") and r.random() < 0.5:
                    row[col] = r.choice(["yes", "no", "true()", "TRUE", "false()"])
                else:
                    row[col] = self.expr(questions, stack, nm)
                if col == "constraint" and r.random() < 0.5:
                    label_cells(row, "constraint_message")
                if col == "required" and r.random() < 0.3:
                    label_cells(row, "required_message")
            if r.random() < 0.2 and t in ("text", "integer", "decimal", "date"):
                row["default"] = self.default_value(t, questions, stack)
            if questions and r.random() < 0.08 and "calculation" in row and t not in ("calculate",):
                row["trigger"] = "${%s}" % r.choice([q for q, _ in questions])
            if questions and r.random() < 0.2 and "label" in row:
                row["label"] = row["label"] + " ${%s}" % r.choice([q for q, _ in questions])
            rows.append(row)
            questions.append((nm, [n for n, k in stack if k == "repeat"]))

        while budget > 0:
            budget -= 1
            x = r.random()
            if x < 0.22 and len(stack) < depth_cap:
                try:
                    nm = next(names)
                except StopIteration:
                    break
                kind = r.choice(["group", "repeat", "group", "repeat"])
                row = {"type": f"begin {kind}" if r.random() < 0.7 else f"begin_{kind}", "name": nm}
                if r.random() < 0.8:
                    label_cells(row)
                if kind == "group" and r.random() < 0.2:
                    row["appearance"] = "field-list"
                if kind == "repeat" and r.random() < 0.2 and questions:
                    row["repeat_count"] = r.choice(["3", "${%s}" % questions[0][0]])
                if r.random() < 0.2 and questions:
                    row["relevant"] = self.expr(questions, stack, nm)
                rows.append(row)
                stack.append((nm, kind))
                add_question()
            elif x < 0.35 and stack:
                nm, kind = stack.pop()
                rows.append({"type": f"end {kind}"})
            else:
                add_question()
        while stack:
            nm, kind = stack.pop()
            rows.append({"type": f"end {kind}"})
        if not any("name" in row and not row["type"].startswith("begin") for row in rows):
            rows.insert(0, {"type": "text", "name": "only", "label": "Only"})

        wb = WB()
        sheaders = []
        for row in rows:
            for k in row:
                if k not in sheaders:
                    sheaders.append(k)
        if r.random() < 0.3:
            r.shuffle(sheaders)
        wb["survey"] = (sheaders, [[row.get(h) for h in sheaders] for row in rows])
        if lists:
            crow = []
            extra = r.choice([[], ["geometry"], ["pop", "code"]])
            for L in lists:
                for i in range(r.randint(1, 4)):
                    c = {"list_name": L, "name": f"{L}_c{i}"}
                    label_cells(c)
                    for e in extra:
                        if r.random() < 0.7:
                            c[e] = f"{e}{i}"
                    if r.random() < 0.15:
                        c["media::image"] = f"img{i}.png"
                    crow.append(c)
            ch = []
            for c in crow:
                for k in c:
                    if k not in ch:
                        ch.append(k)
            wb["choices"] = (ch, [[c.get(h) for h in ch] for c in crow])
        if r.random() < 0.5:
            s = {}
            for k, v in (("form_title", "My <Form> & Title"), ("form_id", "form_%d" % idx), ("version", "2024.1"),
                         ("instance_name", "concat('x', 'y')"), ("style", "pages"), ("default_language", None)):
                if r.random() < 0.4:
                    if k == "default_language":
                        if langs:
                            s[k] = r.choice(langs)
                    else:
                        s[k] = v
            if s:
                wb["settings"] = (list(s.keys()), [list(s.values())])
        return Case(f"gen{idx}", wb=wb, origin="generated", tags={profile})

    def expr(self, questions, stack, self_name):
        r = self.r
        if not questions:
            return r.choice(["1 = 1", "true()", ". > 0", "today()"])
        q = r.choice(questions)[0]
        form = r.choice(["${%s} != ''", "${%s} > 3 and ${%s} < 10", "selected(${%s}, 'a')", "string-length(${%s}) > 2",
                         "if(${%s} = 'x', 1, 2)", "${%s} + 1", ". >= ${%s}", "count(${%s}) > 0", "not(${%s})"])
        return form.replace("%s", q)

    def default_value(self, t, questions, stack):
        r = self.r
        if t == "date":
            return r.choice(["2020-01-01", "today()", "2021-12-31"])
        if t in ("integer", "decimal"):
            return r.choice(["5", "-3", "1.5", "1 + 1", "${%s} * 2" % questions[0][0] if questions else "7"])
        return r.choice(["hello", "a b", "concat('a','b')", "once(uuid())", "x-y"])


def generated(seed: int, n: int, profile: str = "mixed") -> list[Case]:
    g = FormGen(seed)
    return [g.gen(i, profile) for i in range(n)]


def corpus(tier: str, seed: int, n_gen=None) -> list[Case]:
    n = n_gen if n_gen is not None else (120 if tier == "quick" else 1500)
    return [*harvested(), *generated(seed, n)]


# ----------------------------------------------------------------------------- XForm helpers


class XForm:
    """Namespace-aware parse of an XForm with the accessors the oracles need."""

    def __init__(self, text: str):
        self.text = text
        self.root = ET.fromstring(text.encode("utf-8"))
        self.head = self.root.find(f"{XH}head")
        self.body = self.root.find(f"{XH}body")
        self.model = self.head.find(f"{XF}model") if self.head is not None else None
        self.instances = self.model.findall(f"{XF}instance") if self.model is not None else []
        self.primary = self.instances[0] if self.instances else None
        self.iroot = list(self.primary)[0] if self.primary is not None and len(self.primary) else None

    @staticmethod
    def local(tag):
        return tag.rsplit("}", 1)[-1]

    def instance_paths(self):
        """{absolute path: element} for the primary instance (templates included once)."""
        out = {}

        def walk(e, path):
            p = f"{path}/{self.local(e.tag)}"
            out.setdefault(p, []).append(e)
            for c in e:
                walk(c, p)

        if self.iroot is not None:
            walk(self.iroot, "")
        return out

    def binds(self):
        return self.model.findall(f"{XF}bind") if self.model is not None else []

    def body_iter(self):
        return self.body.iter() if self.body is not None else iter(())


def parse_ok(text: str):
    try:
        return XForm(text), None
    except ET.ParseError as e:
        return None, e
