"""Corpus for the bounded end-to-end stand-ins: abstract workbooks, renderers, harvesting of the
forms in /repo/tests, a seeded grammar-based generator, conversion and XForm parsing helpers.

An abstract workbook (WB) is {sheet_name: (headers, rows)} with rows as lists of cell texts
(None = empty).  Everything here is deterministic given the seed.
"""
from __future__ import annotations

import ast
import csv
import glob
import io
import os
import random
import re
import xml.etree.ElementTree as ET
from dataclasses import dataclass, field

REPO = os.environ.get("VERIF_REPO", "/repo")

NS = {
    "h": "http://www.w3.org/1999/xhtml",
    "x": "http://www.w3.org/2002/xforms",
    "jr": "http://openrosa.org/javarosa",
    "odk": "http://www.opendatakit.org/xforms",
    "orx": "http://openrosa.org/xforms",
    "ev": "http://www.w3.org/2001/xml-events",
    "ent": "http://www.opendatakit.org/xforms/entities",
}
XF = "{http://www.w3.org/2002/xforms}"
XH = "{http://www.w3.org/1999/xhtml}"


# ----------------------------------------------------------------------------- workbooks


class WB(dict):
    """{sheet: (headers, rows)}; insertion ordered."""

    def copy(self):
        return WB({k: (list(h), [list(r) for r in rows]) for k, (h, rows) in self.items()})

    def sheet(self, name):
        return self.get(name, ([], []))

    def col(self, sheet, header):
        h, rows = self[sheet]
        i = h.index(header)
        return [r[i] if i < len(r) else None for r in rows]

    def set(self, sheet, r, header, value):
        h, rows = self[sheet]
        if header not in h:
            h.append(header)
        i = h.index(header)
        while len(rows[r]) <= i:
            rows[r].append(None)
        rows[r][i] = value


def wb_to_dict(wb: WB) -> dict:
    """The dict the readers produce (and convert() accepts directly)."""
    out = {"sheet_names": list(wb.keys())}
    for name, (headers, rows) in wb.items():
        key = name.lower()
        out[key] = [
            {h: c for h, c in zip(headers, row) if h is not None and c not in (None, "")} for row in rows
        ]
        out[f"{key}_header"] = [{h: None for h in headers if h is not None}] if headers else []
    return out


def _md_cell(c):
    if c is None:
        return ""
    return str(c).replace("|", r"\|")


def wb_to_md(wb: WB) -> str:
    lines = []
    for name, (headers, rows) in wb.items():
        lines.append(f"| {name} |")
        lines.append("| | " + " | ".join(_md_cell(h) for h in headers) + " |")
        for row in rows:
            cells = [_md_cell(c) for c in row] + [""] * (len(headers) - len(row))
            lines.append("| | " + " | ".join(cells) + " |")
    return "\n".join(lines) + "\n"


def md_safe(wb: WB) -> bool:
    """Markdown cannot carry '#', newlines or leading/trailing pipes faithfully."""
    for _, (headers, rows) in wb.items():
        for c in [*headers, *[c for r in rows for c in r]]:
            if c is not None and ("#" in str(c) or "\n" in str(c) or "\\" in str(c)):
                return False
    return True


def wb_to_csv(wb: WB) -> str:
    buf = io.StringIO(newline="")
    w = csv.writer(buf, quoting=csv.QUOTE_ALL)
    for name, (headers, rows) in wb.items():
        w.writerow([name])
        w.writerow(["", *[h or "" for h in headers]])
        for row in rows:
            w.writerow(["", *[("" if c is None else str(c)) for c in row]])
    return buf.getvalue()


def wb_to_xlsx(wb: WB, typed=False) -> bytes:
    from openpyxl import Workbook

    book = Workbook()
    book.remove(book.active)
    for name, (headers, rows) in wb.items():
        ws = book.create_sheet(title=name)
        ws.append([h for h in headers])
        for row in rows:
            out = []
            for c in row:
                if typed and isinstance(c, str) and re.fullmatch(r"-?\d+", c) and len(c) < 15:
                    out.append(int(c))
                else:
                    out.append(c)
            ws.append(out)
    buf = io.BytesIO()
    book.save(buf)
    return buf.getvalue()


# ----------------------------------------------------------------------------- cases


@dataclass
class Case:
    name: str
    md: str | None = None
    wb: WB | None = None
    kwargs: dict = field(default_factory=dict)
    origin: str = "generated"
    tags: set = field(default_factory=set)

    def source(self):
        if self.wb is not None:
            return wb_to_dict(self.wb)
        return self.md

    def as_md(self):
        if self.md is not None:
            return self.md
        return wb_to_md(self.wb)


@dataclass
class Result:
    ok: bool
    xform: str | None = None
    warnings: list | None = None
    itemsets: str | None = None
    error: BaseException | None = None
    pyxform: dict | None = None
    survey: object | None = None

    @property
    def internal_error(self):
        from pyxform.errors import PyXFormError

        return self.error is not None and not isinstance(self.error, PyXFormError)


def convert_case(case: Case, **over) -> Result:
    from pyxform.xls2xform import convert

    kw = {**case.kwargs, **over}
    src = kw.pop("_source", None) or case.source()
    if isinstance(src, str) and "file_type" not in kw:
        kw["file_type"] = ".md"
    warnings = []
    try:
        r = convert(xlsform=src, warnings=warnings, **kw)
        return Result(True, r.xform, list(r.warnings), r.itemsets, None, r._pyxform, r._survey)
    except BaseException as e:  # noqa: BLE001
        if isinstance(e, (KeyboardInterrupt, SystemExit, MemoryError)):
            raise
        return Result(False, None, warnings, None, e)


# ----------------------------------------------------------------------------- harvesting


_harvest_cache = None


def harvested() -> list[Case]:
    """Every string literal passed as md= (or assigned to a name used as md=) in /repo/tests."""
    global _harvest_cache
    if _harvest_cache is not None:
        return _harvest_cache
    out, seen = [], set()
    for path in sorted(glob.glob(os.path.join(REPO, "tests", "**", "*.py"), recursive=True)):
        try:
            tree = ast.parse(open(path, encoding="utf-8").read())
        except SyntaxError:
            continue
        consts = {}
        for n in ast.walk(tree):
            if isinstance(n, ast.Assign) and len(n.targets) == 1 and isinstance(n.targets[0], ast.Name) \
                    and isinstance(n.value, ast.Constant) and isinstance(n.value.value, str) and "|" in n.value.value:
                consts[n.targets[0].id] = n.value.value
        for n in ast.walk(tree):
            if isinstance(n, ast.Call):
                for k in n.keywords:
                    if k.arg == "md":
                        v = k.value
                        s = None
                        if isinstance(v, ast.Constant) and isinstance(v.value, str):
                            s = v.value
                        elif isinstance(v, ast.Name) and v.id in consts:
                            s = consts[v.id]
                        if s and "survey" in s.lower() and s not in seen and "{" not in s.replace("${", ""):
                            seen.add(s)
                            out.append(Case(f"{os.path.basename(path)}:{n.lineno}", md=s, origin="harvested"))
    _harvest_cache = out
    return out


# ----------------------------------------------------------------------------- generator

SIMPLE_TYPES = ["text", "integer", "decimal", "date", "time", "dateTime", "note", "geopoint", "barcode",
                "image", "audio", "acknowledge", "calculate", "hidden", "range", "file", "email"]
NAMES = ["a", "b", "q1", "q2", "age", "name_", "x_1", "Y", "r", "r2", "rr", "g", "g2", "outer", "inner",
         "town", "crop", "k", "m", "n", "p", "s", "t", "u", "v", "w", "z9"]
LANGS = ["English (en)", "French (fr)", "Swahili (sw)"]
TEXTS = ["Name?", "How old", "A < B & C > D", "Quote \" and ' here", "]]> end", "Tab\there", "Ünïcødé ☃",
         "<b>bold</b>", "&amp; entity", "  spaced  out ", "x", "-", "emoji \U0001F600", "rtl ‮ abc", "a ]]> b"]


class FormGen:
    """Seeded grammar-based generator of abstract workbooks."""

    def __init__(self, seed: int):
        self.r = random.Random(seed)

    def pick(self, xs):
        return self.r.choice(xs)

    def gen(self, idx: int, profile: str = "mixed") -> Case:
        r = self.r
        names = iter(r.sample(NAMES, len(NAMES)))
        langs = r.sample(LANGS, r.choice([0, 0, 1, 2, 2, 3])) if profile in ("mixed", "lang") else []
        n_lists = r.choice([0, 1, 2, 3])
        lists = [f"l{i}" for i in range(n_lists)]
        rows: list[dict] = []
        questions: list[tuple[str, list[str]]] = []  # (name, repeat-ancestor stack)
        stack: list[tuple[str, str]] = []
        budget = r.randint(2, 9)
        depth_cap = r.choice([1, 2, 3, 4])

        def label_cells(row, base="label", text=None):
            t = text or r.choice(TEXTS)
            if langs and r.random() < 0.7:
                for L in langs:
                    if r.random() < 0.8:
                        row[f"{base}::{L}"] = r.choice(TEXTS)
                if r.random() < 0.3:
                    row[base] = t
            else:
                row[base] = t

        def add_question():
            try:
                nm = next(names)
            except StopIteration:
                return
            kind = r.random()
            row = {"name": nm}
            if lists and kind < 0.3:
                sel = r.choice(["select_one", "select_multiple", "rank"] if profile != "simple" else ["select_one"])
                row["type"] = f"{sel} {r.choice(lists)}"
                if sel != "rank" and r.random() < 0.15 and not langs:
                    row["type"] += " or_other"
                if r.random() < 0.2:
                    row["choice_filter"] = "true()"
                if r.random() < 0.15 and sel != "rank":
                    row["parameters"] = r.choice(["randomize=true", "randomize=true, seed=42"])
            else:
                row["type"] = r.choice(SIMPLE_TYPES)
            t = row["type"]
            if t == "calculate":
                row["calculation"] = self.expr(questions, stack, nm)
            elif t != "hidden":
                label_cells(row)
            if t == "range" and r.random() < 0.5:
                row["parameters"] = r.choice(["start=1 end=10 step=1", "start=0.5 end=5 step=0.5", "start=1;end=5;step=2"])
            if t == "image" and r.random() < 0.5:
                row["parameters"] = "max-pixels=640"
            if r.random() < 0.3 and t not in ("note",):
                row["hint"] = r.choice(TEXTS)
                if r.random() < 0.3:
                    row["guidance_hint"] = r.choice(TEXTS)
            if questions and r.random() < 0.45:
                col = r.choice(["relevant", "constraint", "required", "readonly", "calculation"])
                if col == "calculation" and t in ("note", "acknowledge", "hidden", "calculate"):
                    col = "relevant"
                if col in ("required", "readonly") and r.random() < 0.5:
                    row[col] = r.choice(["yes", "no", "true()", "TRUE", "false()"])
                else:
                    row[col] = self.expr(questions, stack, nm)
                if col == "constraint" and r.random() < 0.5:
                    label_cells(row, "constraint_message")
                if col == "required" and r.random() < 0.3:
                    label_cells(row, "required_message")
            if r.random() < 0.2 and t in ("text", "integer", "decimal", "date"):
                row["default"] = self.default_value(t, questions, stack)
            if questions and r.random() < 0.08 and "calculation" in row and t not in ("calculate",):
                row["trigger"] = "${%s}" % r.choice([q for q, _ in questions])
            if questions and r.random() < 0.2 and "label" in row:
                row["label"] = row["label"] + " ${%s}" % r.choice([q for q, _ in questions])
            rows.append(row)
            questions.append((nm, [n for n, k in stack if k == "repeat"]))

        while budget > 0:
            budget -= 1
            x = r.random()
            if x < 0.22 and len(stack) < depth_cap:
                try:
                    nm = next(names)
                except StopIteration:
                    break
                kind = r.choice(["group", "repeat", "group", "repeat"])
                row = {"type": f"begin {kind}" if r.random() < 0.7 else f"begin_{kind}", "name": nm}
                if r.random() < 0.8:
                    label_cells(row)
                if kind == "group" and r.random() < 0.2:
                    row["appearance"] = "field-list"
                if kind == "repeat" and r.random() < 0.2 and questions:
                    row["repeat_count"] = r.choice(["3", "${%s}" % questions[0][0]])
                if r.random() < 0.2 and questions:
                    row["relevant"] = self.expr(questions, stack, nm)
                rows.append(row)
                stack.append((nm, kind))
                add_question()
            elif x < 0.35 and stack:
                nm, kind = stack.pop()
                rows.append({"type": f"end {kind}"})
            else:
                add_question()
        while stack:
            nm, kind = stack.pop()
            rows.append({"type": f"end {kind}"})
        if not any("name" in row and not row["type"].startswith("begin") for row in rows):
            rows.insert(0, {"type": "text", "name": "only", "label": "Only"})

        wb = WB()
        sheaders = []
        for row in rows:
            for k in row:
                if k not in sheaders:
                    sheaders.append(k)
        if r.random() < 0.3:
            r.shuffle(sheaders)
        wb["survey"] = (sheaders, [[row.get(h) for h in sheaders] for row in rows])
        if lists:
            crow = []
            extra = r.choice([[], ["geometry"], ["pop", "code"]])
            for L in lists:
                for i in range(r.randint(1, 4)):
                    c = {"list_name": L, "name": f"{L}_c{i}"}
                    label_cells(c)
                    for e in extra:
                        if r.random() < 0.7:
                            c[e] = f"{e}{i}"
                    if r.random() < 0.15:
                        c["media::image"] = f"img{i}.png"
                    crow.append(c)
            ch = []
            for c in crow:
                for k in c:
                    if k not in ch:
                        ch.append(k)
            wb["choices"] = (ch, [[c.get(h) for h in ch] for c in crow])
        if r.random() < 0.5:
            s = {}
            for k, v in (("form_title", "My <Form> & Title"), ("form_id", "form_%d" % idx), ("version", "2024.1"),
                         ("instance_name", "concat('x', 'y')"), ("style", "pages"), ("default_language", None)):
                if r.random() < 0.4:
                    if k == "default_language":
                        if langs:
                            s[k] = r.choice(langs)
                    else:
                        s[k] = v
            if s:
                wb["settings"] = (list(s.keys()), [list(s.values())])
        return Case(f"gen{idx}", wb=wb, origin="generated", tags={profile})

    def expr(self, questions, stack, self_name):
        r = self.r
        if not questions:
            return r.choice(["1 = 1", "true()", ". > 0", "today()"])
        q = r.choice(questions)[0]
        form = r.choice(["${%s} != ''", "${%s} > 3 and ${%s} < 10", "selected(${%s}, 'a')", "string-length(${%s}) > 2",
                         "if(${%s} = 'x', 1, 2)", "${%s} + 1", ". >= ${%s}", "count(${%s}) > 0", "not(${%s})"])
        return form.replace("%s", q)

    def default_value(self, t, questions, stack):
        r = self.r
        if t == "date":
            return r.choice(["2020-01-01", "today()", "2021-12-31"])
        if t in ("integer", "decimal"):
            return r.choice(["5", "-3", "1.5", "1 + 1", "${%s} * 2" % questions[0][0] if questions else "7"])
        return r.choice(["hello", "a b", "concat('a','b')", "once(uuid())", "x-y"])


def generated(seed: int, n: int, profile: str = "mixed") -> list[Case]:
    g = FormGen(seed)
    return [g.gen(i, profile) for i in range(n)]


def corpus(tier: str, seed: int, n_gen=None) -> list[Case]:
    n = n_gen if n_gen is not None else (120 if tier == "quick" else 1500)
    return [*harvested(), *generated(seed, n)]


# ----------------------------------------------------------------------------- XForm helpers


class XForm:
    """Namespace-aware parse of an XForm with the accessors the oracles need."""

    def __init__(self, text: str):
        self.text = text
        self.root = ET.fromstring(text.encode("utf-8"))
        self.head = self.root.find(f"{XH}head")
        self.body = self.root.find(f"{XH}body")
        self.model = self.head.find(f"{XF}model") if self.head is not None else None
        self.instances = self.model.findall(f"{XF}instance") if self.model is not None else []
        self.primary = self.instances[0] if self.instances else None
        self.iroot = list(self.primary)[0] if self.primary is not None and len(self.primary) else None

    @staticmethod
    def local(tag):
        return tag.rsplit("}", 1)[-1]

    def instance_paths(self):
        """{absolute path: element} for the primary instance (templates included once)."""
        out = {}

        def walk(e, path):
            p = f"{path}/{self.local(e.tag)}"
            out.setdefault(p, []).append(e)
            for c in e:
                walk(c, p)

        if self.iroot is not None:
            walk(self.iroot, "")
        return out

    def binds(self):
        return self.model.findall(f"{XF}bind") if self.model is not None else []

    def body_iter(self):
        return self.body.iter() if self.body is not None else iter(())


def parse_ok(text: str):
    try:
        return XForm(text), None
    except ET.ParseError as e:
        return None, e


# --- helpers added for C07/C08/C09 (append-only block; shared by the three translation/choices oracles)

_MD_PIPE = re.compile(r"(?<!\\)\|")


def md_to_wb(md: str):
    """Independent reader of the Markdown test-form convention ('| sheet |' / '| | h1 | h2 |' / '| | c1 | c2 |').
    Returns a WB, or None when the text is irregular (duplicate/blank headers with data, ragged rows,
    inline '#' comments) so that oracles can skip forms whose source they cannot read with certainty."""
    sheets: dict[str, list[list]] = {}
    cur = None
    for line in md.split("\n"):
        s = line.strip()
        if not s or s.startswith("#"):
            continue
        if "#" in s:
            return None
        if not s.startswith("|"):
            continue
        if not (s.endswith("|") and len(s) >= 2):
            return None
        inner = s[1:-1]
        if re.fullmatch(r"[|\-\s:]*", inner) and "-" in inner:
            continue
        parts = _MD_PIPE.split(inner)
        cells = [(p.strip().replace(r"\|", "|") or None) if p and not p.isspace() else None for p in parts]
        first, rest = cells[0], cells[1:]
        if first is not None:
            cur = first
            if cur in sheets:
                return None
            sheets[cur] = []
        if cur is not None and any(c is not None for c in rest):
            sheets[cur].append(rest)
    wb = WB()
    for name, arr in sheets.items():
        if not arr:
            wb[name] = ([], [])
            continue
        headers = list(arr[0])
        while headers and headers[-1] is None:
            headers.pop()
        named = [h for h in headers if h is not None]
        if len(set(named)) != len(named):
            return None
        rows = []
        for r in arr[1:]:
            r = list(r)
            if any(c is not None for c in r[len(headers):]):
                return None
            r = r[:len(headers)] + [None] * (len(headers) - len(r))
            if any(c is not None and h is None for h, c in zip(headers, r)):
                return None
            rows.append(r)
        wb[name] = (headers, rows)
    low = [k.lower() for k in wb]
    if len(set(low)) != len(low):
        return None
    if "survey" not in low:
        return None
    return wb


def case_wb(case: Case):
    """The abstract workbook of a case (parsed from Markdown when needed); None if unreadable."""
    if case.wb is not None:
        return case.wb
    cached = getattr(case, "_wb_cache", False)
    if cached is not False:
        return cached
    wb = md_to_wb(case.md) if case.md is not None else None
    try:
        case._wb_cache = wb
    except Exception:  # noqa: BLE001
        pass
    return wb


def wb_sheet(wb: WB, name: str):
    """(headers, rows) of the sheet called `name` (case-insensitive), or ([], [])."""
    for k, v in wb.items():
        if k.lower() == name:
            return v
    return ([], [])


def sheet_dicts(wb: WB, name: str) -> list[dict]:
    """Rows of a sheet as {header: non-empty cell text}, sheet order."""
    headers, rows = wb_sheet(wb, name)
    out = []
    for r in rows:
        d = {}
        for h, c in zip(headers, r):
            if h is not None and c not in (None, ""):
                d[h] = str(c)
        out.append(d)
    return out


def sheet_from_dicts(rows: list[dict], headers: list | None = None):
    """(headers, rows) from row dicts; header order = given order, then first-seen order."""
    hs = list(headers or [])
    for r in rows:
        for k in r:
            if k not in hs:
                hs.append(k)
    return (hs, [[r.get(h) for h in hs] for r in rows])


def source_default_language(case: Case, wb: WB) -> str:
    """The form's default language as the XLSForm conventions define it: settings.default_language, else the
    default_language argument of convert(), else the implicit language called 'default'."""
    for row in sheet_dicts(wb, "settings")[:1]:
        v = row.get("default_language")
        if v:
            return v
    v = case.kwargs.get("default_language")
    return str(v) if v else "default"


def flatten_value(e) -> str:
    """Text of an itext <value>/<label>/<hint> with <output value=.../> children replaced by a NUL token."""
    out = [e.text or ""]
    for c in e:
        out.append("\x00")
        out.append(c.tail or "")
    return "".join(out)


class IText:
    """The itext block: .langs (document order, duplicates kept), .marked_default (langs carrying a default
    attribute), .texts[lang][id][form or None] = [flattened values], .dup_ids[lang] = ids repeated in a language."""

    def __init__(self, xf: XForm):
        self.langs, self.marked_default, self.texts, self.dup_ids = [], [], {}, {}
        it = xf.model.find(f"{XF}itext") if xf.model is not None else None
        self.present = it is not None
        self.n_blocks = len(xf.model.findall(f"{XF}itext")) if xf.model is not None else 0
        if it is None:
            return
        for tr in it.findall(f"{XF}translation"):
            lang = tr.get("lang")
            self.langs.append(lang)
            if tr.get("default") is not None:
                self.marked_default.append(lang)
            d = self.texts.setdefault(lang, {})
            seen = set()
            for t in tr.findall(f"{XF}text"):
                tid = t.get("id")
                if tid in seen:
                    self.dup_ids.setdefault(lang, []).append(tid)
                seen.add(tid)
                forms = d.setdefault(tid, {})
                for v in t.findall(f"{XF}value"):
                    forms.setdefault(v.get("form"), []).append(flatten_value(v))

    def shown(self, lang, tid, form=None):
        """The single value a user of `lang` gets for (id, form); None when absent."""
        vs = self.texts.get(lang, {}).get(tid, {}).get(form)
        return vs[0] if vs else None


_ITEXT_LITERAL = re.compile(r"jr:itext\(\s*'([^']*)'\s*\)|jr:itext\(\s*\"([^\"]*)\"\s*\)")


def literal_itext_ids(value: str) -> list[str]:
    """ids of the literal jr:itext('id') calls inside an attribute value (dynamic jr:itext(itextId) ignored)."""
    if not value or "jr:itext(" not in value:
        return []
    v = value.strip()
    if v.startswith("jr:itext('") and v.endswith("')") and v.count("jr:itext(") == 1:
        return [v[len("jr:itext('"):-2]]
    return [a or b for a, b in _ITEXT_LITERAL.findall(value)]


def secondary_instances(xf: XForm) -> list:
    """[(id, src, element)] for every model instance except the primary one."""
    return [(i.get("id"), i.get("src"), i) for i in xf.instances[1:]]


def split_lang_header(header: str, double_colon: bool):
    """('base', 'lang' | None) following the XLSForm column convention name::language (or name:language in
    sheets that use no '::' at all). Tokens are stripped; deeper nesting returns base with the extra tokens
    joined so callers can treat it as not modelled."""
    if header is None:
        return (None, None)
    if double_colon or "::" in header:
        toks = [t.strip() for t in header.split("::")]
    else:
        toks = [t.strip() for t in header.split(":")]
    if len(toks) == 1:
        return (toks[0], None)
    if len(toks) == 2:
        return (toks[0], toks[1])
    return ("::".join(toks[:-1]), toks[-1])


# ----------------------------------------------------------------------------- helpers added for C17 / C19 / C20
# --- helpers added for C17, C19, C20 (append-only; all names prefixed x17_ so that no other helper is shadowed)


def x17_md_to_wb(md: str):
    """Independent reading of the simple Markdown table dialect used by the tests: `| sheet |` lines open a
    sheet, `| | c1 | c2 |` lines are rows (first one = headers), rows without any value are dropped.
    Returns None when the text uses features outside that simple subset (comments, separators)."""
    if md is None or "#" in md:
        return None
    wb = WB()
    cur = None
    started = {}
    for line in md.split("\n"):
        s = line.strip()
        if not s:
            continue
        if not (s.startswith("|") and s.endswith("|") and len(s) >= 2):
            return None
        inner = s[1:-1]
        if re.fullmatch(r"[\|\-\s:]+", inner) and "-" in inner:
            return None
        cells, buf, i = [], "", 0
        while i < len(inner):
            ch = inner[i]
            if ch == "\\" and i + 1 < len(inner) and inner[i + 1] == "|":
                buf += "|"
                i += 2
                continue
            if ch == "|":
                cells.append(buf)
                buf = ""
            else:
                buf += ch
            i += 1
        cells.append(buf)
        cells = [(c.strip() or None) for c in cells]
        first, rest = cells[0], cells[1:]
        if first is not None:
            cur = first
            if cur in wb:
                return None
            wb[cur] = ([], [])
            started[cur] = False
        if cur is None:
            continue
        if any(c is not None for c in rest):
            if not started[cur]:
                wb[cur] = (list(rest), [])
                started[cur] = True
            else:
                h, rows = wb[cur]
                rows.append(list(rest[: len(h)]) + [None] * (len(h) - len(rest)))
    return wb


def x17_case_wb(case):
    """The abstract workbook of a case (its .wb, or an independent reading of its Markdown)."""
    if case.wb is not None:
        return case.wb
    if case.md is not None:
        try:
            return x17_md_to_wb(case.md)
        except Exception:  # noqa: BLE001
            return None
    return None


_X17_BEGIN_RE = re.compile(r"^begin[ _](group|repeat|loop)\b")
_X17_END_RE = re.compile(r"^end[ _](group|repeat|loop)\b")


def x17_outline(wb: WB, sheet: str = "survey"):
    """Independent structural reading of the survey sheet: one dict per row with
    idx (0-based data row), row (spreadsheet row number = idx + 2), type, name, kind in
    {"begin", "end", "question", "blank"}, control ("group"/"repeat"/"loop" or None),
    ancestors [(name, control)] (outermost first, not including the row itself) and path.
    Returns (items, balanced)."""
    headers, rows = wb.sheet(sheet)
    hl = [str(h).strip().lower() if h is not None else None for h in headers]

    def cell(r, *names):
        for n in names:
            if n in hl:
                i = hl.index(n)
                if i < len(r) and r[i] not in (None, ""):
                    return str(r[i])
        return None

    out, stack, balanced = [], [], True
    for idx, r in enumerate(rows):
        t = cell(r, "type", "command")
        n = cell(r, "name", "tag", "value")
        ts = " ".join(t.split()) if t else None
        item = {"idx": idx, "row": idx + 2, "type": ts, "name": n, "control": None,
                "ancestors": list(stack), "kind": "blank"}
        if ts:
            mb, me = _X17_BEGIN_RE.match(ts), _X17_END_RE.match(ts)
            if mb:
                item["kind"], item["control"] = "begin", mb.group(1)
                stack.append((n, mb.group(1)))
            elif me:
                item["kind"], item["control"] = "end", me.group(1)
                if stack and stack[-1][1] == me.group(1):
                    stack.pop()
                    item["ancestors"] = list(stack)
                else:
                    balanced = False
            else:
                item["kind"] = "question"
        item["path"] = "/".join([a for a, _ in item["ancestors"] if a] + ([n] if n else []))
        out.append(item)
    if stack:
        balanced = False
    return out, balanced


def x17_ns_decls(text: str):
    """[(prefix, uri)] namespace declarations of an XML text in document order (expat based)."""
    out = []
    for ev, x in ET.iterparse(io.BytesIO(text.encode("utf-8")), events=("start-ns",)):
        out.append(x)
    return out


def x17_edit_distance(a: str, b: str) -> int:
    """Reference Levenshtein distance (full matrix, insert/delete/substitute at cost 1)."""
    la, lb = len(a), len(b)
    d = [[0] * (lb + 1) for _ in range(la + 1)]
    for i in range(la + 1):
        d[i][0] = i
    for j in range(lb + 1):
        d[0][j] = j
    for i in range(1, la + 1):
        for j in range(1, lb + 1):
            d[i][j] = min(d[i - 1][j] + 1, d[i][j - 1] + 1, d[i - 1][j - 1] + (0 if a[i - 1] == b[j - 1] else 1))
    return d[la][lb]


def x17_site(exc) -> str:
    """'<file>:<function>' of the innermost pyxform frame of an exception traceback."""
    import traceback

    tb = traceback.extract_tb(exc.__traceback__)
    return next((f"{f.filename.split('/pyxform/')[-1]}:{f.name}" for f in reversed(tb) if "/pyxform/" in f.filename), "?")


# ============================================================================================
# --- helpers added for C04 / C05 / C11
# Independent reading of the *source* workbook for the row/column oriented oracles: a small
# Markdown table reader (for harvested forms), the XLSForm column-name conventions (aliases,
# group::sub columns), the XLSForm question type table and a begin/end stack machine over the
# survey rows.  Nothing here calls pyxform.  `SvUnsupported` means "outside the modelled domain":
# the oracles skip such forms instead of guessing.
# ============================================================================================


class SvUnsupported(Exception):
    pass


sv_MD_COMMENT = re.compile(r"^\s*#")
sv_MD_COMMENT_INLINE = re.compile(r"^(.*)(#[^|]+)$")
sv_MD_ROW = re.compile(r"\s*\|(.*)\|\s*")
sv_MD_SEP = re.compile(r"^[\|-]+$")
sv_MD_SPLIT = re.compile(r"(?<!\\)\|")
SV_SHEET_NAMES = ("survey", "choices", "settings", "external_choices", "entities", "osm")


def sv_md_to_wb(md: str) -> "WB | None":
    """Markdown XLSForm text -> WB (first row of each sheet = headers); None if not representable."""
    sheets: dict = {}
    cur = None
    for line in md.split("\n"):
        if sv_MD_COMMENT.match(line):
            continue
        m = sv_MD_COMMENT_INLINE.match(line)
        if m:
            line = m.group(1)
        m = sv_MD_ROW.match(line)
        if not m:
            continue
        inner = m.group(1)
        if sv_MD_SEP.match(inner):
            continue
        cells = [None if (not c or c.isspace()) else c.strip().replace(r"\|", "|") for c in sv_MD_SPLIT.split(inner)]
        first, rest = cells[0], cells[1:]
        if first is not None:
            if first in sheets:
                return None
            cur = first
            sheets[cur] = []
        if cur is not None and any(c is not None for c in rest):
            sheets[cur].append(rest)
    wb = WB()
    for name, arr in sheets.items():
        if not arr:
            wb[name] = ([], [])
            continue
        headers, rows = arr[0], arr[1:]
        if any(len(r) > len(headers) and any(c is not None for c in r[len(headers):]) for r in rows):
            return None
        if len(set(h for h in headers if h is not None)) != len([h for h in headers if h is not None]):
            return None
        wb[name] = (list(headers), [list(r) for r in rows])
    return wb


def sv_case_wb(case) -> "WB | None":
    """The source workbook of a case (abstract workbook, or the Markdown text parsed); None if unknown."""
    if case.wb is not None:
        return case.wb
    if case.md is not None:
        try:
            return sv_md_to_wb(case.md)
        except Exception:  # noqa: BLE001
            return None
    return None


def sv_find_sheet(wb: WB, name: str):
    """(headers, rows) of the sheet called `name` (sheet names are case-insensitive) or None."""
    hits = [k for k in wb if str(k).lower() == name]
    if len(hits) != 1:
        return None
    return wb[hits[0]]


def sv_sheet_records(wb: WB, name: str) -> "list[dict]":
    """Rows of a sheet as {header: cell text} with empty cells left out (header order kept)."""
    sh = sv_find_sheet(wb, name)
    if sh is None:
        return []
    headers, rows = sh
    out = []
    for row in rows:
        d = {}
        for h, c in zip(headers, row):
            if h is None or c is None or c == "":
                continue
            d[h] = str(c)
        out.append(d)
    return out


sv_SMART = {"‘": "'", "’": "'", "“": '"', "”": '"'}


def sv_clean_cell(text: str) -> str:
    """XLSForm cell text as the converter sees it: outer whitespace removed, runs of whitespace
    collapsed, typographic quotes replaced by plain ones."""
    t = re.sub(r"\s+", " ", str(text).strip())
    for a, b in sv_SMART.items():
        t = t.replace(a, b)
    return t


# XLSForm survey column conventions: alias -> canonical (group, key) path.
SV_SURVEY_COLUMN_ALIASES = {
    "type": ("type",), "command": ("type",),
    "name": ("name",), "tag": ("name",), "value": ("name",),
    "label": ("label",), "caption": ("label",),
    "hint": ("hint",), "guidance_hint": ("guidance_hint",),
    "default": ("default",), "parameters": ("parameters",), "choice_filter": ("choice_filter",),
    "trigger": ("trigger",), "disabled": ("disabled",), "intent": ("intent",),
    "relevant": ("bind", "relevant"), "relevance": ("bind", "relevant"),
    "required": ("bind", "required"),
    "readonly": ("bind", "readonly"), "read_only": ("bind", "readonly"),
    "constraint": ("bind", "constraint"),
    "constraint_message": ("bind", "jr:constraintMsg"), "constraining_message": ("bind", "jr:constraintMsg"),
    "required_message": ("bind", "jr:requiredMsg"), "requiredmsg": ("bind", "jr:requiredMsg"),
    "noapperrorstring": ("bind", "jr:noAppErrorString"), "no_app_error_string": ("bind", "jr:noAppErrorString"),
    "calculation": ("bind", "calculate"), "calculate": ("bind", "calculate"),
    "save_to": ("bind", "entities:saveto"),
    "appearance": ("control", "appearance"),
    "repeat_count": ("control", "jr:count"), "count": ("control", "jr:count"), "jr:count": ("control", "jr:count"),
    "rows": ("control", "rows"), "autoplay": ("control", "autoplay"),
    "image": ("media", "image"), "big-image": ("media", "big-image"), "audio": ("media", "audio"),
    "video": ("media", "video"),
    "bind": ("bind",), "body": ("control",), "control": ("control",), "media": ("media",),
    "instance": ("instance",),
}


def sv_survey_header_tokens(headers) -> dict:
    """{header: canonical token tuple or None (column not part of the modelled conventions)}.
    Only the `group::key` spelling of grouped columns is modelled (the single-colon legacy spelling
    is reported as None)."""
    out = {}
    for h in headers:
        if h is None:
            continue
        parts = [p.strip() for p in str(h).split("::")]
        first = "_".join(parts[0].split()).lower()
        canon = SV_SURVEY_COLUMN_ALIASES.get(first)
        if canon is None or (":" in parts[0] and first != "jr:count"):
            out[h] = None
            continue
        out[h] = (*canon, *parts[1:])
    return out


def sv_survey_rows(wb: WB) -> "list[dict]":
    """Survey rows as {token tuple: cleaned cell text}. Raises SvUnsupported for header rows outside
    the modelled conventions that could hide a structural/logic column."""
    sh = sv_find_sheet(wb, "survey")
    if sh is None:
        raise SvUnsupported("no survey sheet")
    headers, _ = sh
    toks = sv_survey_header_tokens(headers)
    seen = {}
    for h, t in toks.items():
        if t is None:
            if ":" in str(h).replace("::", ""):
                raise SvUnsupported(f"single-colon header {h!r}")
            continue
        if t in seen:
            raise SvUnsupported(f"two columns for {t}")
        seen[t] = h
    out = []
    for rec in sv_sheet_records(wb, "survey"):
        row = {}
        for h, c in rec.items():
            t = toks.get(h)
            if t is None:
                continue
            c = sv_clean_cell(c)
            if c != "":
                row[t] = c
        out.append(row)
    return out


def sv_row_get(row: dict, *tokens, default=None):
    return row.get(tuple(tokens), default)


def sv_row_has(row: dict, first: str) -> bool:
    """Any cell in the column group `first` (e.g. label, label::English, media::image)."""
    return any(k[0] == first for k in row)


SV_YES = {"yes", "Yes", "SV_YES", "true", "True", "TRUE", "true()"}
SV_NO = {"no", "No", "SV_NO", "false", "False", "FALSE", "false()"}

# The XLSForm question type table (xlsform.org "Question types" and "Metadata"): body control element,
# upload media type, bind data type and preload attributes.  control None = not user-visible.
def sv_t(control, bind, mediatype=None, preload=None, params=None, readonly=None):
    return {"control": control, "bind": bind, "mediatype": mediatype, "preload": preload, "params": params,
            "readonly": readonly}


SV_XLSFORM_TYPES = {
    "text": sv_t("input", "string"), "string": sv_t("input", "string"),
    "integer": sv_t("input", "int"), "int": sv_t("input", "int"),
    "decimal": sv_t("input", "decimal"),
    "range": sv_t("range", "int"),
    "note": sv_t("input", "string", readonly="true()"),
    "date": sv_t("input", "date"), "time": sv_t("input", "time"),
    "dateTime": sv_t("input", "dateTime"), "datetime": sv_t("input", "dateTime"),
    "geopoint": sv_t("input", "geopoint"), "geotrace": sv_t("input", "geotrace"), "geoshape": sv_t("input", "geoshape"),
    "barcode": sv_t("input", "barcode"),
    "image": sv_t("upload", "binary", "image/*"), "photo": sv_t("upload", "binary", "image/*"),
    "audio": sv_t("upload", "binary", "audio/*"), "video": sv_t("upload", "binary", "video/*"),
    "file": sv_t("upload", "binary", "application/*"),
    "acknowledge": sv_t("trigger", "string"),
    "calculate": sv_t(None, "string"), "hidden": sv_t(None, "string"),
    "background-audio": sv_t(None, "binary"),
    "start-geopoint": sv_t(None, "geopoint"), "background-geopoint": sv_t(None, "geopoint"),
    "start": sv_t(None, "dateTime", preload="timestamp", params="start"),
    "end": sv_t(None, "dateTime", preload="timestamp", params="end"),
    "today": sv_t(None, "date", preload="date", params="today"),
    "deviceid": sv_t(None, "string", preload="property", params="deviceid"),
    "phonenumber": sv_t(None, "string", preload="property", params="phonenumber"),
    "username": sv_t(None, "string", preload="property", params="username"),
    "email": sv_t(None, "string", preload="property", params="email"),
    "simserial": sv_t(None, "string", preload="property", params="simserial"),
    "subscriberid": sv_t(None, "string", preload="property", params="subscriberid"),
    "audit": sv_t(None, "binary"),
    # select family (the list name follows the keyword)
    "select_one": sv_t("select1", "string"), "select_multiple": sv_t("select", "string"),
    "select_one_from_file": sv_t("select1", "string"), "select_multiple_from_file": sv_t("select", "string"),
    "select_one_external": sv_t("input", "string"),
    "rank": sv_t("odk:rank", "odk:rank"),
    # external data declarations: no node, no bind, no control
    "xml-external": None, "csv-external": None,
}
SV_SELECT_KEYWORDS = {
    "select_one": "select_one", "select one": "select_one", "select1": "select_one",
    "select_multiple": "select_multiple", "select all that apply": "select_multiple",
    "select_one_from_file": "select_one_from_file", "select_multiple_from_file": "select_multiple_from_file",
    "select_one_external": "select_one_external", "rank": "rank",
}
sv_RE_SELECT_TYPE = re.compile(
    r"^(?P<kw>" + "|".join(sorted(map(re.escape, SV_SELECT_KEYWORDS), key=len, reverse=True)) + r") (?P<list>\S+)"
    r"( (?P<other>or specify other|or_other|or other))?$")
sv_RE_CONTROL_TYPE = re.compile(r"^(?P<be>begin|end)[ _](?P<kind>group|repeat)$")
sv_SETTINGS_AS_TYPE = {"form_title", "set_form_title", "form_id", "set_form_id", "prefix"}
SV_RE_PLAIN_REF = re.compile(r"^\$\{[^\s{}$#]+\}$")
SV_RE_XML_NAME = re.compile(r"^[A-Za-z_][A-Za-z0-9_.\-]*$")


@dataclass
class SvSRow:
    """One survey sheet row as understood by the stack machine."""
    idx: int                    # 0-based row index in the sheet
    kind: str                   # 'question' | 'group' | 'repeat' | 'end' | 'audit' | 'external' | 'nothing'
    name: str | None = None
    parents: tuple = ()         # names of the enclosing groups/repeats, outermost first
    parent_kinds: tuple = ()
    type: str | None = None     # normalised base type (key of SV_XLSFORM_TYPES) or None if unknown
    raw_type: str | None = None
    list_name: str | None = None
    or_other: bool = False
    cells: dict = field(default_factory=dict)

    @property
    def path(self):
        return (*self.parents, self.name)


def sv_parse_parameters(text: "str | None") -> dict:
    """`k=v` pairs separated by spaces, commas or semicolons (XLSForm parameters column)."""
    if not text:
        return {}
    for sep in (";", ","):
        if sep in text:
            parts = text.split(sep)
            break
    else:
        parts = text.split()
    out = {}
    for p in parts:
        if "=" not in p:
            raise SvUnsupported("malformed parameters")
        k, v = p.split("=")[:2]
        k = k.strip().lower()
        out[k] = v.strip() if k in ("label", "value") else v.strip().lower()
    return out


def sv_survey_model(wb: WB) -> "list[SvSRow]":
    """Walk the survey rows with a begin/end stack. Raises SvUnsupported for constructs outside the
    modelled domain (loops, settings-in-survey rows, nameless rows, unbalanced sheets...)."""
    out: list[SvSRow] = []
    stack: list[tuple[str, str]] = []
    for idx, cells in enumerate(sv_survey_rows(wb)):
        dis = sv_row_get(cells, "disabled")
        if dis is not None:
            if dis in SV_YES:
                out.append(SvSRow(idx, "nothing", cells=cells))
                continue
            if dis not in SV_NO:
                raise SvUnsupported("odd disabled value")
        live = {k: v for k, v in cells.items() if k != ("disabled",)}
        if not live:
            out.append(SvSRow(idx, "nothing", cells=cells))
            continue
        rtype = sv_row_get(cells, "type")
        name = sv_row_get(cells, "name")
        if rtype is None:
            if name is None and not sv_row_has(cells, "label"):
                out.append(SvSRow(idx, "nothing", cells=cells))   # comment row
                continue
            raise SvUnsupported("row without type")
        parents = tuple(n for n, _ in stack)
        pkinds = tuple(k for _, k in stack)
        if rtype == "audit":
            if name not in (None, "audit"):
                raise SvUnsupported("named audit")
            out.append(SvSRow(idx, "audit", "audit", ("meta",), ("group",), "audit", rtype, cells=cells))
            continue
        if rtype in sv_SETTINGS_AS_TYPE or rtype == "include" or "loop" in rtype.split() or "lgroup" in rtype \
                or "looped" in rtype:
            raise SvUnsupported(f"type {rtype}")
        m = sv_RE_CONTROL_TYPE.match(rtype)
        if m is None and re.match(r"^(begin|end)[ _]", rtype):
            raise SvUnsupported(f"control type {rtype}")
        if m and m.group("be") == "end":
            if not stack or stack[-1][1] != m.group("kind"):
                raise SvUnsupported("unbalanced end")
            stack.pop()
            out.append(SvSRow(idx, "end", None, parents, pkinds, raw_type=rtype, cells=cells))
            continue
        if name is None or not SV_RE_XML_NAME.match(name):
            raise SvUnsupported("nameless or oddly named row")
        if m:
            kind = m.group("kind")
            out.append(SvSRow(idx, kind, name, parents, pkinds, raw_type=rtype, cells=cells))
            stack.append((name, kind))
            continue
        sm = sv_RE_SELECT_TYPE.match(rtype)
        if sm:
            out.append(SvSRow(idx, "question", name, parents, pkinds, SV_SELECT_KEYWORDS[sm.group("kw")], rtype,
                            sm.group("list"), sm.group("other") is not None, cells))
            continue
        if rtype in ("xml-external", "csv-external"):
            out.append(SvSRow(idx, "external", name, parents, pkinds, rtype, rtype, cells=cells))
            continue
        base = rtype if rtype in SV_XLSFORM_TYPES else None
        if rtype.startswith("osm"):
            base = None
        out.append(SvSRow(idx, "question", name, parents, pkinds, base, rtype, cells=cells))
    if stack:
        raise SvUnsupported("unbalanced begin")
    return out


def sv_settings_record(wb: WB) -> dict:
    """First data row of the settings sheet as {header: text} (empty if there is no settings sheet)."""
    recs = sv_sheet_records(wb, "settings")
    return dict(recs[0]) if recs else {}


def sv_ref_regex(cell: str) -> "re.Pattern":
    """Regex accepting exactly `cell` with every ${name} replaced by some XPath ending in /name
    (absolute, relative or current()-anchored, optionally in the last-saved instance), modulo
    whitespace around the substituted path."""
    out, pos = [], 0
    for m in re.finditer(r"\$\{(last-saved#)?([^}]*)\}", cell):
        out.append(re.escape(cell[pos:m.start()]))
        nm = re.escape(m.group(2).strip())
        pre = r"instance\('__last-saved'\)" if m.group(1) else r"(?:current\(\)/)?"
        out.append(r"\s*" + pre + r"(?:\.\.|/)[^\s,()\[\]='\"]*?(?<=/)" + nm + r"\s*")
        pos = m.end()
    out.append(re.escape(cell[pos:]))
    return re.compile("^" + "".join(out) + "$", re.S)


def sv_ns_declarations(xml_text: str) -> "list[tuple[str, str]]":
    """All (prefix, uri) namespace declarations of a document, in document order (expat start-ns events)."""
    return [ev[1] for ev in ET.iterparse(io.BytesIO(xml_text.encode("utf-8")), events=("start-ns",))]


def sv_qname_prefixed(tag: str, extra: "dict | None" = None) -> str:
    """'{uri}local' -> 'prefix:local' for the standard XForms prefixes (and `extra` {uri: prefix})."""
    if not tag.startswith("{"):
        return tag
    uri, local = tag[1:].split("}", 1)
    for p, u in NS.items():
        if u == uri and p not in ("x", "h"):
            return f"{'entities' if p == 'ent' else p}:{local}"
    if extra and uri in extra:
        return f"{extra[uri]}:{local}"
    if uri == NS["x"]:
        return local
    return tag


# --- helpers added for C06 (also used by C01 and C15): adversarial alphabet, a rich text-bearing form
# template, namespace-declaration aware parsing.  Nothing above this line was changed.

LANG1, LANG2 = "English (en)", "French (fr)"

# Tokens of the adversarial alphabet.  Deliberately absent (outside the properties' domain):
#  * characters that XML 1.0 cannot carry at all (C0 controls other than \t \n \r, U+FFFE/U+FFFF, lone
#    surrogates) -- C01 probes those separately;
#  * "smart" quotes, which XLSForm conversion documents as being replaced by straight quotes;
#  * well-formed ${name} references and instance(...) expressions (those are syntax, not text).
ADV_TOKENS = [
    "<", ">", "&", '"', "'", "]]>", "<![CDATA[", "<![CDATA[x]]>", "&amp;", "&lt;", "&gt;", "&quot;", "&apos;",
    "&#60;", "&#x3C;", "&#38;", "&nbsp;", "&unknown;", "&;", "&#;", "<!--", "-->", "<!-- c -->", "--", "<b>",
    "</b>", "<b>bold</b>", "<b/>", "<br>", '<output value="/data/a"/>', "<output/>", "</label>", "</value><value>",
    "</text>", "<?pi x?>", '<?xml version="1.0"?>', "<!DOCTYPE x>", '<a href="x">y</a>', "<x:y>", "xmlns:z=\"u\"",
    "{", "}", "$", "$ {a}", "{a}", "$a", "\\", "\\n", "|", "#", "%", "`", "=", ";", "/", "/>", "?>", "<?",
    "\U0001F600", "\U00010348", "\U000E0041", "‮", "‏", "مرحبا",
    "שלום", "é", " ", "‍", " ", "\u0085", "�", "퟿", "",
    "￯", "\t", "\n", "\r\n", "  ",
]
ADV_WORDS = ["a", "Z", "x y", "7", "naïve", "T"]

# A small core every channel is exercised with even in the quick tier.
ADV_CORE = [
    "1 < 2", "a > b", "R & D", 'say "hi" \'there\'', "a ]]> b", "<b>bold</b> tail", "<!-- c -->after", "&amp; &lt; &#60;",
    "\U0001F600 ‮שלום", '<output value="/data/a"/> z', "x <![CDATA[ y ]]> z", "</label></input>",
]


def adv_strings(seed: int, n: int) -> list[str]:
    """Deterministic list: ADV_CORE, every token alone, every token embedded in letters, then random
    concatenations of 2-5 tokens/words, n strings in total (at least the systematic part)."""
    r = random.Random(seed * 7919 + 13)
    out = list(ADV_CORE)
    for t in ADV_TOKENS:
        if t.strip():
            out.append(t)
    for t in ADV_TOKENS:
        out.append(f"a{t}b")
    while len(out) < n:
        k = r.randint(2, 5)
        parts = [r.choice(ADV_TOKENS) if r.random() < 0.75 else r.choice(ADV_WORDS) for _ in range(k)]
        out.append(r.choice(["", " "]).join(parts))
    seen, res = set(), []
    for s in out:
        if s not in seen and s.strip():
            seen.add(s)
            res.append(s)
    return res


def text_form(fill=None, multi=False, tail_ref=False, settings=None, clean=None) -> WB:
    """A form with every text-bearing cell kind of the XLSForm conventions, in every structural context at
    once (top level, group, repeat, repeat > group > repeat), selects with two lists, settings.

    fill(cell_id, lang, refs) -> str | None gives the text of a cell (None: a benign default).  cell_id is
    "<sheet>.<row name>.<column>", lang is None (untranslated column) or the language of the column, refs
    the question names a ${...} reference in that cell may use.  multi: translatable columns are written
    once per language (LANG1, LANG2).  tail_ref: the last question's label mixes text and a reference."""
    fill = fill or (lambda cid, lang, refs: None)
    langs = [LANG1, LANG2] if multi else [None]

    def T(row, sheet, name, col, refs):
        for L in langs:
            v = fill(f"{sheet}.{name}.{col}", L, refs)
            if v is None:
                v = f"{col} of {name}" + (f" in {L[:2]}" if L else "")
            row[col if L is None else f"{col}::{L}"] = v

    def P(row, sheet, name, col, default):
        v = fill(f"{sheet}.{name}.{col}", None, ())
        row[col] = default if v is None else v

    rows = []

    def q(type_, name, refs, cols=("label",), plain=()):
        row = {"type": type_, "name": name}
        for c in cols:
            T(row, "survey", name, c, refs)
        if "constraint_message" in cols:
            row["constraint"] = ". != 'zzz'"
        if "required_message" in cols:
            row["required"] = "yes"
        for c, d in plain:
            P(row, "survey", name, c, d)
        rows.append(row)

    q("text", "a", ())
    q("integer", "b", ("a",))
    q("text", "q", ("a", "b"), ("label", "hint", "guidance_hint", "constraint_message", "required_message"),
      (("default", "dflt"), ("appearance", "w2"), ("bind::foo", "v1"), ("body::bar", "v2"), ("instance::baz", "v3")))
    q("select_one l1", "s", ("a",), ("label", "hint"), (("appearance", "minimal"),))
    q("select_multiple l.2", "m", ("a",), ("label",))
    q("note", "n", ("a", "q"), ("label",))
    rows[-1]["image"] = "pic.png"  # media sends this question's label through itext even without languages
    q("begin group", "g", ("a",), ("label",), (("appearance", "field-list"),))
    q("text", "gq", ("a", "q"), ("label", "hint", "constraint_message"), (("default", "gd"),))
    q("decimal", "gq2", ("gq",), ("label", "required_message"), (("bind::foo", "v4"),))
    rows.append({"type": "end group"})
    q("begin repeat", "r", ("a",), ("label",))
    q("text", "rb", ("a",), ("label",))
    q("text", "rq", ("rb", "a"), ("label", "hint", "guidance_hint", "constraint_message"),
      (("default", "rd"), ("instance::baz", "v5")))
    q("begin group", "rg", ("rb",), ("label",))
    q("begin repeat", "rr", ("rb",), ("label",))
    q("select_one l1", "deep", ("rb", "a"), ("label", "hint"))
    q("text", "deep2", ("deep",), ("label",), (("default", "dd"), ("body::bar", "v6")))
    rows.append({"type": "end repeat"})
    rows.append({"type": "end group"})
    rows.append({"type": "end repeat"})
    if tail_ref:
        row = {"type": "note", "name": "tail"}
        for L in langs:
            row["label" if L is None else f"label::{L}"] = "End ${a} and ${b}"
            row["hint" if L is None else f"hint::{L}"] = "Bye ${q}"
        rows.append(row)

    crows = []
    for ln, names in (("l1", ("c1", "c2", "c3")), ("l.2", ("k1", "k2"))):
        for nm in names:
            row = {"list_name": ln, "name": nm}
            T(row, "choices", f"{ln}/{nm}", "label", ("a",))
            P(row, "choices", f"{ln}/{nm}", "extra", f"e-{nm}")
            if ln == "l1":
                P(row, "choices", f"{ln}/{nm}", "x.col", f"x-{nm}")
            elif nm == "k1":
                row["audio"] = "k1.mp3"  # choice media: list l.2 gets itext labels even without languages
            crows.append(row)

    srow = {"form_id": "tf"}
    P(srow, "settings", "settings", "form_title", "Title")
    P(srow, "settings", "settings", "version", "v1.0")
    P(srow, "settings", "settings", "attribute::xyz", "v7")
    if clean is not None:
        srow["clean_text_values"] = clean
    srow.update(settings or {})

    def sheet(rs):
        hs = []
        for row in rs:
            for k in row:
                if k not in hs:
                    hs.append(k)
        return hs, [[row.get(h) for h in hs] for row in rs]

    wb = WB()
    wb["survey"] = sheet(rows)
    wb["choices"] = sheet(crows)
    wb["settings"] = sheet([srow])
    return wb


def parse_with_ns(text: str):
    """(root element, [(prefix, uri), ...] namespace declarations in document order) via ElementTree/expat."""
    decls, root = [], None
    for ev, x in ET.iterparse(io.BytesIO(text.encode("utf-8")), events=("start", "start-ns")):
        if ev == "start-ns":
            decls.append(tuple(x))
        elif root is None:
            root = x
    return root, decls
# --- end of helpers added for C06


_BEGIN = re.compile(r"^begin[\s_](group|repeat|lgroup|looped group|loop)( .*)?$")
_END = re.compile(r"^end[\s_](group|repeat|lgroup|looped group|loop)$")


def survey_elements(wb: WB, root: str):
    """Walk the survey sheet following the XLSForm begin/end nesting convention.
    Returns a list of {row: index, cells: {header: text}, type, name, path, kind ('question'|'group'|'repeat'),
    in_repeat: bool}, or None when the sheet uses constructs this reader does not model (loops, unbalanced
    begin/end, missing type/name columns)."""
    headers, _ = wb_sheet(wb, "survey")
    if "type" not in headers or "name" not in headers:
        return None
    out, stack = [], []
    for i, cells in enumerate(sheet_dicts(wb, "survey")):
        t = " ".join((cells.get("type") or "").split())
        if not t:
            if cells:
                continue
            continue
        m = _BEGIN.match(t)
        if m:
            if m.group(1) == "loop" or m.group(2):
                return None
            kind = "group" if m.group(1) == "group" else "repeat"
            name = cells.get("name")
            if not name:
                return None
            path = "/" + "/".join([root, *[n for n, _ in stack], name])
            out.append({"row": i, "cells": cells, "type": t, "name": name, "path": path, "kind": kind,
                        "in_repeat": any(k == "repeat" for _, k in stack)})
            stack.append((name, kind))
            continue
        m = _END.match(t)
        if m:
            if not stack:
                return None
            stack.pop()
            continue
        name = cells.get("name")
        if not name:
            continue
        path = "/" + "/".join([root, *[n for n, _ in stack], name])
        out.append({"row": i, "cells": cells, "type": t, "name": name, "path": path, "kind": "question",
                    "in_repeat": any(k == "repeat" for _, k in stack)})
    if stack:
        return None
    return out


def body_controls(xf: XForm) -> dict:
    """{ref: first body element (document order) carrying that ref} — for a repeat this is its wrapper group."""
    out = {}
    if xf.body is None:
        return out
    for e in xf.body.iter():
        r = e.get("ref")
        if r is not None and XForm.local(e.tag) not in ("label", "hint", "value", "setvalue", "setgeopoint", "output"):
            out.setdefault(r, e)
    return out


# --- helpers added for C11 (round 3)
# Real spreadsheet containers with *layout noise*: columns whose header cell is empty (WB header None) that sit
# between / before / after the used columns, possibly carrying private notes in the data rows.  `empties` says how
# the empty cells of such header-less columns are stored in the file:
#   "absent"  no cell record at all (the usual case: the reader pads the hole);
#   "styled"  a formatted cell without a value (<c s=".."/> in .xlsx, a BLANK record in .xls);
#   "blank"   a text cell holding the empty string.
# With typed=True canonical integer texts ("7", "1234", "0") of the data rows are stored as numeric cells.
# Nothing above this line was changed.


def _c11_typed(c, typed):
    if typed and isinstance(c, str) and re.fullmatch(r"-?\d{1,14}", c) and str(int(c)) == c:
        return int(c)
    return c


def c11_wb_cells(wb: WB, typed=False, empties="absent"):
    """[(sheet name, {(row, col): value})] of a WB; value None = formatted-but-empty cell; holes are left out."""
    out = []
    for name, (headers, rows) in wb.items():
        cells = {}
        for r, row in enumerate([list(headers), *rows]):
            for c, v in enumerate(row):
                if v is None or v == "":
                    if c < len(headers) and headers[c] is None and empties != "absent":
                        cells[(r, c)] = None if empties == "styled" else ""
                    continue
                cells[(r, c)] = _c11_typed(v, typed and r > 0)
        out.append((name, cells))
    return out


def c11_wb_to_xlsx(wb: WB, typed=False, empties="absent") -> bytes:
    """.xlsx / .xlsm bytes of a WB (openpyxl writer), header-less columns stored as described above."""
    from openpyxl import Workbook
    from openpyxl.styles import Font

    book = Workbook()
    book.remove(book.active)
    for name, cells in c11_wb_cells(wb, typed, empties):
        ws = book.create_sheet(title=name)
        for (r, c), v in sorted(cells.items()):
            cell = ws.cell(row=r + 1, column=c + 1)
            if v is None:
                cell.font = Font(italic=True)
            else:
                cell.value = v
                if v == "":
                    cell.data_type = "s"
    buf = io.BytesIO()
    book.save(buf)
    return buf.getvalue()


def _c11_rec(rid: int, data: bytes = b"") -> bytes:
    import struct

    return struct.pack("<HH", rid, len(data)) + data


def _c11_ustr(text: str, lenfmt: str) -> bytes:
    import struct

    try:
        raw, flag = text.encode("latin-1"), 0
    except UnicodeEncodeError:
        raw, flag = text.encode("utf-16-le"), 1
    return struct.pack(lenfmt, len(text.encode("utf-16-le")) // 2) + bytes([flag]) + raw


def _c11_ole2(stream_name: str, stream: bytes) -> bytes:
    """A compound file (OLE2, version 3, 512-byte sectors) holding one stream in regular sectors."""
    import struct

    sect, free, end, fatsect = 512, 0xFFFFFFFF, 0xFFFFFFFE, 0xFFFFFFFD
    size = (max(len(stream), 4096) + sect - 1) // sect * sect   # < 4096 bytes would have to go to the mini stream
    stream = stream.ljust(size, b"\0")
    n = size // sect
    f = 1
    while n + 1 + f > f * 128:
        f += 1
    if f > 109:
        raise ValueError("workbook too large for this writer")
    fat = [i + 1 for i in range(n)]
    fat[n - 1] = end
    fat.append(end)                                             # the directory sector (number n)
    fat += [fatsect] * f
    fat += [free] * (f * 128 - len(fat))

    def dirent(name, typ, child, start, sz):
        raw = (name.encode("utf-16-le") + b"\0\0") if name else b""
        return (raw.ljust(64, b"\0") + struct.pack("<HBBIII", len(raw), typ, 1, free, free, child) + b"\0" * 16
                + struct.pack("<I", 0) + b"\0" * 16 + struct.pack("<IQ", start, sz))

    directory = (dirent("Root Entry", 5, 1, end, 0) + dirent(stream_name, 2, free, 0, size)
                 + dirent("", 0, free, 0, 0) * 2)
    header = (bytes.fromhex("D0CF11E0A1B11AE1") + b"\0" * 16 + struct.pack("<HHHHH", 0x3E, 3, 0xFFFE, 9, 6) + b"\0" * 6
              + struct.pack("<IIIIIIIII", 0, f, n, 0, 4096, end, 0, end, 0)
              + b"".join(struct.pack("<I", n + 1 + i if i < f else free) for i in range(109)))
    return header + stream + directory + b"".join(struct.pack("<I", x) for x in fat)


def c11_wb_to_xls(wb: WB, typed=False, empties="absent") -> bytes:
    """.xls bytes of a WB: a BIFF8 'Workbook' stream (BOF, CODEPAGE, DATEMODE, BOUNDSHEET.., then per sheet BOF,
    DIMENSIONS, LABEL / NUMBER / BOOLERR / BLANK cell records, EOF) in an OLE2 compound file.  No pyxform, no xlwt."""
    import struct

    sheets = c11_wb_cells(wb, typed, empties)
    subs = []
    for _name, cells in sheets:
        body = _c11_rec(0x0809, struct.pack("<HHHHII", 0x0600, 0x0010, 0x0DBB, 0x07CC, 0, 6))
        nr = max((r for r, _ in cells), default=-1) + 1
        nc = max((c for _, c in cells), default=-1) + 1
        if nr > 65536 or nc > 256:
            raise ValueError("sheet too large for .xls")
        body += _c11_rec(0x0200, struct.pack("<IIHHH", 0, nr, 0, nc, 0))
        for (r, c) in sorted(cells):
            v = cells[(r, c)]
            if v is None:
                body += _c11_rec(0x0201, struct.pack("<HHH", r, c, 0))
            elif isinstance(v, bool):
                body += _c11_rec(0x0205, struct.pack("<HHHBB", r, c, 0, int(v), 0))
            elif isinstance(v, (int, float)):
                body += _c11_rec(0x0203, struct.pack("<HHHd", r, c, 0, float(v)))
            else:
                s = _c11_ustr(str(v), "<H")
                if len(s) > 8000:
                    raise ValueError("cell text too long for a single LABEL record")
                body += _c11_rec(0x0204, struct.pack("<HHH", r, c, 0) + s)
        subs.append(body + _c11_rec(0x000A))

    def book_globals(offsets):
        g = _c11_rec(0x0809, struct.pack("<HHHHII", 0x0600, 0x0005, 0x0DBB, 0x07CC, 0, 6))
        g += _c11_rec(0x0042, struct.pack("<H", 0x04B0)) + _c11_rec(0x0022, struct.pack("<H", 0))
        for (name, _), off in zip(sheets, offsets):
            g += _c11_rec(0x0085, struct.pack("<IBB", off, 0, 0) + _c11_ustr(str(name), "<B"))
        return g + _c11_rec(0x000A)

    offsets, pos = [], len(book_globals([0] * len(sheets)))
    for b in subs:
        offsets.append(pos)
        pos += len(b)
    return _c11_ole2("Workbook", book_globals(offsets) + b"".join(subs))
