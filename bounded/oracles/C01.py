"""C01 (bounded e2e): every successful conversion returns a well-formed, namespace-valid XForm with the ODK skeleton.

Stated on the returned text only (plus the source workbook for the form id), for pretty_print False and True and,
for a deterministic sample of the forms, for the same workbook delivered as Markdown / CSV / XLSX / a file path:

  * the text parses with expat through ElementTree (namespace aware: an element or attribute prefix without a
    namespace declaration makes the parse fail);
  * the root is {xhtml}html with exactly one {xhtml}head followed by exactly one {xhtml}body; the head holds exactly
    one {xhtml}title and exactly one {xforms}model;
  * the model has an {xforms}instance; the first one is the primary instance: no id / src attribute, exactly one
    element child, and that child carries an `id` attribute equal to the form id of the workbook (settings form_id /
    id_string; when the workbook names none: the file stem for path input, otherwise any non-empty id).

Nothing else is demanded.  When a document does not parse (or lacks the skeleton), the oracle names the failure class
from the SOURCE: it lists the places where the XLSForm conventions let the author supply an XML name (choices-sheet extra columns,
bind:: / body:: / instance:: columns, settings attribute:: columns, the namespaces setting, question / group names,
the form name) or text that XML 1.0 cannot carry, and re-converts the workbook with all of them made benign and with
all but one class made benign.  A failure that survives with every such place benign is reported as `other` (parse
failure) or under its `skeleton:*` key.
Names that XML 1.0 (5th edition) allows but expat (4th edition name tables) refuses are never reported.
"""
from __future__ import annotations

import functools
import os
import random
import re
import tempfile
import xml.etree.ElementTree as ET

from bounded import corpus
from bounded.corpus import WB, XF, XH, Case

USES_DEFAULT_CORPUS = False  # the default corpus is appended at the END of cases(): the families that hit the known
#                              defects of the unchanged tree run first, so that any other key is printed last
N_GENERATED = {"quick": 150, "thorough": 1500}
TIME_BUDGET_S = {"quick": 120, "thorough": 1500}

P = "C01"

# ------------------------------------------------------------------------------------------------ XML 1.0 productions

_START = ("A-Z_a-z\u00C0-\u00D6\u00D8-\u00F6\u00F8-\u02FF\u0370-\u037D\u037F-\u1FFF\u200C-\u200D\u2070-\u218F"
          "\u2C00-\u2FEF\u3001-\uD7FF\uF900-\uFDCF\uFDF0-\uFFFD\U00010000-\U000EFFFF")
_CHAR = _START + "\\-.0-9\u00B7\u0300-\u036F\u203F-\u2040"
RE_NCNAME5 = re.compile(f"[{_START}][{_CHAR}]*")
RE_NON_XML_CHAR = re.compile("[^\x09\x0A\x0D\x20-\uD7FF\uE000-\uFFFD\U00010000-\U0010FFFF]")
STD_PREFIXES = {"h", "ev", "xsd", "jr", "orx", "odk", "xml", "xmlns"}   # ODK XForms specification


def is_ncname(s) -> bool:
    return isinstance(s, str) and RE_NCNAME5.fullmatch(s) is not None


def split_qname(s):
    """(prefix | None, local) when s is a QName of XML Namespaces 1.0 (5th edition characters), else None."""
    if not isinstance(s, str):
        return None
    if ":" not in s:
        return (None, s) if is_ncname(s) else None
    p, _, l = s.partition(":")
    return (p, l) if is_ncname(p) and is_ncname(l) else None


@functools.lru_cache(maxsize=4096)
def expat_accepts(name: str) -> bool:
    """Does the XML parser of this sandbox accept `name` (NCName) as an element name?"""
    try:
        ET.fromstring(f"<{name}/>".encode("utf-8"))
        return True
    except (ET.ParseError, UnicodeEncodeError):
        return False


def edition_gap(name) -> bool:
    """A name XML 1.0 fifth edition allows but the parser refuses: its documents must not be judged."""
    q = split_qname(name)
    if q is None:
        return False
    return any(part is not None and not expat_accepts(part) for part in q)


# ------------------------------------------------------------------------------------------------ document checks


def parse_error(text: str):
    try:
        ET.fromstring(text.encode("utf-8"))
        return None
    except ET.ParseError as e:
        return str(e)
    except UnicodeEncodeError as e:
        return f"text is not encodable as UTF-8: {e.reason}"


def norm(s):
    return " ".join(str(s).split())


def skeleton_problems(text: str, want_id):
    """[(key, what)] for a document that parses.  want_id: str (must match), or None (any non-empty id)."""
    out = []
    root = ET.fromstring(text.encode("utf-8"))
    if root.tag != f"{XH}html":
        return [("skeleton:root-not-html", f"root element is {root.tag!r}")]
    kids = [c.tag for c in root]
    heads, bodies = root.findall(f"{XH}head"), root.findall(f"{XH}body")
    if len(heads) != 1:
        return [("skeleton:head-count", f"{len(heads)} h:head children of h:html (children: {kids})")]
    if len(bodies) != 1:
        out.append(("skeleton:body-count", f"{len(bodies)} h:body children of h:html (children: {kids})"))
    elif kids.index(f"{XH}head") > kids.index(f"{XH}body"):
        out.append(("skeleton:body-before-head", f"children of h:html: {kids}"))
    head = heads[0]
    titles, models = head.findall(f"{XH}title"), head.findall(f"{XF}model")
    if len(titles) != 1:
        out.append(("skeleton:title-count", f"{len(titles)} h:title children of h:head ({[c.tag for c in head]})"))
    if len(models) != 1:
        out.append(("skeleton:model-count", f"{len(models)} model children of h:head ({[c.tag for c in head]})"))
        return out
    instances = models[0].findall(f"{XF}instance")
    if not instances:
        out.append(("skeleton:no-instance", "the model has no instance child"))
        return out
    prim = instances[0]
    for a in ("id", "src"):
        if prim.get(a) is not None:
            out.append((f"skeleton:primary-instance-has-{a}",
                        f"the first instance of the model carries {a}={prim.get(a)!r}: it is not a primary instance"))
    roots = list(prim)
    if len(roots) != 1:
        out.append(("skeleton:primary-root-count", f"the primary instance has {len(roots)} element children "
                                                    f"{[c.tag for c in roots]}"))
        return out
    got = roots[0].get("id")
    if got is None or not got.strip():
        out.append(("skeleton:form-id-missing", f"primary instance root <{roots[0].tag}> has id={got!r}"))
    elif want_id is not None and norm(got) != norm(want_id):
        out.append(("skeleton:form-id-mismatch", f"primary instance root <{roots[0].tag}> has id={got!r} but the "
                                                  f"workbook's form id is {want_id!r}"))
    return out


def expected_form_id(wb):
    """The form id the workbook names (settings form_id / id_string of the first settings row), else None."""
    if wb is None:
        return None
    headers, _ = corpus.wb_sheet(wb, "settings")
    hs = [str(h).strip().lower() for h in headers if h is not None]
    if any(h in ("form_id", "id_string", "set_form_id") for h in hs) and \
            not any(h in ("form_id", "id_string") for h in headers if h is not None):
        return None  # spelled in a way this reader does not model
    rows = corpus.sheet_dicts(wb, "settings")
    if not rows:
        return None
    vals = [rows[0].get(k) for k in ("form_id", "id_string") if rows[0].get(k) not in (None, "")]
    if not vals or len({norm(v) for v in vals}) != 1 or not norm(vals[0]):
        return None
    v = vals[0]
    if any(q in v for q in "‘’“”"):
        return None  # typographic quotes are documented as replaced
    return v


# ------------------------------------------------------------------------------------------------ suspects (source side)

SURVEY_NAME_COLUMNS = {"bind": "bind-column", "body": "body-column", "control": "body-column",
                       "instance": "instance-column"}
CHOICES_KNOWN = {"list_name", "list name", "name", "value", "label", "image", "audio", "video", "big-image", "media",
                 "sms_option", "hint", "guidance_hint"}


class Suspect:
    __slots__ = ("cls", "detail", "fix")

    def __init__(self, cls, detail, fix):
        self.cls, self.detail, self.fix = cls, detail, fix


def declared_prefixes(wb) -> set:
    out = set()
    for row in corpus.sheet_dicts(wb, "settings")[:1]:
        for tok in str(row.get("namespaces") or "").split():
            p, eq, uri = tok.partition("=")
            if eq and is_ncname(p) and uri.strip("\"'"):
                out.add(p)
    return out


def _name_class(name, declared):
    """None (fine) | 'gap' | 'invalid' | 'unbound' | 'declared' for an XML name taken from a cell.  'declared': a
    prefixed name whose prefix the namespaces setting declares -- fine by the conventions, still listed so that a
    declaration the converter does not honour is named as such."""
    q = split_qname(name)
    if q is None:
        return "invalid"
    if edition_gap(name):
        return "gap"
    if q[0] is not None and q[0] not in STD_PREFIXES:
        return "declared" if q[0] in declared else "unbound"
    return None


def _key_for(kind, where):
    if kind == "gap":
        return "edition-gap"
    if kind == "unbound":
        return f"unbound-prefix:{where}"
    if kind == "declared":
        return "unbound-prefix:declared-namespace-dropped"
    return f"not-wellformed:name-from-cell:{where}"


def suspects(wb: WB, kwargs: dict) -> list:
    out = []
    declared = declared_prefixes(wb)
    counter = [0]

    def fresh():
        counter[0] += 1
        return f"ok{counter[0]}"

    def rename_header(sk, idx, new):
        def fix(w, kw):
            w[sk][0][idx] = new
        return fix

    for sheet_key in wb:
        low = str(sheet_key).lower()
        headers, rows = wb[sheet_key]
        if low == "survey":
            for i, h in enumerate(headers):
                if not isinstance(h, str) or "::" not in h:
                    continue
                grp, _, attr = h.partition("::")
                where = SURVEY_NAME_COLUMNS.get(grp.strip().lower())
                if where is None:
                    continue
                kind = _name_class(attr.strip(), declared)
                if kind:
                    out.append(Suspect(_key_for(kind, where), f"survey column {h!r}",
                                       rename_header(sheet_key, i, f"{grp}::{fresh()}")))
            if "name" in headers:
                ni = headers.index("name")
                for ri, row in enumerate(rows):
                    nm = row[ni] if ni < len(row) else None
                    if not isinstance(nm, str) or not nm.strip():
                        continue
                    kind = _name_class(nm.strip(), declared)
                    if kind:
                        new = fresh()

                        def fix(w, kw, ri=ri, ni=ni, old=nm.strip(), new=new, sk0=sheet_key):
                            w[sk0][1][ri][ni] = new
                            for sk in w:
                                for r in w[sk][1]:
                                    for ci, c in enumerate(r):
                                        if isinstance(c, str) and "${" + old + "}" in c:
                                            r[ci] = c.replace("${" + old + "}", "${" + new + "}")
                        out.append(Suspect(_key_for(kind, "question-name"), f"survey name {nm!r} (row {ri + 2})", fix))
        elif low == "choices":
            for i, h in enumerate(headers):
                if not isinstance(h, str) or "::" in h or h.strip().lower() in CHOICES_KNOWN:
                    continue
                kind = _name_class(h.strip(), declared)
                if kind:
                    out.append(Suspect(_key_for(kind, "choices-column"), f"choices column {h!r}",
                                       rename_header(sheet_key, i, fresh())))
        elif low == "settings":
            for i, h in enumerate(headers):
                if not isinstance(h, str):
                    continue
                if h.strip().lower().startswith("attribute::"):
                    kind = _name_class(h.strip()[len("attribute::"):].strip(), declared)
                    if kind:
                        out.append(Suspect(_key_for(kind, "settings-attribute"), f"settings column {h!r}",
                                           rename_header(sheet_key, i, f"attribute::{fresh()}")))
                elif h.strip().lower() == "namespaces" and rows and i < len(rows[0]) and isinstance(rows[0][i], str):
                    toks = rows[0][i].split()
                    bad = [t for t in toks if "=" in t and not t.startswith("=")
                           and (not is_ncname(t.partition("=")[0]) or edition_gap(t.partition("=")[0])
                                or t.partition("=")[0] in ("xml", "xmlns")
                                or not t.partition("=")[2].strip("\"'"))]
                    if bad:
                        good = " ".join(t for t in toks if t not in bad) or None

                        def fix(w, kw, i=i, good=good, sk0=sheet_key):
                            w[sk0][1][0][i] = good
                        gap = all(edition_gap(t.partition("=")[0]) and t.partition("=")[2].strip("\"'") for t in bad)
                        out.append(Suspect("edition-gap" if gap else "not-wellformed:namespaces-prefix",
                                           f"namespaces setting token(s) {bad}", fix))
                elif h.strip().lower() == "name" and rows and i < len(rows[0]) and isinstance(rows[0][i], str):
                    kind = _name_class(rows[0][i].strip(), declared)
                    if kind:
                        def fix(w, kw, i=i, new=fresh(), sk0=sheet_key):
                            w[sk0][1][0][i] = new
                        out.append(Suspect(_key_for(kind, "form-name"), f"settings name {rows[0][i]!r}", fix))
    fn = kwargs.get("form_name")
    if isinstance(fn, str):
        kind = _name_class(fn, declared)
        if kind:
            def fix(w, kw, new=fresh()):
                kw["form_name"] = new
            out.append(Suspect(_key_for(kind, "form-name"), f"form_name argument {fn!r}", fix))

    # text XML 1.0 cannot carry, in any cell (headers are names: handled above)
    hits = []
    for sheet_key in wb:
        for ri, row in enumerate(wb[sheet_key][1]):
            for ci, c in enumerate(row):
                if isinstance(c, str) and RE_NON_XML_CHAR.search(c):
                    hits.append((sheet_key, ri, ci))
    if hits:
        def fix(w, kw, hits=tuple(hits)):
            for sk, ri, ci in hits:
                c = w[sk][1][ri][ci]
                if isinstance(c, str):
                    w[sk][1][ri][ci] = RE_NON_XML_CHAR.sub("", c) or "x"
        sk, ri, ci = hits[0]
        out.append(Suspect("not-wellformed:control-char-in-text",
                           f"{len(hits)} cell(s) with characters outside the XML Char production, first: sheet "
                           f"{sk} row {ri + 2} column {wb[sk][0][ci] if ci < len(wb[sk][0]) else ci!r} = "
                           f"{wb[sk][1][ri][ci]!r}", fix))
    return out


# ------------------------------------------------------------------------------------------------ containers


def _deliver(wb: WB, kwargs: dict, container: str, pretty: bool, tmpdir=None, stem="form"):
    """Convert wb through a container; returns a corpus.Result or None when the container cannot carry the workbook."""
    case = Case("variant", wb=wb, kwargs=dict(kwargs))
    if container == "dict":
        return corpus.convert_case(case, pretty_print=pretty)
    if any(not isinstance(c, str) and c is not None for _, (hs, rows) in wb.items() for r in rows for c in r):
        return None
    if container == "md":
        if not corpus.md_safe(wb) or any(c is not None and (c != c.strip() or "|" in c or not c.strip())
                                         for _, (hs, rows) in wb.items() for r in [hs, *rows] for c in r):
            return None
        return corpus.convert_case(case, _source=corpus.wb_to_md(wb), file_type=".md", pretty_print=pretty)
    if container == "csv":
        return corpus.convert_case(case, _source=corpus.wb_to_csv(wb), file_type=".csv", pretty_print=pretty)
    if container in ("xlsx", "path"):
        try:
            data = corpus.wb_to_xlsx(wb)
        except Exception:  # noqa: BLE001  (openpyxl refuses characters a spreadsheet cannot hold)
            return None
        if container == "xlsx":
            return corpus.convert_case(case, _source=data, file_type=".xlsx", pretty_print=pretty)
        p = os.path.join(tmpdir, stem + ".xlsx")
        with open(p, "wb") as f:
            f.write(data)
        return corpus.convert_case(case, _source=p, file_type=None, pretty_print=pretty)
    raise ValueError(container)


def problems_of(text, want_id):
    """[(key, what)]: the parse error, else the skeleton problems."""
    err = parse_error(text)
    if err is not None:
        return [("not-wellformed:other", f"XForm does not parse: {err}")]
    return skeleton_problems(text, want_id)


def _bad(wb, kwargs, container, tmpdir=None, default_id=None):
    """'bad' when the workbook is accepted and some mode's text does not parse or lacks the skeleton; 'rejected'
    when the converter refuses it (or the container cannot carry it); else 'fine'."""
    want = expected_form_id(wb) or default_id
    for pretty in (False, True):
        r = _deliver(wb, kwargs, container, pretty, tmpdir)
        if r is None or not r.ok or r.xform is None:
            return "rejected"
        if problems_of(r.xform, want):
            return "bad"
    return "fine"


def attribute(wb, kwargs, container, probs, tmpdir=None, default_id=None):
    """Name the class(es) of a broken document from the source: [(key, what)].  probs: what problems_of() found."""
    first = probs[0][1]
    if wb is None:
        return probs
    sus = suspects(wb, kwargs)
    if not sus:
        return probs  # no author-supplied XML name outside Name, no prefixed name, no non-XML character

    def variant(keep):
        w, kw = wb.copy(), dict(kwargs)
        for s in sus:
            if s.cls != keep:
                s.fix(w, kw)
        return w, kw

    w0, kw0 = variant(None)
    state = _bad(w0, kw0, container, tmpdir, default_id)
    if state == "bad":
        return [(k, w + " (also with every author-supplied XML name and non-XML character made benign)")
                for k, w in probs]
    if state == "rejected":
        return [("not-wellformed:unattributed", f"{first}; suspects {[s.detail for s in sus][:4]} (the benign "
                                                f"variant is rejected)")]
    classes = []
    for s in sus:
        if s.cls not in classes:
            classes.append(s.cls)
    out = []
    for cls in classes:
        mine = [s for s in sus if s.cls == cls]
        if len(classes) == 1 or _bad(*variant(cls), container, tmpdir, default_id) == "bad":
            if cls == "edition-gap":
                return []  # the parser, not the document, is at fault: do not judge this form
            out.append((cls, f"{first}; cause: {mine[0].detail}" + (f" (+{len(mine) - 1} more)" if len(mine) > 1 else "")))
    if not out:
        if "edition-gap" in classes:
            return []
        out.append(("not-wellformed:combination", f"{first}; only the combination of "
                                                  f"{[s.detail for s in sus][:4]} reproduces it"))
    return out


# ------------------------------------------------------------------------------------------------ check

_lookup_cache: dict = {}


def _recover(case, ctx):
    """Replay support: a replayed case carries no workbook; find the case of the same name."""
    if not _lookup_cache:
        seed = ctx.get("seed", 0)
        for tier in ("quick", "thorough"):
            for c in cases(tier, seed):
                _lookup_cache.setdefault(c.name, c)
    return _lookup_cache.get(case.name)


_counter = [0]
CONTAINER_EVERY = {"quick": 6, "thorough": 3}


def judge(text, wb, kwargs, container, want_id, mode, tmpdir=None, default_id=None):
    probs = problems_of(text, want_id)
    if not probs:
        return []
    tag = f"[{container}, pretty_print={mode}] "
    return [(k, tag + w) for k, w in attribute(wb, kwargs, container, probs, tmpdir, default_id)]


def check(case, res, ctx):
    if not res.ok or res.xform is None:
        return []  # "whenever conversion succeeds"
    if case.wb is None and case.md is None:
        found = _recover(case, ctx)
        if found is None:
            return []
        case = found
    wb = corpus.case_wb(case)
    kwargs = {k: v for k, v in case.kwargs.items() if k != "pretty_print"}
    want_id = expected_form_id(wb)
    found, seen = [], set()

    def add(items):
        for k, w in items:
            if k not in seen:
                seen.add(k)
                found.append({"key": f"{P}:{k}", "what": w})

    container = "dict" if case.wb is not None else "md"
    pretty = corpus.convert_case(case, pretty_print=True)
    probs = [(k, f"[{container}, pretty_print=False] {w}") for k, w in problems_of(res.xform, want_id)]
    if pretty.ok and pretty.xform is not None:
        probs += [(k, f"[{container}, pretty_print=True] {w}") for k, w in problems_of(pretty.xform, want_id)]
    if probs:
        # the classes are a property of the workbook (both modes are tried for every variant): name them once
        add(attribute(wb, kwargs, container, probs))

    # the same workbook through the other input containers (deterministic sample)
    _counter[0] += 1
    if case.wb is not None and _counter[0] % CONTAINER_EVERY.get(ctx.get("tier", "quick"), 6) == 0:
        mode = bool((_counter[0] // 6) % 2)
        for container in ("md", "csv", "xlsx"):
            r = _deliver(case.wb, kwargs, container, mode)
            if r is not None and r.ok and r.xform is not None:
                add(judge(r.xform, case.wb, kwargs, container, want_id, mode))
    return found


def check_global(tier, seed, ctx):
    """Path input: the default form id is the file stem; a named form id wins over it."""
    out, n = [], 0
    q = {"type": "text", "name": "q", "label": "Q"}
    stems = ["my_form", "Form 1 (copy)", "été-2024", "a.b.c", "x&y", "data"]
    settings = [None, {"form_id": "named_id"}, {"form_title": "T"}, {"id_string": "ids"}, {"name": "root"}]
    with tempfile.TemporaryDirectory(prefix="verif-c01-") as tmp:
        for stem in stems:
            for st in settings:
                wb = WB()
                wb["survey"] = corpus.sheet_from_dicts([q])
                if st:
                    wb["settings"] = corpus.sheet_from_dicts([st])
                want = expected_form_id(wb) or stem
                for mode in (False, True):
                    r = _deliver(wb, {}, "path", mode, tmp, stem)
                    n += 1
                    if r is None or not r.ok:
                        continue
                    for k, w in judge(r.xform, wb, {}, "path", want, mode, tmp, stem):
                        out.append({"key": f"{P}:{k}", "what": f"file {stem}.xlsx, settings {st}: {w}",
                                    "case": f"path[{stem}|{st}]", "form_md": corpus.wb_to_md(wb), "form_dict": None,
                                    "convert_kwargs": {"pretty_print": mode}})
    return out, n


# ------------------------------------------------------------------------------------------------ cases

# characters at the edges of the XML Name productions (inside / just outside each range), ASCII neighbours included
EDGE_CHARS = [
    "@", "A", "Z", "[", "]", "^", "_", "`", "a", "z", "{", "/", "0", "9", ":", ";", "-", ".", ",", " ", "#", "&", "<", ">",
    "\"", "'", "=", "$", "\u00B6", "\u00B7", "\u00B8", "\u00BF", "\u00C0", "\u00D6", "\u00D7", "\u00D8", "\u00F6",
    "\u00F7", "\u00F8", "\u02FF", "\u0300", "\u036F", "\u0370", "\u037D", "\u037E", "\u037F", "\u1FFF", "\u2000",
    "\u200B", "\u200C", "\u200D", "\u200E", "\u203E", "\u203F", "\u2040", "\u2041", "\u206F", "\u2070", "\u218F",
    "\u2190", "\u2BFF", "\u2C00", "\u2FEF", "\u2FF0", "\u3000", "\u3001", "\u4E2D", "\uD7FF", "\uE000", "\uF8FF",
    "\uF900", "\uFDCF", "\uFDD0", "\uFDEF", "\uFDF0", "\uFFFD", "\U00010000", "\U0001F600", "\U000EFFFF",
    "\U000F0000", "\u00E9", "\u0416", "\u05D0", "\u0645", "\u0E01",
]
SPECIAL_NAMES = [
    "\u00C0-\u00D6]", "a\u00C0-\u00D6]b", "\u00C0-\u00D6]\u00C0-\u00D6]", "\u00C0b", "a:b", ":a", "a:", "a:b:c", "a::b",
    "_", "-a", ".a", "a.b", "a-b", "a..b", "1a", "a1", "2nd", "xml", "XMLfoo", "xmlns", "a b", "a\tb", "a/b", "a=b", "a'b",
    "a\"b", "<x", "a>", "a&b", "a&amp;b", "a;b", "x y=\"1\"", "x/><y", "\u00E9t\u00E9", "na\u00EFve", "\u540D\u524D",
    "ns:attr", "jr:custom", "odk:custom", "orx:custom", "entities:custom", "xml:lang", "NS:attr", "ns:1a", "1ns:a",
    "a\u0301", "\u0301a", "a\u00B7b", "\u00B7a",
]


def _usable_name(nm: str) -> bool:
    """Keep names that are outside the Name production, or that the parser accepts (no edition gaps)."""
    return not edition_gap(nm)


def edge_names(tier):
    out = []
    for c in EDGE_CHARS:
        shapes = (c, "a" + c, c + "a", "a" + c + "b") if tier == "thorough" else ("a" + c + "b",)
        for s in shapes:
            if s.strip() == s and s not in out and _usable_name(s):
                out.append(s)
    for s in SPECIAL_NAMES:
        if s not in out and _usable_name(s):
            out.append(s)
    return out


PLACES = ["question", "group", "repeat", "nested-question", "choices-column", "bind", "body", "instance",
          "settings-attribute", "namespaces-prefix", "settings-name", "form_name", "list-name", "choice-name",
          "language", "file-param"]


def name_form(place, nm, ns=None, tag=""):
    """A small form with the name `nm` at `place`.  ns: value of the namespaces setting (or None)."""
    survey = [{"type": "text", "name": "q0", "label": "Zero"}]
    choices = [{"list_name": "l", "name": "c1", "label": "One"}, {"list_name": "l", "name": "c2", "label": "Two"}]
    settings = {"form_id": "names"}
    kwargs = {}
    if ns:
        settings["namespaces"] = ns
    if place == "question":
        survey.append({"type": "text", "name": nm, "label": "Named"})
        survey.append({"type": "note", "name": "after", "label": "After"})
    elif place in ("group", "repeat"):
        survey += [{"type": f"begin {place}", "name": nm, "label": "G"}, {"type": "text", "name": "in", "label": "In"},
                   {"type": f"end {place}"}]
    elif place == "nested-question":
        survey += [{"type": "begin repeat", "name": "r", "label": "R"}, {"type": "begin group", "name": "g", "label": "G"},
                   {"type": "select_one l", "name": nm, "label": "Named"}, {"type": "end group"}, {"type": "end repeat"}]
    elif place == "choices-column":
        survey.append({"type": "select_one l", "name": "s", "label": "S"})
        for i, c in enumerate(choices):
            c[nm] = f"v{i}"
    elif place in ("bind", "body", "instance"):
        survey.append({"type": "text", "name": "q1", "label": "One", f"{place}::{nm}": "v"})
        survey += [{"type": "begin group", "name": "g", "label": "G", f"{place}::{nm}": "w"},
                   {"type": "integer", "name": "in", "label": "In"}, {"type": "end group"}]
    elif place == "settings-attribute":
        settings[f"attribute::{nm}"] = "v"
    elif place == "namespaces-prefix":
        settings["namespaces"] = (ns + " " if ns else "") + f'{nm}="http://example.org/{len(nm)}"'
        if split_qname(nm) is not None and ":" not in nm:
            survey.append({"type": "text", "name": "q1", "label": "One", f"bind::{nm}:attr": "v"})
    elif place == "settings-name":
        settings["name"] = nm
    elif place == "form_name":
        kwargs["form_name"] = nm
    elif place == "list-name":
        for c in choices:
            c["list_name"] = nm
        survey.append({"type": f"select_one {nm}", "name": "s", "label": "S"})
        survey.append({"type": f"select_multiple {nm}", "name": "m", "label::en": "M"})
    elif place == "choice-name":
        choices[0]["name"] = nm
        survey.append({"type": "select_one l", "name": "s", "label": "S"})
    elif place == "language":
        survey.append({"type": "text", "name": "q1", f"label::{nm}": "One", "label::English (en)": "One"})
    elif place == "file-param":
        survey.append({"type": "select_one_from_file f.csv", "name": "s", "label": "S",
                       "parameters": f"value={nm}, label={nm}"})
    else:
        raise ValueError(place)
    wb = WB()
    wb["survey"] = corpus.sheet_from_dicts(survey)
    if any(r["type"].startswith("select") and "from_file" not in r["type"] for r in survey):
        wb["choices"] = corpus.sheet_from_dicts(choices)
    wb["settings"] = corpus.sheet_from_dicts([settings])
    return Case(f"c01/name/{place}/{nm!r}{tag}", wb=wb, kwargs=kwargs, origin="C01-family")


def fam_names(tier):
    out = []
    names = edge_names(tier)
    value_only = ("list-name", "choice-name", "language", "file-param")   # the name ends up in attribute values / text
    for place in PLACES:
        for nm in names:
            if " " in nm and place in ("list-name",):
                continue
            if tier != "thorough" and place in value_only and nm not in SPECIAL_NAMES:
                continue
            out.append(name_form(place, nm))
    if tier != "thorough":
        # a leading edge character where names are validated by the converter (the start-character class)
        for place in ("question", "group", "settings-name", "choices-column", "bind"):
            for c in EDGE_CHARS:
                if (c + "a").strip() == c + "a" and _usable_name(c + "a") and c + "a" not in names:
                    out.append(name_form(place, c + "a"))
    # the same with a namespaces setting that declares the prefixes used
    ns = 'ns="http://example.org/ns" NS="http://example.org/NS" a="http://example.org/a"'
    for place in ("question", "group", "nested-question", "choices-column", "bind", "body", "instance",
                  "settings-attribute", "settings-name", "form_name"):
        for nm in ("ns:attr", "NS:attr", "a:b", "ns:1a", "a:b:c", "b:a", "ns:\u00E9", "ns:a.b-c", "jr:custom", "ns:ns"):
            out.append(name_form(place, nm, ns=ns, tag="+ns"))
    return out


NS_PREFIXES = ["ns", "entities", "myentities", "ent", "odk", "odk2", "jr", "orx", "h", "ev", "xsd", "x", "xforms"]
NS_URIS = ["http://example.org/x", "", "http://www.opendatakit.org/xforms/entities", "http://example.org/entities/registry",
           "http://openrosa.org/javarosa", "http://www.opendatakit.org/xforms", "http://www.w3.org/2002/xforms",
           "urn:x-entities:1", "http://example.org/a?b=c"]
QUOTES = ['{p}="{u}"', "{p}='{u}'", "{p}={u}"]


def ns_form(i, decls, use, entities, extra_settings=None):
    """decls: [(prefix, uri, quote style)], use: prefixes used in bind::/body::/instance::/attribute:: names."""
    survey = [{"type": "text", "name": "q0", "label": "Zero"}]
    row = {"type": "text", "name": "q1", "label": "One"}
    for p in use:
        row[f"bind::{p}:battr"] = "b"
        row[f"body::{p}:cattr"] = "c"
        row[f"instance::{p}:iattr"] = "i"
    survey.append(row)
    settings = {"form_id": f"nsform{i}", "namespaces": " ".join(QUOTES[q].format(p=p, u=u) for p, u, q in decls)}
    for p in use:
        settings[f"attribute::{p}:sattr"] = "s"
    settings.update(extra_settings or {})
    wb = WB()
    if entities == "save_to":
        survey[1]["save_to"] = "prop1"
    wb["survey"] = corpus.sheet_from_dicts(survey)
    wb["settings"] = corpus.sheet_from_dicts([settings])
    if entities:
        ent = {"dataset": "trees", "label": "concat('t ', ${q0})"}
        if entities == "update":
            ent.update({"entity_id": "${q0}", "update_if": "true()"})
        wb["entities"] = corpus.sheet_from_dicts([ent])
    return Case(f"c01/ns/{i}", wb=wb, origin="C01-family")


def fam_namespaces(tier, rnd):
    out, i = [], 0
    ent_modes = (None, "create", "save_to", "update")
    # one declaration: every prefix x every URI, entities sheet absent / present, prefix used / unused
    for p in NS_PREFIXES:
        for ui, u in enumerate(NS_URIS):
            for entities in ent_modes if tier == "thorough" else (None, ent_modes[1 + (ui + len(p)) % 3]):
                for used in (True, False) if tier == "thorough" else (bool((ui + len(p)) % 2),):
                    out.append(ns_form(i, [(p, u, (ui + i) % 3)], [p] if used else [], entities))
                    i += 1
    # several declarations, random subsets, mixed quote styles, odd spacing
    for _ in range(400 if tier == "thorough" else 60):
        k = rnd.randint(2, 4)
        ps = rnd.sample(NS_PREFIXES, k)
        decls = [(p, rnd.choice(NS_URIS), rnd.randrange(3)) for p in ps]
        use = [p for p in ps if rnd.random() < 0.6]
        extra = rnd.choice([None, {"instance_xmlns": "http://example.org/inst"}, {"version": "3"},
                            {"prefix": "J1!", "delimiter": "#"}, {"style": "pages"}])
        out.append(ns_form(i, decls, use, rnd.choice(ent_modes), extra))
        i += 1
    return out


# characters XML 1.0 cannot carry, and legal but odd ones
BAD_CHARS = ["\x00", "\x01", "\x08", "\x0b", "\x0c", "\x0e", "\x1b", "\x1f", "\ufffe", "\uffff"]
ODD_CHARS = ["\x7f", "\x80", "\x85", "\x9f", "\xa0", "\xad", "\u200b", "\u2028", "\u2029", "\ufeff", "\ufdd0", "\ufffd",
             "\U0001F600", "\U0010FFFF", "\U000E0001", "\u202e", "\t", "\n", "\r", "\r\n", "a\u0301", "]]>", "]]&gt;",
             "--", "<!--", "<![CDATA[", "&#1;", "&#x0;", "%", "\\"]


def fam_text(tier, seed):
    """Odd characters in every text-bearing cell kind (one cell at a time and all at once), single and two languages."""
    out = []
    inventory = []
    corpus.text_form(lambda cid, lang, refs: inventory.append((cid, refs)) or None, multi=False)
    cells = []
    for cid, refs in inventory:
        if cid not in [c for c, _ in cells]:
            cells.append((cid, refs))

    def kind_of(cid):
        return cid.split(".")[0] + "." + cid.rsplit(".", 1)[1]

    by_kind = {}
    for cid, refs in cells:
        by_kind.setdefault(kind_of(cid), []).append((cid, refs))
    chars = BAD_CHARS + ODD_CHARS
    n = 0
    for ki, (kind, members) in enumerate(by_kind.items()):
        for ci, ch in enumerate(chars):
            if tier != "thorough" and (ci + ki) % (5 if ch in ODD_CHARS else 2):
                continue  # quick: the characters rotate over the kinds of cell
            targets = members if tier == "thorough" else [members[(ci + ki) % len(members)]]
            for cid, refs in targets:
                for multi in (False, True) if tier == "thorough" else (bool((ci + ki) % 2),):
                    for shape in (("a" + ch + "b",), (ch + "a", "a" + ch)) if tier == "thorough" else (("a" + ch + "b",),):
                        for s in shape:
                            n += 1
                            with_ref = bool(refs) and n % 3 == 0 and not cid.endswith(".default")

                            def fill(c, lang, _refs, cid=cid, s=s, with_ref=with_ref, refs=refs):
                                if c != cid:
                                    return None
                                return s + (" ${%s}" % refs[0] if with_ref else "")
                            wb = corpus.text_form(fill, multi=multi, tail_ref=bool(n % 2))
                            out.append(Case(f"c01/char/{cid}/{'multi' if multi else 'mono'}/{ch!r}/{n}", wb=wb,
                                            origin="C01-family"))
    # extra places text_form does not reach: form_id, choice names, list of languages, media file names
    for ci, ch in enumerate(chars):
        s = "a" + ch + "b"
        for place, st, row in (("form_id", {"form_id": s}, {}), ("instance_name", {"instance_name": f"'{s}'"}, {}),
                               ("image", {}, {"image": s + ".png"}), ("constraint", {}, {"constraint": f". != '{s}'"}),
                               ("calculation", {}, {"calculation": f"'{s}'"}), ("relevant", {}, {"relevant": f"'{s}' != ''"}),
                               ("submission_url", {"submission_url": "http://e.org/" + s}, {})):
            wb = WB()
            wb["survey"] = corpus.sheet_from_dicts([{"type": "text", "name": "q", "label": "Q", **row}])
            wb["settings"] = corpus.sheet_from_dicts([{"form_title": "T", **st}])
            out.append(Case(f"c01/char2/{place}/{ch!r}", wb=wb, origin="C01-family"))
    # adversarial markup-like text everywhere at once (rotating), as in the C06 family
    strings = corpus.adv_strings(seed, 150 if tier == "quick" else 600)
    for i in range(0, len(strings), 1 if tier == "thorough" else 3):
        pos = {}

        def fill(cid, lang, refs, i=i, pos=pos):
            k = pos.setdefault((cid, lang), len(pos))
            s = strings[(i + k * 7) % len(strings)]
            if cid.endswith(".default") and re.search(r"[-+*|\[\](){}]| div | mod |\$\{", s):
                return None
            return s
        out.append(Case(f"c01/adv/{i}", wb=corpus.text_form(fill, multi=bool(i % 2), tail_ref=bool(i % 4 < 2)),
                        origin="C01-family"))
    return out


LANG_NAMES = ["English (en)", "French (fr)", "default", "Default", "español", "中文 (zh)", "عربي", "a&b", "x<y", "q\"uote",
              "it's", "L 1", "l_1", "Kiswahili (sw)", "en", "EN", "pt-BR", "tlh", "😀", "long " * 8 + "name"]


def fam_languages_nesting(tier, rnd):
    out = []
    # many languages
    for n in (1, 2, 3, 5, 8, 12, 20):
        for variant in range(3 if tier == "quick" else 8):
            langs = rnd.sample(LANG_NAMES, min(n, len(LANG_NAMES)))
            rows = [{"type": "text", "name": "a", **{f"label::{L}": f"A in {i}" for i, L in enumerate(langs)}}]
            q = {"type": "select_one l", "name": "s"}
            for i, L in enumerate(langs):
                if rnd.random() < 0.8:
                    q[f"label::{L}"] = rnd.choice(["S ${a}", "S", "<S>", "S & ${a} & T"])
                if rnd.random() < 0.5:
                    q[f"hint::{L}"] = f"H{i}"
                if rnd.random() < 0.3:
                    q[f"image::{L}"] = f"i{i}.png"
                if rnd.random() < 0.3:
                    q[f"guidance_hint::{L}"] = f"G{i}"
            rows.append(q)
            ch = []
            for c in range(3):
                r = {"list_name": "l", "name": f"c{c}"}
                for i, L in enumerate(langs):
                    if rnd.random() < 0.85:
                        r[f"label::{L}"] = f"C{c}/{i}"
                if rnd.random() < 0.3:
                    r["label"] = f"C{c}"
                ch.append(r)
            st = rnd.choice([None, {"default_language": langs[0]}, {"default_language": langs[-1]},
                             {"default_language": "Nope"}])
            wb = WB()
            wb["survey"] = corpus.sheet_from_dicts(rows)
            wb["choices"] = corpus.sheet_from_dicts(ch, ["list_name", "name"])
            if st:
                wb["settings"] = corpus.sheet_from_dicts([st])
            out.append(Case(f"c01/langs/{n}/{variant}", wb=wb, origin="C01-family"))
    # deep nesting
    depths = (1, 2, 3, 5, 8, 13, 21) if tier == "quick" else (1, 2, 3, 4, 5, 6, 8, 10, 13, 17, 21, 30, 45)
    for d in depths:
        for pattern in ("group", "repeat", "alt", "alt2", "random"):
            rows, stack = [{"type": "text", "name": "top", "label": "Top"}], []
            for i in range(d):
                kind = {"group": "group", "repeat": "repeat", "alt": ("group", "repeat")[i % 2],
                        "alt2": ("repeat", "group", "group")[i % 3], "random": rnd.choice(["group", "repeat"])}[pattern]
                r = {"type": f"begin {kind}", "name": f"s{i}"}
                if i % 3 != 2:
                    r["label"] = f"Section {i} ${{top}}" if i % 4 == 0 else f"Section {i}"
                if kind == "group" and i % 5 == 1:
                    r["appearance"] = "field-list"
                rows.append(r)
                stack.append(kind)
                rows.append({"type": rnd.choice(["text", "integer", "select_one l", "note", "calculate", "geopoint"]),
                             "name": f"q{i}", "label": f"Q{i}", "calculation": "1 + 1"})
            while stack:
                rows.append({"type": f"end {stack.pop()}"})
            wb = WB()
            wb["survey"] = corpus.sheet_from_dicts(rows)
            wb["choices"] = corpus.sheet_from_dicts([{"list_name": "l", "name": "c", "label": "C"}])
            out.append(Case(f"c01/deep/{d}/{pattern}", wb=wb, origin="C01-family"))
    return out


FORM_IDS = ["plain", "with space", "a&b", "a<b", "a>b", "a\"b", "a'b", "été", "名前", "1starts-with-digit", "a/b", "a:b",
            "x" * 300, "]]>", "a  b", " padded ", "UPPER", "a.b-c_d", "${q}", "a=b", "😀", "-", "0", "None", "data"]


def fam_settings(tier, rnd):
    out = []
    q = [{"type": "text", "name": "q", "label": "Q"},
         {"type": "select_one l", "name": "s", "label": "S ${q}"}]
    ch = [{"list_name": "l", "name": "c", "label": "C"}]

    def mk(name, st, kwargs=None, survey=None, extra_sheets=None):
        wb = WB()
        wb["survey"] = corpus.sheet_from_dicts(survey or q)
        wb["choices"] = corpus.sheet_from_dicts(ch)
        if st is not None:
            wb["settings"] = corpus.sheet_from_dicts([st] if isinstance(st, dict) else st)
        for k, v in (extra_sheets or {}).items():
            wb[k] = corpus.sheet_from_dicts(v)
        out.append(Case(f"c01/settings/{name}", wb=wb, kwargs=dict(kwargs or {}), origin="C01-family"))

    for i, fid in enumerate(FORM_IDS):
        mk(f"form_id/{i}", {"form_id": fid})
        mk(f"id_string/{i}", {"id_string": fid})
        mk(f"form_id+title/{i}", {"form_title": f"Title {fid}", "form_id": fid, "version": fid})
        mk(f"form_id+attr-id/{i}", {"form_id": fid, "attribute::id": "other", "attribute::version": "9", "version": "1"})
        mk(f"form_id+name/{i}", {"form_id": fid, "name": "root_" + str(i)}, kwargs={"form_name": "kwname"})
        mk(f"form_id+kw/{i}", {"form_id": fid}, kwargs={"form_name": "kw-name.1"})
        mk(f"form_id+xmlns/{i}", {"form_id": fid, "instance_xmlns": "http://example.org/" + str(i)})
        mk(f"both-ids/{i}", {"form_id": fid, "id_string": fid})
    mk("no-settings", None)
    mk("no-settings+kw", None, kwargs={"form_name": "kwname"})
    mk("title-only", {"form_title": "Only a title"})
    mk("empty-title", {"form_title": " ", "form_id": "x"})
    mk("two-rows", [{"form_id": "first", "form_title": "T1"}, {"form_id": "second", "form_title": "T2"}])
    mk("attr-many", {"form_id": "x", "attribute::a": "1", "attribute::b.c": "2", "attribute::xmlns:z": "http://z",
                     "attribute::z:q": "3"})
    mk("all", {"form_title": "T & <t>", "form_id": "all", "version": "2024", "public_key": "abc", "submission_url":
               "https://e.org/s?a=1&b=2", "auto_send": "true", "auto_delete": "false", "style": "pages theme-grid",
               "default_language": "English (en)", "instance_name": "concat(${q}, '<&>')", "prefix": "P", "delimiter": "+",
               "allow_choice_duplicates": "yes", "clean_text_values": "no", "sms_keyword": "kw", "name": "myroot"})
    mk("entities", {"form_id": "e1", "version": "1"}, extra_sheets={"entities": [{"dataset": "trees", "label": "${q}"}]})
    mk("entities-update", {"form_id": "e2"}, extra_sheets={"entities": [
        {"dataset": "trees", "label": "${q}", "entity_id": "${q}", "update_if": "true()", "create_if": "false()"}]})
    mk("types", {"form_id": "types"}, survey=[
        {"type": t, "name": f"m{i}"} for i, t in enumerate(
            ["start", "end", "today", "deviceid", "username", "email", "phonenumber", "start-geopoint",
             "background-audio"])] + [{"type": "audit", "name": "audit"}] + q + [
        {"type": "range", "name": "rg", "label": "R", "parameters": "start=1 end=9 step=2"},
        {"type": "image", "name": "im", "label": "I", "parameters": "max-pixels=100"},
        {"type": "select_multiple l or_other", "name": "oo", "label": "O"},
        {"type": "rank l", "name": "rk", "label": "K"},
        {"type": "select_one_from_file f.csv", "name": "ff", "label": "F"},
        {"type": "select_one_from_file g.xml", "name": "fx", "label": "F"},
        {"type": "csv-external", "name": "ext"}, {"type": "xml-external", "name": "ext2"},
        {"type": "text", "name": "tr", "label": "T", "trigger": "${q}", "calculation": "1"},
        {"type": "text", "name": "dd", "label": "D", "default": "${q}"},
        {"type": "geopoint", "name": "gp", "label": "G", "parameters": "capture-accuracy=5"},
    ])
    return out


def cases(tier, seed):
    rnd = random.Random(seed * 6151 + 1)
    out = []
    out += fam_names(tier)
    out += fam_namespaces(tier, rnd)
    out += fam_text(tier, seed)
    out += fam_settings(tier, rnd)
    out += fam_languages_nesting(tier, rnd)
    out += corpus.corpus(tier, seed, N_GENERATED[tier])   # harvested test forms + generic generator
    return out
