"""C17 (bounded e2e): broken forms are rejected with a located diagnosis; nothing ever crashes.

Property (properties.jsonl, C17), clause by clause, and what this oracle demands for each:

 N  "For any input whatsoever the only outcomes are a result or that error type, never an internal exception":
      every converted case (harvested forms, generated forms, the vocabulary family, the header structure and
      vocabulary family, the fuzzed family and all mutation cases) either converts or raises PyXFormError.
                                                                     key  C17:internal-error:<Type>:<file>:<func>
      header_cases() varies the HEADERS (the other families keep them fixed): every documented column of every sheet
      with 0-3 extra parts joined by `::` / `:`, empty parts, language parts; and headers that are Python-level names
      of the implementation (slots, constructor arguments, methods, dunder / underscore / dotted names); as an extra
      column (cell filled, once empty) or in place of the base column, on small valid forms of every kind of row.
 R  "A form containing a structural error (...) is refused: conversion raises the library's own error type ...
      and returns no XForm": every catalogued breaking mutation applied to a valid base form, at every site where
      it applies, must be refused.                                    key  C17:accepted:<kind>
      "Every site" includes what surrounds the broken row: context_cases() puts the same broken row (a parameter name
      that the XLSForm reference gives to another question type or to none, a bad parameter value, an unknown type,
      a missing list, ...) alone, before, after, between, nested with, and after two or three valid rows of every
      other parameter-bearing kind (selects from file with value=/label=, randomized selects, range, text rows=,
      image, audio, geo, audit, ...).  Nothing a converter remembers from earlier rows may make it acceptable.
      For an unknown parameter the message must name the parameter or say "parameter".  key C17:unidentified:<kind>
 L  "... with a message identifying the problem, citing the spreadsheet row when the error belongs to a row":
      when the mutation breaks exactly one row (the row number is computed here from the abstract workbook:
      data row i of a sheet is spreadsheet row i + 2, blank rows count), the message must contain `[row : N]`
      for that row (or one of the two rows for a duplicate).         keys C17:no-row:<kind>, C17:wrong-row:<kind>
      Errors that belong to a sheet or to the form as a whole (headers, missing end with no single culprit row,
      instance-id clashes) carry no row demand.

The expectation never calls pyxform: base forms are valid by construction (and are themselves cases: a base form
that is refused is reported as C17:base-refused), mutations are the catalogue of the property statement.
"""
from __future__ import annotations

import random
import re

from bounded import corpus
from bounded.corpus import Case, WB

USES_DEFAULT_CORPUS = True
N_GENERATED = {"quick": 200, "thorough": 1500}
TIME_BUDGET_S = {"quick": 90, "thorough": 900}
N_FUZZ = {"quick": 400, "thorough": 6000}

RE_ROW = re.compile(r"\[row : (\d+)\]")

SURVEY_HEADERS = ["type", "name", "label", "relevant", "constraint", "calculation", "required", "default",
                  "parameters", "choice_filter", "repeat_count", "hint", "appearance"]
CHOICE_HEADERS = ["list_name", "name", "label", "media::image"]


def _row(type_=None, name=None, label=None, **kw):
    d = {"type": type_, "name": name, "label": label}
    d.update(kw)
    return d


def _wb(rows, choices=None, settings=None, extra=None, choice_headers=None):
    """rows: list of dicts over SURVEY_HEADERS (None = blank row); choices: list of dicts."""
    hs = [h for h in SURVEY_HEADERS if any(r and r.get(h) not in (None, "") for r in rows)] or ["type", "name", "label"]
    for must in ("type", "name", "label"):
        if must not in hs:
            hs.append(must)
    hs = [h for h in SURVEY_HEADERS if h in hs]
    wb = WB()
    wb["survey"] = (hs, [[(r or {}).get(h) for h in hs] for r in rows])
    if choices is not None:
        ch = choice_headers or [h for h in CHOICE_HEADERS if h in ("list_name", "name", "label") or any(c.get(h) for c in choices)]
        wb["choices"] = (ch, [[c.get(h) for h in ch] for c in choices])
    if settings:
        wb["settings"] = (list(settings), [list(settings.values())])
    for k, v in (extra or {}).items():
        wb[k] = v
    return wb


CHOICES = [
    {"list_name": "l", "name": "x", "label": "X"},
    {"list_name": "l", "name": "y", "label": "Y"},
    {"list_name": "l2", "name": "p", "label": "P"},
    {"list_name": "l2", "name": "q", "label": "Q"},
]


def base_rows():
    """A valid form with every depth: top level, group, group>repeat, group>repeat>group; a blank row inside."""
    return [
        _row("text", "a", "A"),                                            # row 2
        _row("integer", "b", "B", relevant="${a} != ''"),                  # row 3
        None,                                                              # row 4 (blank)
        _row("begin group", "g", "G"),                                     # row 5
        _row("select_one l", "s", "S"),                                    # row 6
        _row("begin repeat", "r", "R"),                                    # row 7
        _row("text", "c", "C"),                                            # row 8
        _row("begin group", "h", "H"),                                     # row 9
        _row("calculate", "d", None, calculation="${b} + 1"),              # row 10
        _row("select_multiple l2", "m", "M"),                              # row 11
        _row("end group"),                                                 # row 12
        _row("end repeat"),                                                # row 13
        _row("decimal", "e", "E", constraint=". > ${b}"),                  # row 14
        _row("end group"),                                                 # row 15
        _row("note", "n", "N ${a}"),                                       # row 16
        _row("range", "rg", "Rg", parameters="start=1 end=5 step=1"),      # row 17
    ]


QUESTION_SITES = [0, 1, 4, 6, 8, 9, 12, 14]     # indices of question rows (depths 0,0,1,2,3,3,1,0)
BEGIN_SITES = [3, 5, 7]
END_SITES = [10, 11, 13]
SIBLING_BEFORE = {1: 0, 6: None, 9: 8, 12: 4, 14: 1, 4: None, 8: None, 0: None}  # an earlier sibling in the same section


def _mut(kind, tag, rows, choices=CHOICES, rows_ok=None, settings=None, extra=None, choice_headers=None):
    wb = _wb(rows, choices, settings, extra, choice_headers)
    c = Case(f"C17-{kind}:{tag}", wb=wb, origin="C17", tags={"mutation", kind})
    c.expect = {"kind": kind, "rows": set(rows_ok) if rows_ok else None}
    return c


def _copy(rows):
    return [dict(r) if r else None for r in rows]


def mutation_cases(thorough: bool) -> list[Case]:
    out = []
    B = base_rows()
    base = Case("C17-base:valid", wb=_wb(B, CHOICES), origin="C17", tags={"base"})
    base.expect = {"kind": "base", "accept": True}
    out.append(base)

    # -- unbalanced / mismatched begin and end
    for i in [0, 2, 4, 6, 8, 12, 14, 16]:
        for t in ("end group", "end repeat", "end_group"):
            rows = _copy(B)
            rows.insert(i, _row(t))
            # an end of the right kind placed inside a section closes it early: the culprit becomes a later row
            out.append(_mut("extra-end", f"{t}@{i + 2}", rows, rows_ok=None))
    for t in ("end group", "end repeat", "end loop"):
        rows = _copy(B) + [_row(t)]
        out.append(_mut("extra-end-last", f"{t}@end", rows, rows_ok=[len(rows) + 1]))
        rows = [_row(t)] + _copy(B)
        out.append(_mut("extra-end-first", f"{t}@first", rows, rows_ok=[2]))
    for i in END_SITES:
        rows = _copy(B)
        del rows[i]
        out.append(_mut("missing-end", f"del@{i + 2}", rows))
    for i in END_SITES:
        rows = _copy(B)
        was = rows[i]["type"]
        rows[i]["type"] = "end group" if was == "end repeat" else "end repeat"
        out.append(_mut("mismatched-end", f"{was}->{rows[i]['type']}@{i + 2}", rows, rows_ok=[i + 2]))
    rows = _copy(B)
    rows.append(_row("begin group", "tail", "T"))
    out.append(_mut("missing-end", "begin-at-end", rows))

    # -- duplicate names in a section (same case / other case / group vs question)
    for i, j in SIBLING_BEFORE.items():
        if j is None:
            continue
        for f in (str, str.upper):
            rows = _copy(B)
            rows[i]["name"] = f(rows[j]["name"])
            out.append(_mut("duplicate-name", f"{rows[i]['name']}@{i + 2}~{j + 2}", rows, rows_ok=[i + 2, j + 2]))
    rows = _copy(B)
    rows[14]["name"] = "g"
    out.append(_mut("duplicate-name", "question~group", rows, rows_ok=[16, 5]))
    rows = _copy(B)
    rows[5]["name"] = "s"
    out.append(_mut("duplicate-name", "repeat~question", rows, rows_ok=[7, 6]))

    # -- invalid names
    for i in QUESTION_SITES + BEGIN_SITES:
        for bad in ("1a", "a b", "a$", "-a", ".a", "a/b", "é t"):
            if not thorough and bad not in ("1a", "a b", "a$") and i not in (0, 8):
                continue
            rows = _copy(B)
            rows[i]["name"] = bad
            if i == 0:
                rows[1]["relevant"] = None
                rows[14]["label"] = "N"
            if i == 1:
                rows[8]["calculation"], rows[12]["constraint"] = "1 + 1", ". > 0"
            out.append(_mut("invalid-name", f"{bad!r}@{i + 2}", rows, rows_ok=[i + 2]))
    for i in QUESTION_SITES:
        if B[i]["type"] == "note":
            continue  # documented convenience: a note without a name gets a generated one
        rows = _copy(B)
        rows[i]["name"] = None
        if i == 0:
            rows[1]["relevant"] = None
            rows[14]["label"] = "N"
        if i == 1:
            rows[8]["calculation"], rows[12]["constraint"] = "1 + 1", ". > 0"
        out.append(_mut("missing-name", f"@{i + 2}", rows, rows_ok=[i + 2]))
        rows = _copy(B)
        rows[i]["type"] = None
        out.append(_mut("missing-type", f"@{i + 2}", rows, rows_ok=[i + 2]))

    # -- unknown / malformed references in every reference-bearing column
    cols = ["relevant", "constraint", "calculation", "required", "default", "label", "hint", "choice_filter"]
    for i in QUESTION_SITES:
        for col in cols:
            t = B[i]["type"]
            if col == "choice_filter" and not t.startswith("select"):
                continue
            if col == "calculation" and t in ("note",):
                continue
            if col in ("label", "hint") and t == "calculate":
                continue
            if not thorough and (i + len(col)) % 3:
                continue
            for kind, expr in (("unknown-ref", "${nope} = 1"), ("malformed-ref", "${ a} = 1"), ("malformed-ref", "${a = 1"),
                               ("malformed-ref", "${a b} = 1"), ("malformed-ref", "${a${b}} = 1")):
                rows = _copy(B)
                rows[i][col] = expr if col not in ("label", "hint") else "T " + expr
                out.append(_mut(kind, f"{col}={expr!r}@{i + 2}", rows, rows_ok=[i + 2]))
    rows = _copy(B)
    rows[5]["repeat_count"] = "${nope}"
    out.append(_mut("unknown-ref", "repeat_count@7", rows, rows_ok=[7]))
    rows = _copy(B)
    rows[3]["relevant"] = "${nope} = 1"
    out.append(_mut("unknown-ref", "group-relevant@5", rows, rows_ok=[5]))

    # -- ambiguous references: k same-named questions in k different sections and one reference to the name
    for k in (2, 3, 4, 5, 6):
        for where in ("top", "in-group", "in-repeat"):
            rows = []
            for n in range(k):
                ctl = "repeat" if (where == "in-repeat" and n == 0) else "group"
                rows += [_row(f"begin {ctl}", f"sec{n}", f"S{n}"), _row("text", "q", f"Q{n}"), _row(f"end {ctl}")]
            ref = _row("note", "refnote", "See ${q}") if where != "in-group" else _row("calculate", "refcalc", None, calculation="concat(${q}, 'x')")
            if where == "top":
                rows.append(ref)
                site = len(rows) + 1
            else:
                rows.insert(2, ref)
                site = 4
            out.append(_mut("ambiguous-ref", f"{k}-copies-{where}", rows, choices=None, rows_ok=[site]))

    # -- unknown question types
    for i in QUESTION_SITES:
        for bad in ("textt", "select_won l", "selectone l", "select_one", "begin grp", "int eger", "text x"):
            if not thorough and i not in (0, 8) and bad not in ("textt", "select_won l"):
                continue
            rows = _copy(B)
            rows[i]["type"] = bad
            out.append(_mut("unknown-type", f"{bad!r}@{i + 2}", rows, rows_ok=[i + 2]))

    # -- missing choice list
    for i in (4, 9, 0, 14):
        for cmd in ("select_one", "select_multiple", "rank"):
            rows = _copy(B)
            rows[i]["type"] = f"{cmd} nolist"
            rows[i]["parameters"] = None
            out.append(_mut("missing-list", f"{cmd}@{i + 2}", rows, rows_ok=[i + 2]))
    rows = _copy(B)
    out.append(_mut("missing-choices-sheet", "no-choices-sheet", rows, choices=None))

    # -- invalid choices: no name; duplicate names (labelled, or with a label missing on either side, or none labelled)
    ch = [dict(c) for c in CHOICES]
    ch[1]["name"] = None
    out.append(_mut("choice-without-name", "l@3", _copy(B), choices=ch, rows_ok=[3]))
    for li, (first, second) in enumerate([(0, 1), (2, 3)]):
        for variant in ("all-labelled", "dup-unlabelled", "first-unlabelled", "none-labelled", "image-only"):
            ch = [dict(c) for c in CHOICES]
            ch[second]["name"] = ch[first]["name"]
            if variant in ("dup-unlabelled", "none-labelled", "image-only"):
                ch[second]["label"] = None
            if variant in ("first-unlabelled", "none-labelled", "image-only"):
                ch[first]["label"] = None
            if variant == "image-only":
                ch[first]["media::image"], ch[second]["media::image"] = "a.png", "b.png"
            out.append(_mut("duplicate-choice", f"list{li}-{variant}", _copy(B), choices=ch, rows_ok=[second + 2]))
    ch = [dict(c) for c in CHOICES] + [{"list_name": "l", "name": "x", "label": None}]
    out.append(_mut("duplicate-choice", "third-row-unlabelled-far", _copy(B), choices=ch, rows_ok=[6]))

    # -- calculate without calculation
    for i in (8, 0, 12):
        rows = _copy(B)
        rows[i] = _row("calculate", rows[i]["name"], None)
        out.append(_mut("missing-calculation", f"@{i + 2}", rows, rows_ok=[i + 2]))

    # -- bad or unknown parameters
    for i, params in [(4, "foo=1"), (4, "randomize=maybe"), (4, "seed=3"), (4, "randomize=true seed=abc"), (0, "rows=x"),
                      (0, "foo=1"), (0, "rows"), (15, "start=a end=5"), (15, "foo=2"),
                      (9, "randomize"), (9, "=true"), (6, "rows=2 rows=3 x")]:
        rows = _copy(B)
        rows[i]["parameters"] = params
        out.append(_mut("bad-parameters", f"{params!r}@{i + 2}", rows, rows_ok=[i + 2]))

    # -- headers: required header missing, two spellings of one column
    for sheet, hdr in (("survey", "type"), ("survey", "name"), ("choices", "list_name"), ("choices", "name")):
        wb = _wb(_copy(B), CHOICES)
        h, r = wb[sheet]
        wb[sheet] = ([("x_" + x if x == hdr else x) for x in h], r)
        c = Case(f"C17-missing-header:{sheet}.{hdr}", wb=wb, origin="C17", tags={"mutation", "missing-header"})
        c.expect = {"kind": "missing-header", "rows": None}
        out.append(c)
    for a, b in (("relevant", "relevance"), ("constraint_message", "constraint message"), ("label", "caption"),
                 ("calculation", "calculate")):
        wb = _wb(_copy(B), CHOICES)
        h, r = wb["survey"]
        if a not in h:
            h = [*h, a]
            r = [[*x, None] for x in r]
        h = [*h, b]
        r = [[*x, ("v" if i == 0 else None)] for i, x in enumerate(r)]
        wb["survey"] = (h, r)
        c = Case(f"C17-duplicate-header:{a}+{b}", wb=wb, origin="C17", tags={"mutation", "duplicate-header"})
        c.expect = {"kind": "duplicate-header", "rows": None}
        out.append(c)

    # -- instance-id clashes: two different sources for one instance id
    for ext_type, nm, sel in (("xml-external", "cities", "select_one_from_file cities.csv"),
                              ("csv-external", "cities", "select_one_from_file cities.xml"),
                              ("xml-external", "cities", "select_one_from_file cities.geojson")):
        rows = _copy(B)
        rows[4]["type"] = sel
        rows.insert(0, _row(ext_type, nm))
        out.append(_mut("instance-clash", f"{ext_type}+{sel}", rows))
    rows = _copy(B)
    rows[4]["choice_filter"] = "true()"
    rows.insert(0, _row("xml-external", "l"))
    out.append(_mut("instance-clash", "xml-external named as an itemset list", rows))
    return out


# ----------------------------------------------------------------------------- vocabulary (no expectation but N)

SELECT_CMDS = ["select_one", "select_multiple", "rank", "select_one_external", "select_one_from_file",
               "select_multiple_from_file", "osm", "select one", "select all that apply"]
LIST_TOKENS = ["l", "ext", "nolist", "${a}", "${c}", "f.csv", "f.xml", "f.geojson", "f.txt", "l or_other", ""]
EXT_SHEETS = {
    "external_choices": (["list_name", "name", "label", "state"], [["l", "x", "X", "s1"], ["l", "y", "Y", "s1"], ["ext", "z", "Z", "s1"]]),
    "osm": (["list_name", "name", "label"], [["l", "building", "Building"], ["building", "yes", "Yes"]]),
}
ODD_TYPES = ["xml-external", "csv-external", "audit", "background-audio", "background-geopoint", "start-geopoint",
             "hidden", "trigger", "include", "username", "deviceid", "phonenumber", "geoshape", "geotrace", "video",
             "begin loop over l", "photo", "add image prompt", "start", "end", "today", "simserial", "subscriberid",
             "form_title", "set_form_id", "csv-external x", "range", "table-list", "select_one l or specify other"]


def vocabulary_cases(thorough: bool) -> list[Case]:
    out = []

    def add(tag, wb):
        out.append(Case(f"C17-vocab:{tag}", wb=wb, origin="C17", tags={"vocab"}))

    # empty groups / repeats / loops: every nesting shape of up to three (possibly empty) sections
    kinds = ["group", "repeat", "loop"]
    n = 0
    for k1 in kinds:
        for shape in ("alone", "first", "last", "nested-empty", "nested-in-full", "twice", "only"):
            for k2 in kinds[:2]:
                rows = []
                q = _row("text", "q0", "Q0")
                b1 = _row(f"begin {k1}" + (" over l" if k1 == "loop" else ""), "s1", "S1")
                e1 = _row(f"end {k1}")
                b2, e2 = _row(f"begin {k2}", "s2", "S2"), _row(f"end {k2}")
                if shape == "alone":
                    rows = [q, b1, e1]
                elif shape == "first":
                    rows = [b1, e1, q]
                elif shape == "last":
                    rows = [q, b2, _row("text", "q1", "Q1"), e2, b1, e1]
                elif shape == "nested-empty":
                    rows = [q, b2, b1, e1, e2]
                elif shape == "nested-in-full":
                    rows = [q, b2, _row("text", "q1", "Q1"), b1, e1, _row("text", "q2", "Q2"), e2]
                elif shape == "twice":
                    rows = [b1, e1, q, _row(b1["type"], "s3", None), e1]
                elif shape == "only":
                    rows = [b1, e1]
                n += 1
                add(f"empty-{k1}-{shape}-{k2}", _wb(rows, CHOICES))
    # select-like commands x list tokens x choice_filter x which sheets exist
    for cmd in SELECT_CMDS:
        for tok in LIST_TOKENS:
            for cf in (None, "state=${a}"):
                for sheets in ((), ("external_choices",), ("osm",), ("external_choices", "osm")):
                    if not thorough and sheets == ("external_choices", "osm") and cf:
                        continue
                    rows = [_row("text", "a", "A"), _row("begin repeat", "r", "R"), _row("text", "c", "C"), _row("end repeat"),
                            _row(f"{cmd} {tok}".strip(), "s", "S", choice_filter=cf)]
                    add(f"{cmd}|{tok}|cf={bool(cf)}|{'+'.join(sheets) or 'choices-only'}",
                        _wb(rows, CHOICES, extra={k: EXT_SHEETS[k] for k in sheets}))
            rows = [_row("text", "a", "A"), _row(f"{cmd} {tok}".strip(), "s", "S")]
            add(f"{cmd}|{tok}|no-choices-sheet", _wb(rows, None))
    # odd / meta / external-instance types at every depth, with and without a name / label
    for t in ODD_TYPES:
        for depth in (0, 1, 2):
            for named in (True, False):
                rows = [_row("text", "a", "A")]
                opens = [_row("begin group", "g", "G"), _row("begin repeat", "r", "R")][:depth]
                rows += opens
                rows.append(_row(t, "z" if named else None, "Z" if named else None))
                rows.append(_row("text", "b", "B"))
                rows += [_row("end repeat"), _row("end group")][2 - depth:] if depth else []
                add(f"type={t!r}|depth={depth}|named={named}", _wb(rows, CHOICES))
    # parameters x types
    params = ["", "rows=3", "rows=-1", "max-pixels=abc", "max-pixels=640", "quality=low", "quality=bad", "capture-accuracy=x",
              "start=1 end=10 step=2", "start=1;end=10", "start=1, end=10", "randomize=true", "randomize=true seed=${a}",
              "seed=1", "value=name label=label", "value=a b", "=", "a==b", "a=b=c", "allow-mock-accuracy=maybe",
              "incremental=true", "track-changes=true identify-user=true", "location-priority=balanced location-min-interval=1 location-max-age=0",
              "location-priority=x", "rows = 3", "ROWS=3", "app=com.example", "app=1bad", "max-pixels=640 max-pixels=320"]
    types = ["text", "integer", "image", "audio", "geopoint", "geoshape", "range", "select_one l", "select_multiple l",
             "select_one_from_file f.csv", "audit", "begin repeat", "begin group", "barcode", "file", "rank l"]
    for t in types:
        for p in params:
            if not thorough and (len(p) + len(t)) % 2:
                continue
            rows = [_row("text", "a", "A")]
            if t.startswith("begin"):
                rows += [_row(t, "z", "Z", parameters=p), _row("text", "b", "B"), _row("end " + t.split()[1])]
            else:
                rows += [_row(t, None if t == "audit" else "z", "Z", parameters=p)]
            add(f"params|{t}|{p!r}", _wb(rows, CHOICES))
    # reference-like strings in every column
    refs = ["${a}", "${}", "${ }", "$ {a}", "${a}${a}", "${a}}", "{a}", "${last-saved#a}", "${last-saved#nope}", "${last-saved#}",
            "${a.b}", "${a-}", "${1}", "${a:b}", "$", "${", "}", "${z}", "${r}", "${c}", "${s}", "instance('l')/root/item[name=${a}]/label",
            "indexed-repeat(${c}, ${r}, 1)", "position(..)", "../a", "/data/a", ".", "..", "current()/../a", "jr:choice-name(${s}, '${s}')",
            "pulldata('f', 'a', 'b', ${a})", "pulldata(${a})", "once(${a})", "now()", "concat(${a}, \"${a}\")", "'${a}", "\"${a}"]
    cols = ["relevant", "constraint", "calculation", "required", "default", "label", "hint", "choice_filter", "repeat_count",
            "parameters", "appearance", "name", "type"]
    for col in cols:
        for ref in refs:
            if not thorough and (len(col) + len(ref)) % 2 and ref not in ("${}", "${z}", "${r}"):
                continue
            rows = [_row("text", "a", "A"), _row("begin repeat", "r", "R"), _row("text", "c", "C"), _row("end repeat"),
                    _row("select_one l", "s", "S"), _row("text", "z", "Z")]
            site = 1 if col == "repeat_count" else (4 if col == "choice_filter" else 5)
            rows[site][col] = ref
            add(f"ref|{col}|{ref!r}", _wb(rows, CHOICES))
    # sparse sheets
    for tag, rows in [
        ("only-blank-rows", [None, None]),
        ("leading-blanks", [None, None, _row("text", "a", "A")]),
        ("label-only-row", [_row("text", "a", "A"), _row(None, None, "just a label")]),
        ("name-only-row", [_row("text", "a", "A"), _row(None, "b", None)]),
        ("type-only-row", [_row("text", "a", "A"), _row("text", None, None)]),
        ("hint-only-row", [_row("text", "a", "A"), {"type": None, "name": None, "label": None, "hint": "h"}]),
        ("no-rows", []),
        ("only-end", [_row("end group")]),
        ("only-begin", [_row("begin group", "g", "G")]),
        ("begin-without-name", [_row("begin group", None, "G"), _row("text", "a", "A"), _row("end group")]),
        ("begin-without-label", [_row("begin repeat", "r", None), _row("text", "a", "A"), _row("end repeat")]),
        ("end-with-name", [_row("begin group", "g", "G"), _row("text", "a", "A"), _row("end group", "g", "G")]),
        ("end-with-wrong-name", [_row("begin group", "g", "G"), _row("text", "a", "A"), _row("end group", "zz")]),
        ("label-less-question", [_row("text", "a", None)]),
        ("unicode-names", [_row("text", "été", "E"), _row("note", "n", "${été}")]),
        ("vertical-tab-in-label", [_row("text", "a", "A"), _row("note", "n", "x\x0by")]),
        ("vertical-tab-in-label-with-ref", [_row("text", "a", "A"), _row("note", "n", "x\x0by ${a}")]),
    ]:
        add(f"sparse|{tag}", _wb(rows, CHOICES))
    for tag, ch in [
        ("choices-blank-rows", [CHOICES[0], {}, CHOICES[1]]),
        ("choices-no-list-name", [{"name": "x", "label": "X"}]),
        ("choices-only-list-name", [{"list_name": "l"}]),
        ("choices-label-only", [{"label": "X"}]),
        ("choices-empty", []),
        ("choices-name-with-space", [{"list_name": "l", "name": "a b", "label": "X"}]),
    ]:
        for t in ("select_one l", "select_multiple l", "rank l"):
            add(f"sparse|{tag}|{t}", _wb([_row(t, "s", "S")], ch))
    for tag, settings in [("settings-blank", {"form_id": None}), ("settings-odd", {"form_id": "a b", "version": "${a}", "instance_name": "${nope}"}),
                          ("settings-name-invalid", {"name": "1 bad"}), ("settings-public-key", {"public_key": "x", "submission_url": "u"}),
                          ("settings-default-language", {"default_language": "zz"}), ("settings-namespaces-bad", {"namespaces": "x"}),
                          ("settings-style", {"style": "pages theme-grid"}), ("settings-allow-dup", {"allow_choice_duplicates": "maybe"})]:
        add(f"sparse|{tag}", _wb(_copy(base_rows()), CHOICES, settings=settings))
    return out


FUZZ_TOKENS = ["", "${nope}", "${}", "begin group", "end group", "begin repeat", "end repeat", "select_one nolist",
               "select_multiple ${a}", "select_one_external l0", "osm l0", "xml-external", "calculate", "1a", "a b", "yes", "no",
               "true()", "rows=3", "foo=bar", "randomize=true", "${a} ${b}", ".", "..", "label", "name", "meta", "instanceID",
               "data", "select_one l0 or_other", "rank l0", "range", "audit", "note", "hidden", "0", "-1", "field-list", "table-list",
               "label", "list-nolabel", "minimal", "search('x')", "quick", "a,b", "a;b", "'", "\"", "<", "&", "]]>"]


def fuzz_cases(tier: str, seed: int) -> list[Case]:
    """Generated valid forms with one to three cells replaced by vocabulary tokens / moved / emptied."""
    rnd = random.Random(seed * 7919 + 17)
    gen = corpus.generated(seed + 1717, N_FUZZ[tier])
    out = []
    for g in gen:
        wb = g.wb.copy()
        for _ in range(rnd.choice([1, 1, 2, 3])):
            sheet = rnd.choice([s for s in wb if wb[s][1]] or ["survey"])
            h, rows = wb[sheet]
            if not rows or not h:
                continue
            r = rnd.randrange(len(rows))
            op = rnd.random()
            if op < 0.1:
                del rows[r]
            elif op < 0.2:
                rows.insert(r, [None] * len(h))
            elif op < 0.3 and len(rows) > 1:
                rows.insert(rnd.randrange(len(rows)), rows.pop(r))
            else:
                c = rnd.randrange(len(h))
                while len(rows[r]) <= c:
                    rows[r].append(None)
                rows[r][c] = rnd.choice(FUZZ_TOKENS) if rnd.random() < 0.8 else None
        out.append(Case(f"C17-fuzz:{g.name}", wb=wb, origin="C17", tags={"fuzz"}))
    return out


# ----------------------------------------------------------------------------- context independence (clause R and L)
# "A form containing a structural error ... is refused": the quantifier is over every valid form x every breaking
# mutation x every site.  The families above put each broken row into ONE fixed base form, so a given broken cell is only
# ever preceded by the same few plain rows.  This family varies what stands AROUND the broken row: valid rows of kind A
# (every question kind whose `parameters` cell is interpreted, each carrying its own legitimate parameters, plus selects
# with choice_filter / or_other / external lists) placed before, after, around, twice, nested, and in pairs, then a broken
# row of kind B.  Whatever a converter remembers from earlier rows of the sheet, the broken row must still be refused.
#
# Expectation source: the XLSForm reference table of the `parameters` column (which names belong to which question
# type).  A name that belongs to another type (or to none) is an "unknown parameter" for the row's type.  Pairs the
# reference leaves open (capture-/warning-accuracy on geoshape/geotrace) are not demanded.

PARAM_DOC = {
    "select_one l": {"randomize", "seed"},
    "select_multiple l2": {"randomize", "seed"},
    "rank l": {"randomize", "seed"},
    "select_one_external ext": {"randomize", "seed"},
    "select_one_from_file f.csv": {"randomize", "seed", "value", "label"},
    "select_multiple_from_file h.xml": {"randomize", "seed", "value", "label"},
    "select_one_from_file g.geojson": {"randomize", "seed", "value", "label"},
    "range": {"start", "end", "step"},
    "text": {"rows"},
    "image": {"max-pixels", "app"},
    "audio": {"quality"},
    "background-audio": {"quality"},
    "geopoint": {"capture-accuracy", "warning-accuracy", "allow-mock-accuracy"},
    "geoshape": {"allow-mock-accuracy"},
    "geotrace": {"allow-mock-accuracy"},
    "audit": {"location-priority", "location-min-interval", "location-max-age", "track-changes", "track-changes-reasons",
              "identify-user"},
}
PARAM_UNDEMANDED = {(t, p) for t in ("geoshape", "geotrace") for p in ("capture-accuracy", "warning-accuracy")}
# a well-formed value for every documented name (valid on the name's home type)
PARAM_VALUE = {
    "randomize": "true", "seed": "3", "value": "code", "label": "text", "start": "1", "end": "9", "step": "2", "rows": "3",
    "max-pixels": "640", "app": "com.example.app", "quality": "low", "capture-accuracy": "5", "warning-accuracy": "10",
    "allow-mock-accuracy": "true", "location-priority": "balanced", "location-min-interval": "60",
    "location-max-age": "120", "track-changes": "true", "track-changes-reasons": "on-form-edit", "identify-user": "true",
}
PARAM_NONSENSE = ["foo", "valu", "labels", "randomise", "parameters"]
# a legitimate cell for each type (used to combine a foreign name with valid ones)
PARAM_OWN_CELL = {
    "select_one l": "randomize=true seed=3", "select_multiple l2": "randomize=true", "rank l": "randomize=false",
    "select_one_external ext": "randomize=true", "select_one_from_file f.csv": "value=code label=text",
    "select_multiple_from_file h.xml": "value=code", "select_one_from_file g.geojson": "value=id label=title randomize=true",
    "range": "start=1 end=9 step=2", "text": "rows=3", "image": "max-pixels=640", "audio": "quality=low",
    "background-audio": "quality=voice-only", "geopoint": "capture-accuracy=5 warning-accuracy=10 allow-mock-accuracy=true",
    "geoshape": "allow-mock-accuracy=true", "geotrace": "allow-mock-accuracy=false",
    "audit": "track-changes=true identify-user=true",
}
# cells whose NAME is right for the type but whose VALUE is not (one clear example per documented value domain)
PARAM_BAD_VALUE = {
    "select_one l": ["randomize=maybe", "seed=3", "randomize=true seed=abc"],
    "select_multiple l2": ["randomize=maybe"],
    "rank l": ["randomize=1"],
    "select_one_from_file f.csv": ["randomize=maybe", "value=a b"],
    "range": ["start=a end=5", "step=x"],
    "text": ["rows=x"],
    "image": ["max-pixels=abc"],
    "audio": ["quality=loud"],
    "background-audio": ["quality=loud"],
    "geopoint": ["capture-accuracy=x", "allow-mock-accuracy=maybe"],
    "geoshape": ["allow-mock-accuracy=maybe"],
    "audit": ["track-changes=maybe", "identify-user=maybe"],
}
CTX_EXT = {"external_choices": (["list_name", "name", "label", "state"], [["ext", "z", "Z", "s1"], ["ext", "w", "W", "s2"]])}


def _typed_row(t, nm, params=None):
    """A row of question type `t` (a key of PARAM_DOC) named `nm`, with what the type needs to be valid."""
    if t == "audit":
        return _row("audit", None, None, parameters=params)
    r = _row(t, nm, None if t == "background-audio" else nm.upper(), parameters=params)
    if t.startswith("select_one_external"):
        r["choice_filter"] = "state=${a}"
    return r


def _ctx_typed(t, params):
    return lambda sfx: [_typed_row(t, f"k{sfx}", params)]


# valid rows of kind A: name -> (home type for "related" parameter names or None, builder(suffix) -> rows)
CONTEXTS = {
    "from-file-csv": ("select_one_from_file f.csv", _ctx_typed("select_one_from_file f.csv", None)),
    "from-file-csv-value-label": ("select_one_from_file f.csv", _ctx_typed("select_one_from_file f.csv", "value=code label=text")),
    "from-file-xml-multiple-value": ("select_multiple_from_file h.xml", _ctx_typed("select_multiple_from_file h.xml", "value=code")),
    "from-file-geojson": ("select_one_from_file g.geojson", _ctx_typed("select_one_from_file g.geojson", "value=id label=title")),
    "from-file-randomize-label": ("select_one_from_file f.csv", _ctx_typed("select_one_from_file f.csv", "randomize=true seed=3 label=text")),
    "select-one-randomize": ("select_one l", _ctx_typed("select_one l", "randomize=true seed=3")),
    "select-multiple-randomize": ("select_multiple l2", _ctx_typed("select_multiple l2", "randomize=true")),
    "rank-randomize": ("rank l", _ctx_typed("rank l", "randomize=false")),
    "select-external": ("select_one_external ext", _ctx_typed("select_one_external ext", "randomize=true")),
    "select-choice-filter": (None, lambda s: [_row("select_one l", f"k{s}", "K", choice_filter="name=${a}")]),
    "select-or-other": (None, lambda s: [_row("select_one l or_other", f"k{s}", "K")]),
    "range": ("range", _ctx_typed("range", "start=1 end=9 step=2")),
    "text-rows": ("text", _ctx_typed("text", "rows=3")),
    "image": ("image", _ctx_typed("image", "max-pixels=640")),
    "audio": ("audio", _ctx_typed("audio", "quality=low")),
    "background-audio": ("background-audio", _ctx_typed("background-audio", "quality=voice-only")),
    "geopoint": ("geopoint", _ctx_typed("geopoint", "capture-accuracy=5 warning-accuracy=10 allow-mock-accuracy=true")),
    "geoshape": ("geoshape", _ctx_typed("geoshape", "allow-mock-accuracy=true")),
    "audit-track": ("audit", _ctx_typed("audit", "track-changes=true identify-user=true")),
    "audit-location": ("audit", _ctx_typed("audit", "location-priority=balanced location-min-interval=60 location-max-age=120")),
}
CTX_ONCE = {"audit-track", "audit-location"}          # the form may hold one audit row only
CTX_TOP_ONLY = {"audit-track", "audit-location", "background-audio"}   # metadata rows: kept out of groups / repeats

PLACEMENTS = ["after", "after-far", "before", "context-in-group", "broken-in-repeat", "both-in-group", "context-twice",
              "between", "context-in-repeat-broken-in-group"]


def _place(placement, ctx_name, b):
    """(rows, index of b) for the valid rows of context `ctx_name` and the row `b` in the given arrangement, or None."""
    mk = CONTEXTS[ctx_name][1]
    c1 = mk("1")
    a, pad1, pad2 = _row("text", "a", "A"), _row("integer", "p1", "P1"), _row("note", "p2", "P2 ${a}")
    if placement in ("context-twice", "between") and ctx_name in CTX_ONCE:
        return None
    if placement in ("context-in-group", "both-in-group", "context-in-repeat-broken-in-group") and ctx_name in CTX_TOP_ONLY:
        return None
    if placement in ("broken-in-repeat", "both-in-group", "context-in-repeat-broken-in-group") and b["type"] in ("audit", "background-audio"):
        return None
    if ctx_name in CTX_ONCE and b["type"] == "audit":
        return None
    if placement == "after":
        rows = [a, *c1, b]
    elif placement == "after-far":
        rows = [a, *c1, pad1, None, pad2, b]
    elif placement == "before":
        rows = [a, b, *c1]
    elif placement == "context-in-group":
        rows = [a, _row("begin group", "g", "G"), *c1, _row("end group"), b]
    elif placement == "broken-in-repeat":
        rows = [a, *c1, _row("begin repeat", "r", "R"), pad1, b, _row("end repeat")]
    elif placement == "both-in-group":
        rows = [a, _row("begin group", "g", "G"), *c1, pad1, b, _row("end group")]
    elif placement == "context-twice":
        rows = [a, *c1, *mk("2"), *mk("3"), b]
    elif placement == "between":
        rows = [a, *c1, b, *mk("2")]
    elif placement == "context-in-repeat-broken-in-group":
        rows = [a, _row("begin repeat", "r", "R"), *c1, _row("end repeat"), _row("begin group", "g", "G"), pad1, b, _row("end group")]
    else:
        raise ValueError(placement)
    return rows, next(i for i, r in enumerate(rows) if r is b)


def _ctx_wb(rows):
    ext = any(r and str(r.get("type") or "").startswith("select_one_external") for r in rows)
    return _wb(rows, CHOICES, extra=CTX_EXT if ext else None)


def _ctx_case(kind, tag, rows, site, mentions=None):
    c = Case(f"C17-ctx-{kind}:{tag}", wb=_ctx_wb(rows), origin="C17", tags={"mutation", "context", kind})
    c.expect = {"kind": kind, "rows": {site + 2}, "mentions": mentions}
    return c


def _foreign_cells(t, names):
    """Broken `parameters` cells for type t: each name (not documented for t) alone, with a well-formed value."""
    out = []
    for p in names:
        if p in PARAM_DOC[t] or (t, p) in PARAM_UNDEMANDED:
            continue
        out.append((p, f"{p}={PARAM_VALUE.get(p, '1')}"))
    return out


ALL_PARAM_NAMES = sorted(PARAM_VALUE)
# broken rows of other catalogued kinds (kind, tag, row): each is broken on its own, whatever surrounds it
OTHER_BROKEN = [
    ("unknown-type", "textt", lambda: _row("textt", "z", "Z")),
    ("unknown-type", "select_one-without-list", lambda: _row("select_one", "z", "Z")),
    ("unknown-type", "select_one_from_file-without-file", lambda: _row("select_one_from_file", "z", "Z")),
    ("missing-list", "select_one", lambda: _row("select_one nolist", "z", "Z")),
    ("missing-list", "select_multiple", lambda: _row("select_multiple nolist", "z", "Z")),
    ("missing-list", "rank", lambda: _row("rank nolist", "z", "Z")),
    ("invalid-list-file", "select_one_from_file f.txt", lambda: _row("select_one_from_file f.txt", "z", "Z")),
    ("invalid-list-file", "select_multiple_from_file f", lambda: _row("select_multiple_from_file f", "z", "Z")),
    ("missing-calculation", "calculate", lambda: _row("calculate", "z", None)),
    ("invalid-name", "1z", lambda: _row("text", "1z", "Z")),
    ("invalid-name", "select z z", lambda: _row("select_one l", "z z", "Z")),
    ("missing-name", "select", lambda: _row("select_one l", None, "Z")),
    ("unknown-ref", "relevant", lambda: _row("text", "z", "Z", relevant="${nope} = 1")),
    ("unknown-ref", "choice_filter", lambda: _row("select_one l", "z", "Z", choice_filter="name = ${nope}")),
    ("or-other-with-choice-filter", "select_one", lambda: _row("select_one l or_other", "z", "Z", choice_filter="name = ${a}")),
]


def context_cases(tier: str, seed: int) -> list[Case]:
    thorough = tier == "thorough"
    out = []
    types = list(PARAM_DOC)
    ctxs = list(CONTEXTS)

    # (0) the surroundings themselves are valid: every context in every arrangement with a harmless row as `b`
    for cn in ctxs:
        for pl in PLACEMENTS:
            b = _row("text", "z", "Z")
            placed = _place(pl, cn, b)
            if placed is None:
                continue
            c = Case(f"C17-ctx-base:{cn}|{pl}", wb=_ctx_wb(placed[0]), origin="C17", tags={"base", "context"})
            c.expect = {"kind": "base", "accept": True}
            out.append(c)
    for t in types:       # and every target type with its own legitimate cell is valid after every context
        for cn in ctxs:
            if not thorough and (types.index(t) + ctxs.index(cn)) % 3:
                continue
            placed = _place("after", cn, _typed_row(t, "z", PARAM_OWN_CELL[t]))
            if placed is None:
                continue
            c = Case(f"C17-ctx-base:{cn}|after|{t}|own-parameters", wb=_ctx_wb(placed[0]), origin="C17", tags={"base", "context"})
            c.expect = {"kind": "base", "accept": True}
            out.append(c)

    # (1) the broken rows on their own (no context): the reference point of the family
    broken_alone = []
    for t in types:
        for p, cell in _foreign_cells(t, ALL_PARAM_NAMES + PARAM_NONSENSE):
            broken_alone.append(("bad-parameters", f"{t}|{cell}", (lambda t=t, cell=cell: _typed_row(t, "z", cell)), [p, "parameter"]))
        for cell in PARAM_BAD_VALUE.get(t, []):
            broken_alone.append(("bad-parameters", f"{t}|{cell}", (lambda t=t, cell=cell: _typed_row(t, "z", cell)), None))
    for kind, tag, mk in OTHER_BROKEN:
        broken_alone.append((kind, tag, mk, None))
    for kind, tag, mk, mentions in broken_alone:
        b = mk()
        rows = [_row("text", "a", "A"), b]
        out.append(_ctx_case(kind, f"alone|{tag}", rows, 1, mentions))

    # (2) valid row(s) of kind A, then a broken row of kind B
    n = 0
    for ci, cn in enumerate(ctxs):
        home = CONTEXTS[cn][0]
        related = sorted(PARAM_DOC[home]) if home else []
        for ti, t in enumerate(types):
            # names that are legitimate on the context's rows but not on this row, then every other foreign name
            cells = _foreign_cells(t, related)
            rest = [x for x in _foreign_cells(t, ALL_PARAM_NAMES + PARAM_NONSENSE) if x not in cells]
            if thorough:
                cells = cells + rest
            else:
                cells = cells + [rest[(ci + ti) % len(rest)]]
            # a foreign name next to the type's own legitimate names, in both orders
            combos = []
            for p, cell in cells[: (None if thorough else 1)]:
                combos.append((p, f"{PARAM_OWN_CELL[t]} {cell}"))
                combos.append((p, f"{cell} {PARAM_OWN_CELL[t]}"))
            if thorough:
                combos += [(p, cell.upper()) for p, cell in cells[:2]]      # names are case-insensitive
            bad_values = [(None, c) for c in PARAM_BAD_VALUE.get(t, [])]
            for k, (p, cell) in enumerate(cells + combos + bad_values):
                if thorough:
                    pls = PLACEMENTS
                elif k < len(cells):
                    pls = ["after", PLACEMENTS[1 + (n % (len(PLACEMENTS) - 1))]]
                else:
                    pls = [PLACEMENTS[n % len(PLACEMENTS)]]
                n += 1
                for pl in pls:
                    b = _typed_row(t, "z", cell)
                    placed = _place(pl, cn, b)
                    if placed is None:
                        continue
                    out.append(_ctx_case("bad-parameters", f"{cn}|{pl}|{t}|{cell}", placed[0], placed[1],
                                         [p, "parameter"] if p else None))
        for oi, (kind, tag, mk) in enumerate(OTHER_BROKEN):
            for pi, pl in enumerate(PLACEMENTS):
                if not thorough and (ci + oi + pi) % 3:
                    continue
                b = mk()
                placed = _place(pl, cn, b)
                if placed is None:
                    continue
                out.append(_ctx_case(kind, f"{cn}|{pl}|{tag}", placed[0], placed[1]))

    # (3) two different kinds of valid rows, then the broken row (names legitimate on either of them)
    rnd = random.Random(seed * 104729 + 171)
    pairs = [(c1, c2) for c1 in ctxs for c2 in ctxs if c1 != c2 and not (c1 in CTX_ONCE and c2 in CTX_ONCE)]
    if not thorough:
        pairs = rnd.sample(pairs, 60)
    for c1, c2 in pairs:
        names = sorted({p for c in (c1, c2) if CONTEXTS[c][0] for p in PARAM_DOC[CONTEXTS[c][0]]})
        tsel = types if thorough else rnd.sample(types, 4)
        for t in tsel:
            if t == "audit" and (c1 in CTX_ONCE or c2 in CTX_ONCE):
                continue
            cells = _foreign_cells(t, names) or _foreign_cells(t, PARAM_NONSENSE[:1])
            if not thorough:
                cells = cells[:2]
            for p, cell in cells:
                b = _typed_row(t, "z", cell)
                rows = [_row("text", "a", "A"), *CONTEXTS[c1][1]("1"), *CONTEXTS[c2][1]("2"), b]
                out.append(_ctx_case("bad-parameters", f"{c1}+{c2}|after|{t}|{cell}", rows, len(rows) - 1, [p, "parameter"]))
    return out


# ----------------------------------------------------------------------------- header structure and vocabulary (clause N)
# "For any input whatsoever the only outcomes are a result or that error type": every family above keeps the HEADERS of
# the sheets fixed and varies the cells.  This family varies the structure and the vocabulary of one column header of
# one sheet at a time, on forms that are otherwise small valid forms of the sheet's kind:
#   * every documented column of the sheet with 0-3 extra parts joined by `::` and by `:`, with empty parts (`label::`,
#     `::label`, `label::::en`), with a language part and with a second language column;
#   * headers that are Python-level names of the implementation and not columns (slot names of the element classes,
#     constructor argument names, method names, dunder-like and underscore-prefixed names, names with a dot).
# The header is an EXTRA column (cell filled with plain text on the target rows; once with no cell filled), or it REPLACES
# the base column of the same name (keeping that column's cells).  The only demand is clause N (no `expect` but on the
# base forms, which are valid by construction and must be accepted).  Forms are handed over as Markdown text, so every
# header/cell reaches the converter the way a spreadsheet reader delivers it.
#
# The column lists are DATA for generating inputs: the XLSForm reference tables plus the spellings pyxform knows
# (constants.py, aliases.py *_header, the header_columns / headers_parts tables of xls2json.workbook_to_json).

HDR_TEXT = "v"
HDR_COLUMNS = {
    "survey": [
        "type", "name", "label", "hint", "guidance_hint", "appearance", "required", "required_message", "relevant",
        "constraint", "constraint_message", "calculation", "default", "read_only", "readonly", "trigger", "choice_filter",
        "parameters", "repeat_count", "image", "big-image", "audio", "video", "autoplay", "rows", "save_to", "sms_field",
        "sms_option", "sms_separator", "sms_allow_media", "sms_date_format", "sms_datetime_format", "sms_response",
        "compact_tag", "query", "disabled", "count", "jr:count", "caption", "command", "tag", "value", "relevance",
        "calculate", "constraining_message", "noapperrorstring", "no_app_error_string", "requiredmsg", "media", "bind",
        "body", "control", "instance", "list_name", "constraint message", "required message",
        "media::image", "media::audio", "media::video", "media::big-image", "bind::type", "bind::relevant",
        "bind::jr:constraintMsg", "bind::jr:requiredMsg", "bind::jr:noAppErrorString", "bind::foo", "bind::nodeset",
        "body::accuracyThreshold", "body::intent", "body::appearance", "body::jr:count", "body::tag", "body::nodeset",
        "control::appearance", "instance::odk:tag", "instance::foo",
    ],
    "choices": ["list_name", "list name", "name", "label", "image", "big-image", "audio", "video", "media", "media::image",
                "media::audio", "caption", "value", "sms_option", "geometry", "state"],
    "settings": ["form_title", "form_id", "version", "default_language", "public_key", "submission_url", "instance_name",
                 "instance_xmlns", "style", "namespaces", "name", "allow_choice_duplicates", "auto_send", "auto_delete",
                 "attribute", "attribute::foo", "sms_keyword", "sms_separator", "sms_allow_media", "sms_date_format",
                 "sms_datetime_format", "sms_response", "prefix", "delimiter", "clean_text_values", "add_none_option",
                 "omit_instanceID", "id_string", "title", "set_form_id", "set_form_title"],
    "entities": ["list_name", "dataset", "label", "entity_id", "create_if", "update_if", "repeat", "name", "type",
                 "parameters"],
    "external_choices": ["list_name", "list name", "name", "label", "state", "caption", "value", "image", "media::image"],
    "osm": ["list_name", "list name", "name", "label", "caption", "value", "image", "media::image", "state"],
}
# Python-level names (not columns of any sheet; a few coincide with a column and are then simply probed twice)
HDR_PY_NAMES = [
    # slots: SURVEY_ELEMENT_FIELDS / *_EXTRA_FIELDS of survey_element.py, question.py, section.py, survey.py, entities
    "parent", "extra_data", "_survey_element_xpath", "_qtd_defaults", "_qtd_kwargs", "action", "query", "trigger", "bind",
    "control", "media", "instance", "choices", "itemset", "children", "_choice_itext_ref", "flat", "_created",
    "_translations", "_xpath", "attribute", "entity_features", "setgeopoint_by_triggering_ref",
    "setvalues_by_triggering_ref", "file_name", "id_string", "title", "options", "requires_itext", "used_by_search",
    # constructor / builder argument names and keys of the JSON form
    "fields", "kwargs", "self", "cls", "args", "question_type_dictionary", "tags", "columns", "sections", "survey",
    "question", "choice", "group", "repeat", "loop", "meta", "entity", "list name", "sms_keyword",
    # attribute and method names of the element classes and of the Mapping protocol
    "xml", "validate", "keys", "items", "values", "get", "to_json_dict", "iter_descendants", "get_xpath", "build_xml",
    "xml_control", "xml_instance", "xml_bindings", "get_slot_names", "any_repeat",
    # dunder-like and underscore-prefixed
    "__row", "__init__", "__class__", "__dict__", "__slots__", "__name__", "__setattr__", "__getitem__", "__len__", "__doc__",
    "_", "__", "_name", "_label", "_type", "_x", "_header", "_row",
    # with a dot
    "a.b", "label.en", "self.name", "bind.type", "survey.children", "x.", ".x", "a..b",
]


def _hdr_introspected():
    """Names the implementation itself declares (slots, constructor arguments), so that a field added later is probed
    without editing this file.  Input generation only; nothing is expected of these names."""
    names = set()
    try:
        import importlib
        import inspect

        for mod in ("pyxform.survey_element", "pyxform.question", "pyxform.section", "pyxform.survey",
                    "pyxform.entities.entity_declaration", "pyxform.external_instance"):
            m = importlib.import_module(mod)
            for _, cls in sorted(vars(m).items()):
                if not inspect.isclass(cls) or not getattr(cls, "__module__", "").startswith("pyxform"):
                    continue
                for k in cls.__mro__:
                    if not k.__module__.startswith("pyxform"):
                        continue
                    s = k.__dict__.get("__slots__", ())
                    names.update([s] if isinstance(s, str) else s)
                if hasattr(cls, "get_slot_names"):
                    names.update(cls.get_slot_names())
                try:
                    names.update(inspect.signature(cls.__init__).parameters)
                except (TypeError, ValueError):
                    pass
    except Exception:  # noqa: BLE001  (a tree that cannot be introspected: the static list stands)
        return []
    return sorted(n for n in names if isinstance(n, str) and n and n == n.strip() and "|" not in n)


def _hdr_shapes(col, thorough, wide=True):
    """[(tag, [headers])]: `col` alone, with 1-3 extra parts joined by '::' and by ':', with empty parts, with languages.
    thorough: more kinds of parts (a media type, a bind attribute, a prefixed attribute, the default-language key ...);
    wide=False keeps the language parts only (used for the Python-level names)."""
    out = [("plain", [col])]
    chains = [("en", "fr", "x")]
    if thorough and wide:
        chains += [("English (en)", "French (fr)"), ("image", "en"), ("type", "en"), ("jr:constraintMsg", "en"), ("foo", "bar"),
                   ("default", "en"), ("appearance", "en")]
    for ch in chains:
        for d in ("::", ":"):
            for n in range(1, len(ch) + 1):
                out.append((f"+{n}x{d}{ch[0]}", [col + d + d.join(ch[:n])]))
    empties = [col + "::", "::" + col, col + "::::en"]
    if thorough:
        empties += [col + ":", ":" + col, col + "::en::", "::" + col + "::en", col + "::::", col + ":::en", "::::" + col]
    out += [("empty-part", [h]) for h in empties]
    langs = [[col + "::en", col + "::fr"]]
    if thorough:
        langs += [[col + ":en", col + ":fr"], [col, col + "::en"], [col + "::en", col], [col + "::en", col + "::fr", col + "::de"],
                  [col + "::English (en)", col + "::French (fr)"], [col + "::en", col + ":fr"]]
    out += [("languages", hs) for hs in langs]
    return out


def _hdr_survey_kinds(thorough):
    """kind -> rows (type, name, label) of a target question or section; the FIRST row of each is the target row."""
    kinds = {
        "text": [("text", "q", "Q")],
        "select_one": [("select_one l", "q", "Q")],
        "select_multiple": [("select_multiple l", "q", "Q")],
        "osm": [("osm o", "q", "Q")],
        "osm-no-tags": [("osm", "q", "Q")],
        "background-audio": [("background-audio", "q", None)],
        "range": [("range", "q", "Q")],
        "group": [("begin group", "q", "Q"), ("text", "i", "I"), ("end group", None, None)],
        "repeat": [("begin repeat", "q", "Q"), ("text", "i", "I"), ("end repeat", None, None)],
    }
    if thorough:
        kinds.update({
            "integer": [("integer", "q", "Q")], "note": [("note", "q", "Q")], "rank": [("rank l", "q", "Q")],
            "select_one_from_file": [("select_one_from_file f.csv", "q", "Q")], "image": [("image", "q", "Q")],
            "geopoint": [("geopoint", "q", "Q")], "audit": [("audit", "audit", None)], "hidden": [("hidden", "q", None)],
            "start": [("start", "q", None)], "xml-external": [("xml-external", "q", None)],
            "or_other": [("select_one l or_other", "q", "Q")], "trigger": [("acknowledge", "q", "Q")],
            "loop": [("begin loop over l", "q", "Q"), ("text", "i", "I"), ("end loop", None, None)],
        })
    return kinds


HDR_CHOICES = (["list_name", "name", "label"], [["l", "x", "X"], ["l", "y", "Y"]])
HDR_OSM = (["list_name", "name", "label"], [["o", "building", "Building"], ["o", "highway", "Highway"]])
HDR_EXT = (["list_name", "name", "label", "state"], [["ext", "z", "Z", "s1"], ["ext", "w", "W", "s2"]])


def _hdr_lang(wb, sheets):
    """The same workbook with `label` spelt `label::en` on the given sheets (so another header of the sheet has '::')."""
    out = wb.copy()
    for s in sheets:
        h, rows = out[s]
        out[s] = (["label::en" if x == "label" else x for x in h], rows)
    return out


def _hdr_survey_wb(rows, extra=None):
    wb = WB()
    wb["survey"] = (["type", "name", "label"], [list(r) for r in rows])
    words = [str(r[0]).split() for r in rows]
    if any("l" in w[1:] for w in words):                      # select_one l, rank l, begin loop over l, ...
        wb["choices"] = (list(HDR_CHOICES[0]), [list(r) for r in HDR_CHOICES[1]])
    if ["osm", "o"] in words:
        wb["osm"] = (list(HDR_OSM[0]), [list(r) for r in HDR_OSM[1]])
    for k, v in (extra or {}).items():
        wb[k] = (list(v[0]), [list(r) for r in v[1]])
    return wb


def _hdr_frames(thorough):
    """sheet -> [(kind, valid workbook, indices of the target rows on that sheet)]; the first frame of a sheet is the
    one used for the empty-cell cases, `all` (survey) fills the cell on one row of every kind at once."""
    A = ("text", "a", "A")
    frames = {s: [] for s in HDR_COLUMNS}
    kinds = _hdr_survey_kinds(thorough)
    for kind, rows in kinds.items():
        frames["survey"].append((kind, _hdr_survey_wb([A, *rows]), [1]))
    rows, targets = [A], []
    for n, (kind, krows) in enumerate(kinds.items()):
        if kind in ("audit",):
            continue
        targets.append(len(rows))
        rows += [(t, (f"{nm}{n}" if nm else nm), lb) for t, nm, lb in krows]
    frames["survey"].append(("all", _hdr_survey_wb(rows), targets))
    tr = _hdr_survey_wb([A, ("select_one l", "q", "Q"), ("begin repeat", "r", "R"), ("text", "i", "I"), ("end repeat", None, None)])
    frames["survey"].append(("translated", _hdr_lang(tr, ["survey", "choices"]), [1, 2]))
    in_loop = [A, ("begin loop over l", "g", "G"), ("text", "q", "Q"), ("end loop", None, None)]
    frames["survey"].append(("in-loop", _hdr_survey_wb(in_loop), [2]))
    if thorough:
        nested = [A, ("begin group", "g", "G"), ("begin repeat", "r", "R"), ("text", "q", "Q"), ("end repeat", None, None),
                  ("end group", None, None)]
        frames["survey"].append(("inner", _hdr_survey_wb(nested), [3]))
        frames["survey"].append(("end-row", _hdr_survey_wb(nested), [4, 5]))

    sel = {"select_one": "select_one l", "select_multiple": "select_multiple l", "rank": "rank l", "or_other": "select_one l or_other"}
    for kind, t in sel.items():
        frames["choices"].append((kind, _hdr_survey_wb([A, (t, "q", "Q")]), [0, 1]))
    wb = _hdr_survey_wb([A, ("select_one l", "q", "Q")])
    wb["survey"] = (["type", "name", "label", "choice_filter"], [["text", "a", "A", None], ["select_one l", "q", "Q", "name != ${a}"]])
    frames["choices"].append(("filtered", wb, [0, 1]))
    frames["choices"].append(("translated", _hdr_lang(_hdr_survey_wb([A, ("select_multiple l", "q", "Q")]), ["survey", "choices"]), [0, 1]))
    if thorough:
        frames["choices"].append(("first-row-only", _hdr_survey_wb([A, ("select_one l", "q", "Q")]), [0]))
        frames["choices"].append(("two-questions", _hdr_survey_wb([A, ("select_one l", "q", "Q"), ("select_multiple l", "q2", "Q2")]), [1]))

    forms = {
        "text": _hdr_survey_wb([A]),
        "reference": _hdr_survey_wb([A, ("note", "n", "N ${a}")]),
        "select": _hdr_survey_wb([A, ("select_one l", "q", "Q")]),
        "nested": _hdr_survey_wb([A, ("begin group", "g", "G"), ("begin repeat", "r", "R"), ("text", "q", "Q ${a}"),
                                  ("end repeat", None, None), ("end group", None, None)]),
        "translated": _hdr_lang(_hdr_survey_wb([A, ("select_one l", "q", "Q ${a}")]), ["survey", "choices"]),
        "translated-text": _hdr_lang(_hdr_survey_wb([A, ("note", "n", "N ${a}")]), ["survey"]),
    }
    if thorough:
        forms["osm"] = _hdr_survey_wb([A, ("osm o", "q", "Q")])
        forms["entities"] = _hdr_survey_wb([A], extra={"entities": (["list_name", "label"], [["e", "${a}"]])})
    for kind, wb in forms.items():
        wb = wb.copy()
        wb["settings"] = (["form_id"], [["f"]])
        frames["settings"].append((kind, wb, [0]))

    frames["entities"].append(("create", _hdr_survey_wb([A], extra={"entities": (["list_name", "label"], [["e", "${a}"]])}), [0]))
    frames["entities"].append(("update", _hdr_survey_wb([A], extra={"entities": (["list_name", "entity_id"], [["e", "${a}"]])}), [0]))
    wb = _hdr_survey_wb([A], extra={"entities": (["list_name", "label"], [["e", "${a}"]])})
    wb["survey"] = (["type", "name", "label", "save_to"], [["text", "a", "A", "p1"], ["begin group", "g", "G", None],
                                                           ["integer", "b", "B", "p2"], ["end group", None, None, None]])
    frames["entities"].append(("save_to", wb, [0]))

    wb = _hdr_survey_wb([A], extra={"external_choices": HDR_EXT})
    wb["survey"] = (["type", "name", "label", "choice_filter"], [["text", "a", "A", None], ["select_one_external ext", "q", "Q", "state=${a}"]])
    frames["external_choices"].append(("external", wb, [0, 1]))
    wb2 = wb.copy()
    wb2["survey"][1].append(["select_one l", "p", "P", None])
    wb2["choices"] = (list(HDR_CHOICES[0]), [list(r) for r in HDR_CHOICES[1]])
    frames["external_choices"].append(("external+choices", wb2, [0, 1]))

    frames["osm"].append(("osm", _hdr_survey_wb([A, ("osm o", "q", "Q")]), [0, 1]))
    frames["osm"].append(("osm-in-repeat", _hdr_survey_wb([A, ("begin repeat", "r", "R"), ("osm o", "q", "Q"), ("end repeat", None, None)]), [0, 1]))
    if thorough:
        frames["osm"].append(("osm-first-row-only", _hdr_survey_wb([A, ("osm o", "q", "Q")]), [0]))
        frames["osm"].append(("osm+select", _hdr_survey_wb([A, ("osm o", "q", "Q"), ("select_one l", "s", "S")]), [0, 1]))
    return frames


def _hdr_apply(wb, sheet, targets, headers, cell, replace=None, front=False):
    """`wb` with the headers added to `sheet` (cell on the target rows), or put in place of the base header `replace`."""
    out = wb.copy()
    h, rows = out[sheet]
    if replace is not None:
        i = h.index(replace)
        if len(headers) == 1:
            h[i] = headers[0]
        else:       # two or more language columns in place of one: the base cells go to the first of them
            h[i: i + 1] = headers
            for r in rows:
                r[i + 1: i + 1] = [None] * (len(headers) - 1)
        return out
    for r in rows:
        while len(r) < len(h):
            r.append(None)
    for k, hd in enumerate(headers):
        at = k if front else len(h)
        h.insert(at, hd)
        for n, r in enumerate(rows):
            r.insert(at, cell if n in targets else None)
    return out


def _hdr_pick(fs, start, k):
    """k of the frames, spread over the list, beginning at a rotating position (all of them when k >= len)."""
    order = sorted(range(len(fs)), key=lambda i: (((i - start) % len(fs)) * 7) % len(fs))
    return [fs[i] for i in order[:k]]


def header_cases(tier: str, seed: int) -> list[Case]:
    thorough = tier == "thorough"
    out, seen = [], set()
    frames = _hdr_frames(thorough)

    def add(tag, wb):
        md = corpus.wb_to_md(wb)
        if md in seen:
            return
        seen.add(md)
        out.append(Case(f"C17-header:{tag}", md=md, origin="C17", tags={"header"}))

    for sheet, fs in frames.items():                       # the forms the headers are put on are valid
        for kind, wb, _ in fs:
            c = Case(f"C17-header-base:{sheet}|{kind}", md=corpus.wb_to_md(wb), origin="C17", tags={"base", "header"})
            c.expect = {"kind": "base", "accept": True}
            out.append(c)

    py_names = [n for n in HDR_PY_NAMES]
    py_names += [n for n in _hdr_introspected() if n not in py_names]
    for sheet, fs in frames.items():
        single = [f for f in fs if f[0] != "all"]
        vocab = [(c, "column") for c in HDR_COLUMNS[sheet]] + [(c, "python") for c in py_names if c not in HDR_COLUMNS[sheet]]
        for ci, (col, origin) in enumerate(vocab):
            shapes = _hdr_shapes(col, thorough, wide=origin == "column")
            core = {tuple(hs) for _, hs in _hdr_shapes(col, False)}          # the shapes of the quick tier
            if origin == "python" and not thorough:
                keep = ("plain", "+1x::en", "+1x:en") if sheet in ("survey", "settings") else ("plain", ("+1x::en", "+1x:en")[ci % 2])
                shapes = [s for s in shapes if s[0] in keep]
            for si, (stag, headers) in enumerate(shapes):
                # thorough: a documented column in the shapes of the quick tier, and a Python-level name alone, go on every
                # frame; a Python-level name in the shapes of the quick tier on eight frames; the rest on two or three.
                # quick: a Python-level name alone goes on every kind of row of the survey and on every kind of form for
                # the settings (two kinds for the choices, one for the other list sheets); every other (name, shape) goes
                # on one frame, rotating so that names and shapes meet every frame.
                is_core = tuple(headers) in core
                if thorough and origin == "column":
                    use = _hdr_pick(fs, ci + si, len(fs) if is_core else 3)
                elif thorough:
                    use = _hdr_pick(fs, ci + si, len(fs) if stag == "plain" else 8 if is_core else 2)
                elif origin == "python" and stag == "plain":
                    use = single if sheet in ("survey", "settings") else [fs[(ci + k) % len(fs)] for k in range(2 if sheet == "choices" else 1)]
                else:
                    use = [fs[(ci + si) % len(fs)]]
                with_empty_cell = thorough or stag in ("plain", "empty-part")
                for kind, wb, targets in use:
                    present = wb[sheet][0]
                    # a header that is already a column of this form cannot be added twice: only the others are added
                    extra = [h for h in headers if h not in present]
                    tag = f"{sheet}|{kind}|{'+'.join(headers)}"
                    if extra:
                        add(f"{tag}|extra", _hdr_apply(wb, sheet, targets, extra, HDR_TEXT))
                        if thorough and kind in ("all", fs[0][0]) and is_core and (origin == "column" or stag == "plain"):
                            add(f"{tag}|extra-front", _hdr_apply(wb, sheet, targets, extra, HDR_TEXT, front=True))
                            add(f"{tag}|extra-yes", _hdr_apply(wb, sheet, targets, extra, "yes"))
                    if col in present and extra == headers:
                        add(f"{tag}|replaces-{col}", _hdr_apply(wb, sheet, targets, headers, None, replace=col))
                # once with an empty cell: the header is there, no row has a value for it
                kind, wb, targets = fs[0]
                extra = [h for h in headers if h not in wb[sheet][0]]
                if extra and with_empty_cell:
                    add(f"{sheet}|{kind}|{'+'.join(headers)}|empty-cell", _hdr_apply(wb, sheet, [], extra, None))
    return out


def cases(tier: str, seed: int) -> list[Case]:
    thorough = tier == "thorough"
    # header cases first: the runner prints one line per key in the order found, and tools/run_e2e_seeded.sh shows the last
    # 15 lines only; the keys of clauses R and L (the ones a seeded change adds) then stay at the end, in view.
    return (header_cases(tier, seed) + mutation_cases(thorough) + vocabulary_cases(thorough) + context_cases(tier, seed)
            + fuzz_cases(tier, seed))


# ----------------------------------------------------------------------------- check


def check(case, res, ctx):
    if res.internal_error:
        e = res.error
        import traceback
        tb = traceback.extract_tb(e.__traceback__)
        site = next((f"{f.filename.split('/pyxform/')[-1]}:{f.name}" for f in reversed(tb) if "/pyxform/" in f.filename), "?")
        return [{"key": f"C17:internal-error:{type(e).__name__}:{site}", "what": f"{type(e).__name__}: {e}"}]
    exp = getattr(case, "expect", None)
    if not exp:
        return []
    kind = exp["kind"]
    if exp.get("accept"):
        if not res.ok:
            return [{"key": "C17:base-refused", "what": f"the valid base form was refused: {res.error}"}]
        return []
    if res.ok:
        return [{"key": f"C17:accepted:{kind}", "what": f"broken form ({case.name}) was not refused: an XForm was returned"}]
    msg = str(res.error)
    if not msg.strip():
        return [{"key": f"C17:empty-message:{kind}", "what": f"refused with an empty message ({case.name})"}]
    mentions = exp.get("mentions")
    if mentions and not any(m.lower() in msg.lower() for m in mentions):
        return [{"key": f"C17:unidentified:{kind}", "what": f"refused, but the message names neither of {mentions} ({case.name}): {msg[:200]!r}"}]
    want = exp.get("rows")
    if want:
        cited = {int(n) for n in RE_ROW.findall(msg)}
        if not cited:
            return [{"key": f"C17:no-row:{kind}", "what": f"the error belongs to row {sorted(want)} but the message cites no row: {msg[:200]!r}"}]
        if not (cited & want):
            return [{"key": f"C17:wrong-row:{kind}", "what": f"the error belongs to row {sorted(want)} but the message cites {sorted(cited)}: {msg[:200]!r}"}]
    return []


# ----------------------------------------------------------------------------- keys reported on the unchanged tree
# (documentation only, never used to filter anything; each was confirmed with the repro.py of the directory named)
KNOWN_DEFECTS = {
    "C17:internal-error:TypeError:survey.py:insert_output_values":
        "label + label::<other> + label::<default language> all filled, settings default_language set -> nested label dict; "
        "fix /verif/fixes/unsuffixed-and-default-language-cell",
    "C17:internal-error:TypeError:section.py:validate":
        "begin group/repeat/loop immediately followed by its end -> children None iterated; fix /verif/fixes/empty-group",
    "C17:internal-error:KeyError:xls2json.py:workbook_to_json":
        "select_multiple ${q} (choices from a repeat) -> choices['${q}']; fix /verif/fixes/select-multiple-from-repeat-ref",
    "C17:internal-error:KeyError:xls2json.py:add_choices_info_to_question":
        "select_one_external without choice_filter; finding /verif/fixes/select-one-external-unfiltered (a test asserts the KeyError)",
    "C17:internal-error:TypeError:xls2json.py:workbook_to_json":
        "osm <list> not defined on an existing osm sheet; fix /verif/fixes/osm-unknown-list",
    "C17:internal-error:AttributeError:section.py:generate_repeating_template":
        "xml-external / csv-external row inside a repeat; fix /verif/fixes/external-instance-in-repeat",
    "C17:internal-error:ExpatError:utils.py:node":
        "U+000B (any character XML 1.0 cannot carry) in a label that has a ${reference}; finding /verif/fixes/c17-control-char-with-reference",
    # -- header family.  One root cause for all but the last: a header equal to an internal field / constructor argument
    # name reaches the constructors as a keyword (finding /verif/fixes/c17-header-internal-field-name; reproductions
    # in FINDINGS_C17.md).  Header and sheet that reach each site:
    "C17:internal-error:TypeError:question.py:xml_action": "survey `action` (any question)",
    "C17:internal-error:ValueError:question.py:__init__": "survey `action` on background-audio",
    "C17:internal-error:TypeError:question.py:<genexpr>": "survey `children` / `tags` on osm; osm sheet `self`",
    "C17:internal-error:AttributeError:survey_element.py:__setattr__": "survey `fields` on a select / background-audio; choices `fields`",
    "C17:internal-error:TypeError:builder.py:_create_question_from_dict": "survey `question_type_dictionary` / `self` on a question",
    "C17:internal-error:TypeError:builder.py:_create_section_from_dict": "survey `self` on a group / repeat; settings `self`",
    "C17:internal-error:TypeError:builder.py:_create_loop_from_dict": "survey `self` on a loop (thorough)",
    "C17:internal-error:TypeError:builder.py:create_survey_element_from_dict": "survey `self` on xml-external (thorough)",
    "C17:internal-error:TypeError:question.py:get_options": "choices `self`",
    "C17:internal-error:AttributeError:xls2json.py:workbook_to_json": "settings `children`",
    "C17:internal-error:AttributeError:survey.py:get_pulldata_functions": "settings `bind`",
    "C17:internal-error:AttributeError:survey_element.py:__init__": "settings `control`",
    "C17:internal-error:ValueError:section.py:xml_instance": "settings `instance`",
    "C17:internal-error:TypeError:survey.py:__init__": "settings `fields`",
    "C17:internal-error:AttributeError:survey.py:_add_empty_translations": "settings `_translations`",
    "C17:internal-error:TypeError:survey.py:_setup_translations": "settings `_translations`, survey labels translated",
    "C17:internal-error:TypeError:survey.py:_add_to_nested_dict": "settings `_translations`, choice labels translated",
    # a different root cause (no finding directory yet; FINDINGS_C17.md): any header of three parts, the documented
    # image::en / media::image::en / constraint_message::en included, on a question inside `begin loop`
    "C17:internal-error:TypeError:builder.py:_name_and_label_substitutions":
        "question inside begin loop with a cell under a three-part header: dict %= dict",
    "C17:no-row:duplicate-name": "finding /verif/fixes/c17-no-row-duplicate-name",
    "C17:no-row:unknown-ref": "finding /verif/fixes/c17-no-row-unknown-ref",
    "C17:no-row:ambiguous-ref": "finding /verif/fixes/c17-no-row-ambiguous-ref",
    "C17:no-row:unknown-type": "finding /verif/fixes/c17-no-row-unknown-type",
    "C17:no-row:bad-parameters": "finding /verif/fixes/c17-no-row-bad-parameters",
}
# Crashes seen while writing the families but outside the property's domain (not generated, not demanded): the internal
# type name `entity` as a survey type, and dict input with whitespace-only or int cells (no spreadsheet reader produces
# those).  Not an error: a `note` without a name (one is generated), type `end` (metadata).
# Headers that override generated attributes (bind::nodeset, body::nodeset on a repeat) and headers with more or fewer
# parts than the column takes (label::en::x, name::en, bind) used to be listed here as "not generated": they crashed until
# /verif/fixes/c17-header-part-count, c17-generated-nodeset-attribute, c17-choices-column-delimiter and
# c17-osm-tag-without-name; header_cases() now generates all of them.
