"""C17 (bounded e2e): any input either converts or raises the library's own error type."""
from bounded import corpus

USES_DEFAULT_CORPUS = True


def check(case, res, ctx):
    if res.internal_error:
        e = res.error
        import traceback
        tb = traceback.extract_tb(e.__traceback__)
        site = next((f"{f.filename.split('/pyxform/')[-1]}:{f.name}" for f in reversed(tb) if "/pyxform/" in f.filename), "?")
        return [{"key": f"C17:internal-error:{type(e).__name__}:{site}", "what": f"{type(e).__name__}: {e}"}]
    return []
