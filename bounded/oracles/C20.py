"""C20 (bounded e2e): advisory warnings fire exactly when their trigger is present, name the right subject,
and never alter the conversion result.

For every converted form the triggers of the documented warnings are evaluated *on the source workbook* by the
code below (independent of pyxform) and compared with ConvertResult.warnings:

  missing-translation   for each sheet (survey, choices): if any translatable column carries a language, every
                        language in use (incl. the unnamed "default" one) must have every translatable column in
                        use on that sheet; each (sheet, language, column) gap is reported, nothing else.
  or-other              a processed select ... or_other row AND a language on a translatable column of either sheet.
  sheet-misspelling     settings / entities sheet missing: every other sheet whose lower-cased name is within
                        Levenshtein distance 2 (own implementation, corpus.x17_edit_distance), is not a supported
                        name and does not start with "_" is listed; nothing else is.
  iana                  languages whose name does not end in "(code)" with a registered IANA subtag.
  max-pixels            image questions without the max-pixels parameter (row number).
  deprecated            simserial / subscriberid rows (row number and type).
  unlabeled-control     begin group / begin repeat rows without any label (row number, kind).
  unlabeled-choice      choices rows with a name and no label (row number).
  disabled              rows with a value in the `disabled` column (row number).
  dup-id-header         settings sheet with both form_id and id_string headers.

Row-level triggers are additionally placed at every position relative to rows of related kinds (all sequences up to
length 3/4 over small alphabets of selects with/without or_other, images with/without max-pixels, metadata types,
labelled/unlabelled containers, disabled cells, labelled/unlabelled choices incl. repeated names) in seven container
layouts and several language set-ups: a warning may depend on the presence of its trigger only, not on what precedes or
follows it (see order_cases).

Where the property text does not settle the expectation (aliased / single-colon headers, field-list groups, media on
groups, unknown language codes, two-letter language names ...) the oracle does not care either way.
"""
from __future__ import annotations

import itertools
import random
import re

from bounded import corpus
from bounded.corpus import Case, WB

USES_DEFAULT_CORPUS = True
N_GENERATED = {"quick": 150, "thorough": 1500}
TIME_BUDGET_S = {"quick": 100, "thorough": 1200}

SUPPORTED_SHEETS = {"survey", "choices", "settings", "external_choices", "osm", "entities"}
MEDIA_TYPES = ("image", "big-image", "audio", "video")
SURVEY_TRANSLATABLE = ("label", "hint", "guidance_hint", "constraint_message", "required_message", *MEDIA_TYPES)
CHOICES_TRANSLATABLE = ("label", *MEDIA_TYPES)
# aliases of translatable columns: expectation for the sheet is left open when they are used
ALIAS_HEADERS = {"caption", "constraining_message", "requiredmsg", "jr:constraintmsg", "jr:requiredmsg", "bind"}
VALID_CODES = {"en", "fr", "sw", "es", "de", "pt", "ar", "hi", "zh", "ru", "am", "so", "ny", "rw", "fil", "haw"}
INVALID_CODES = {"zz", "xx", "eng", "fra", "english", "e1", "swa"}
DEPRECATED_TYPES = {"simserial", "subscriberid"}
DEFAULT = "default"


def _v(key, what):
    return {"key": key, "what": what}


# ----------------------------------------------------------------------------- source model


def _snake(s):
    return "_".join(str(s).split()).lower()


def _lower_sheets(wb):
    out = {}
    for k, v in wb.items():
        lk = k.lower()
        if lk not in SUPPORTED_SHEETS:
            continue
        if lk in out:
            return None
        out[lk] = v
    return out


def _cells(sheet):
    """rows as {header: text} for non-empty cells (header text as written)."""
    headers, rows = sheet
    out = []
    for r in rows:
        d = {}
        for h, c in zip(headers, r):
            if h is None or c is None:
                continue
            t = str(c)
            if t.strip() == "":
                continue
            d[h] = t
        out.append(d)
    return out


def parse_header(header, translatable, double_colon):
    """-> None (not a translatable column) | ("?",) (do not know) | (column, language)."""
    h = str(header)
    if double_colon:
        toks = [t.strip() for t in h.split("::")]
    else:
        if ":" in h:
            return ("?",)
        toks = [h.strip()]
    first = _snake(toks[0])
    if first in ALIAS_HEADERS:
        return ("?",)
    if first == "media":
        if len(toks) >= 2 and toks[1] in MEDIA_TYPES:
            if len(toks) == 2:
                return (toks[1], DEFAULT)
            if len(toks) == 3:
                return (toks[1], toks[2])
        return ("?",)
    if first in translatable:
        if first != toks[0]:
            # normalised spelling (upper case, inner blanks): leave open
            return ("?",)
        if len(toks) == 1:
            return (first, DEFAULT)
        if len(toks) == 2:
            return (first, toks[1])
        return ("?",)
    return None


def sheet_translations(headers, translatable):
    """-> (seen {lang: set(cols)}, known: bool)."""
    hs = [h for h in headers if h is not None and str(h).strip() != ""]
    double = any("::" in str(h) for h in hs)
    seen, known = {}, True
    for h in hs:
        p = parse_header(h, translatable, double)
        if p is None:
            continue
        if p == ("?",):
            known = False
            continue
        col, lang = p
        if lang == "":
            known = False
            continue
        seen.setdefault(lang, set()).add(col)
    return seen, known


def expected_missing(seen):
    if not seen or set(seen) == {DEFAULT}:
        return set()
    cols = set().union(*seen.values())
    return {(lang, c) for lang, have in seen.items() for c in cols - have}


_SELECT_OTHER = re.compile(r"^(select_one|select_multiple|select one|select all that apply|select1|select one from|"
                           r"select all that apply from|add select one prompt using|add select multiple prompt using)"
                           r" (\S+) (or specify other|or_other|or other)$")


class Model:
    """What the source workbook says, as far as the warnings are concerned."""

    def __init__(self, wb, kwargs):
        self.ok = False
        sheets = _lower_sheets(wb)
        if sheets is None or "survey" not in sheets:
            return
        self.sheets = sheets
        self.sheet_names = list(wb.keys())
        self.outline, self.balanced = corpus.x17_outline(WB({"survey": sheets["survey"]}))
        self.survey_headers = [h for h in sheets["survey"][0] if h is not None]
        self.survey_rows = _cells(sheets["survey"])
        hl = [_snake(h) for h in self.survey_headers]
        # header spellings this oracle understands for the row-level columns
        self.h_type = [h for h in self.survey_headers if _snake(h) == "type"]
        self.plain = len(self.h_type) == 1 and "command" not in hl
        self.choices_rows = _cells(sheets["choices"]) if "choices" in sheets else []
        self.choices_headers = [h for h in sheets["choices"][0] if h is not None] if "choices" in sheets else []
        self.settings_rows = _cells(sheets["settings"]) if "settings" in sheets else []
        self.settings_headers = [h for h in sheets["settings"][0] if h is not None] if "settings" in sheets else []
        self.has = {k: any(bool(r) for r in _cells(sheets[k])) for k in sheets}
        self.kwargs = kwargs or {}
        self.ok = True

    # -- helpers
    def cell(self, idx, *names):
        row = self.survey_rows[idx]
        for h, v in row.items():
            if _snake(h) in names:
                return v
        return None

    def row_cols(self, idx, first_tokens):
        """non-empty cells of the row whose header's first token (split on ::) is in first_tokens."""
        out = {}
        for h, v in self.survey_rows[idx].items():
            first = _snake(str(h).split("::")[0].split(":")[0]) if ":" in str(h) else _snake(h)
            if first in first_tokens:
                out[h] = v
        return out

    def processed(self):
        """[(outline item, skipped_by_disabled)] in sheet order."""
        out = []
        for it in self.outline:
            d = self.cell(it["idx"], "disabled")
            out.append((it, d))
        return out


YES = {"yes", "Yes", "YES", "true", "True", "TRUE", "true()"}


def evaluate(wb, kwargs=None):
    """-> dict of expectations, or None if the workbook is outside what this oracle models.
    Each entry is (must: set, may: set) -- observed must satisfy must <= observed <= must | may -- or None."""
    m = Model(wb, kwargs)
    if not m.ok:
        return None
    E = {}
    # ---- translations
    sseen, sknown = sheet_translations(m.survey_headers, SURVEY_TRANSLATABLE)
    cseen, cknown = ({}, True)
    if m.has.get("choices"):
        cseen, cknown = sheet_translations(m.choices_headers, CHOICES_TRANSLATABLE)
    settings = m.settings_rows[0] if m.settings_rows else {}
    sett = {_snake(k): v for k, v in settings.items()}
    dl = sett.get("default_language") or m.kwargs.get("default_language")
    if dl is not None:
        # a default language re-labels the unnamed columns: what "missing" means is then open
        sknown = cknown = False
    E["missing"] = None
    if sknown and cknown:
        E["missing"] = ({("survey", l, c) for l, c in expected_missing(sseen)} |
                        {("choices", l, c) for l, c in expected_missing(cseen)}, set())
    # ---- rows
    rows_known = m.plain and m.balanced
    disabled, maxpix, deprecated, unl_must, unl_may, or_other = set(), set(), set(), set(), set(), False
    or_other_known = rows_known
    if rows_known:
        for it, dis in m.processed():
            idx, row = it["idx"], it["row"]
            if dis is not None:
                disabled.add(row)
                if dis.strip() in YES:
                    if it["kind"] in ("begin", "end"):
                        rows_known = False  # structure changes; leave everything row-level open
                        break
                    continue
            t = it["type"]
            if not t:
                continue
            if t in DEPRECATED_TYPES:
                deprecated.add((row, t))
            if t in ("image", "photo"):
                par = m.cell(idx, "parameters") or ""
                keys = {p.split("=")[0].strip().lower() for p in re.split(r"[;, ]+" if ";" not in par and "," not in par else r"[;,]", par) if "=" in p}
                if "max-pixels" not in keys:
                    maxpix.add(row)
            if it["kind"] == "begin" and it["control"] in ("group", "repeat"):
                has_label = bool(m.row_cols(idx, {"label", "caption"}))
                soft = bool(m.row_cols(idx, {"media", "image", "big-image", "audio", "video", "calculation", "calculate",
                                             "default", "bind"})) or "field-list" in (m.cell(idx, "appearance") or "")
                if not has_label:
                    (unl_may if soft else unl_must).add((row, it["control"].capitalize()))
            if _SELECT_OTHER.match(t):
                or_other = True
            elif "other" in t and t.split()[0].startswith(("select", "add")):
                or_other_known = False
    E["disabled"] = (disabled, set()) if rows_known else None
    E["max-pixels"] = (maxpix, set()) if rows_known else None
    E["deprecated"] = (deprecated, set()) if rows_known else None
    E["unlabeled-control"] = (unl_must, unl_may) if rows_known else None
    # ---- or_other
    E["or-other"] = None
    if rows_known and or_other_known and sknown and cknown:
        translated = any(l != DEFAULT for l in sseen) or any(l != DEFAULT for l in cseen)
        E["or-other"] = ({"or_other"} if (or_other and translated) else set(), set())
    # ---- unlabeled choices
    E["unlabeled-choice"] = None
    if m.has.get("choices") or "choices" in m.sheets:
        ch = [_snake(h) for h in m.choices_headers]
        simple = "name" in ch and ("list_name" in ch or "list name" in ch) and "value" not in ch and "caption" not in ch and \
            all(_snake(str(h).split(":")[0]) != "label" or str(h).strip() == "label" or str(h).startswith("label::")
                for h in m.choices_headers) and (sett.get("clean_text_values") in (None, "yes"))
        if simple:
            must = set()
            for i, r in enumerate(m.choices_rows):
                rr = {_snake(str(k).split("::")[0]): v for k, v in r.items()}
                if ("list_name" in rr or "list name" in rr) and "name" in rr and "label" not in rr:
                    must.add(i + 2)
            E["unlabeled-choice"] = (must, set())
    else:
        E["unlabeled-choice"] = (set(), set())
    # ---- duplicate id headers
    E["dup-id-header"] = None
    if "settings" in m.sheets:
        sh = [str(h) for h in m.settings_headers]
        if m.has.get("settings"):
            both = "form_id" in sh and "id_string" in sh
            filled = all(k in settings for k in ("form_id", "id_string"))
            if both and not filled:
                E["dup-id-header"] = None
            else:
                E["dup-id-header"] = ({"dup"} if both else set(), set())
        else:
            E["dup-id-header"] = (set(), set())
    else:
        E["dup-id-header"] = (set(), set())
    # ---- sheet misspellings
    mis = {}
    for key in ("settings", "entities"):
        if m.has.get(key):
            mis[key] = (set(), set())
            continue
        must = set()
        for name in m.sheet_names:
            if name.lower() in SUPPORTED_SHEETS and name not in SUPPORTED_SHEETS:
                # e.g. "Settings" with no data: leave open
                continue
            if name in SUPPORTED_SHEETS or name.startswith("_"):
                continue
            if corpus.x17_edit_distance(name.lower(), key) <= 2:
                must.add(name)
        mis[key] = (must, set())
    E["misspelling"] = mis
    # ---- IANA
    langs_all = {l for l in list(sseen) + list(cseen) if l != DEFAULT}
    sure = set()
    if rows_known:
        double = any("::" in str(h) for h in m.survey_headers)
        for it, dis in m.processed():
            if dis is not None and dis.strip() in YES:
                continue
            if it["kind"] not in ("question", "begin") or not it["type"]:
                continue
            for h in m.survey_rows[it["idx"]]:
                p = parse_header(h, SURVEY_TRANSLATABLE, double)
                if p and p != ("?",) and p[0] in ("label", "hint") and p[1] != DEFAULT:
                    sure.add(p[1])
    must, may = set(), set()
    for l in langs_all | ({dl} if dl else set()):
        verdict = iana_bad(l)
        if verdict is None:
            may.add(l)
        elif verdict:
            (must if (l in sure and sknown and cknown and dl is None) else may).add(l)
    if not (sknown and cknown):
        E["iana"] = None
    else:
        E["iana"] = (must, may)
    return E


def iana_bad(lang):
    """True: lacks a valid code; False: has one; None: this oracle does not know."""
    if lang == DEFAULT or len(lang) < 3:
        return None
    if "," in lang:
        return None
    mt = re.search(r"\(([^()]*)\)$", lang)
    if not mt:
        return None if ("(" in lang or ")" in lang) else True
    code = mt.group(1)
    if code in VALID_CODES:
        return False
    if code in INVALID_CODES:
        return True
    return None


# ----------------------------------------------------------------------------- reading the warnings

RE_MISSING = re.compile(r"^Language '(?P<lang>.*)' is missing the (?P<sheet>survey|choices) "
                        r"(?:(?P<one>\S+) column|columns (?P<many>.+))\.$")
RE_MISSPELL = re.compile(r"^When looking for a sheet named '(?P<key>[^']*)', the following sheets with similar names "
                         r"were found: (?P<names>.*?)\.( If you do not mean to include a sheet.*)?$", re.S)
RE_ROW = re.compile(r"^\[row : (\d+)\] (.*)$", re.S)


def observe(warnings):
    O = {"missing": set(), "or-other": set(), "misspelling": {}, "iana": set(), "max-pixels": set(), "deprecated": set(),
         "unlabeled-control": set(), "unlabeled-choice": set(), "disabled": set(), "dup-id-header": set(), "other": [],
         "dups": []}
    seen_w = set()
    for w in warnings or []:
        if not isinstance(w, str):
            O["other"].append(repr(w))
            continue
        if w in seen_w:
            O["dups"].append(w)
        seen_w.add(w)
        lines = w.split("\n")
        if all(RE_MISSING.match(x) for x in lines):
            for x in lines:
                g = RE_MISSING.match(x)
                cols = [g.group("one")] if g.group("one") else [c.strip() for c in g.group("many").split(",")]
                for c in cols:
                    O["missing"].add((g.group("sheet"), g.group("lang"), c))
            continue
        if w.startswith("This form uses or_other and translations"):
            O["or-other"].add("or_other")
            continue
        g = RE_MISSPELL.match(w)
        if g:
            names = re.findall(r"'((?:[^']|'(?!, '|$))*)'(?:, |$)", g.group("names"))
            O["misspelling"].setdefault(g.group("key"), []).extend(names)
            continue
        if w.startswith("The following language declarations do not contain valid machine-readable codes: "):
            body = w[len("The following language declarations do not contain valid machine-readable codes: "):]
            body = body.split(". Learn more")[0]
            O["iana"].update(x for x in body.split(", "))
            continue
        if w.startswith("The form_id and id_string column headers are both"):
            O["dup-id-header"].add("dup")
            continue
        g = RE_ROW.match(w)
        if g:
            row, rest = int(g.group(1)), g.group(2)
            if rest.startswith("Use the max-pixels parameter"):
                O["max-pixels"].add(row)
                continue
            mt = re.match(r"^(\S+) is no longer supported on most devices", rest)
            if mt:
                O["deprecated"].add((row, mt.group(1)))
                continue
            mt = re.match(r"^(Group|Repeat|Loop) has no label", rest)
            if mt:
                O["unlabeled-control"].add((row, mt.group(1)))
                continue
            if rest.startswith("On the 'choices' sheet, the 'label' value is invalid"):
                O["unlabeled-choice"].add(row)
                continue
            if rest.startswith("The 'disabled' column header"):
                O["disabled"].add(row)
                continue
        O["other"].append(w)
    return O


# ----------------------------------------------------------------------------- check


def _cmp(cat, exp, obs, V, fmt=str):
    if exp is None:
        return
    must, may = exp
    lost = must - obs
    spurious = obs - must - may
    if lost:
        V(f"C20:{cat}:not-warned", f"trigger present but no warning for {sorted(map(fmt, lost))[:6]}; warned: {sorted(map(fmt, obs))[:8]}")
    if spurious:
        V(f"C20:{cat}:spurious", f"warning without trigger / wrong subject: {sorted(map(fmt, spurious))[:6]}; expected: {sorted(map(fmt, must))[:8]}")


def check(case, res, ctx):
    out = []

    def V(key, what):
        out.append(_v(key, what))

    mine = case.origin == "C20"
    if not res.ok:
        if mine and "expect-reject" not in case.tags:
            e = res.error
            V(f"C20:trigger-rejected:{case.name.split('-')[1] if case.name.startswith('C20-') else 'form'}",
              f"a form that only carries warning triggers was refused: {type(e).__name__}: {str(e)[:200]}")
        return out
    wb = corpus.x17_case_wb(case)
    if wb is None:
        return out
    try:
        E = evaluate(wb, case.kwargs)
    except Exception:  # noqa: BLE001
        if mine:
            raise
        return out
    if E is None:
        return out
    O = observe(res.warnings)
    _cmp("missing-translation", E["missing"], O["missing"], V)
    _cmp("or-other", E["or-other"], O["or-other"], V)
    _cmp("iana", E["iana"], O["iana"], V)
    _cmp("max-pixels", E["max-pixels"], O["max-pixels"], V, fmt=lambda r: f"row {r}")
    _cmp("deprecated", E["deprecated"], O["deprecated"], V)
    _cmp("unlabeled-control", E["unlabeled-control"], O["unlabeled-control"], V)
    _cmp("unlabeled-choice", E["unlabeled-choice"], O["unlabeled-choice"], V, fmt=lambda r: f"row {r}")
    _cmp("disabled", E["disabled"], O["disabled"], V, fmt=lambda r: f"row {r}")
    _cmp("dup-id-header", E["dup-id-header"], O["dup-id-header"], V)
    for key, exp in E["misspelling"].items():
        _cmp(f"misspelling:{key}", exp, set(O["misspelling"].get(key, [])), V)
    if mine and O["dups"]:
        V("C20:duplicate-warning", f"the same warning text was emitted twice: {O['dups'][0][:120]!r}")
    if mine and O["other"] and "other-ok" not in case.tags:
        V("C20:unexpected-warning", f"a warning this family does not trigger: {O['other'][0][:160]!r}")
    return out


# ----------------------------------------------------------------------------- case families

L1, L2 = "English (en)", "French (fr)"


def _hdr(col, lang, style=0):
    base = f"media::{col}" if col in MEDIA_TYPES and style == 0 else col
    return base if lang == DEFAULT else f"{base}::{lang}"


def _subsets(xs):
    return [tuple(c) for k in range(len(xs) + 1) for c in itertools.combinations(xs, k)]


def form_survey_translations(assign, with_choices, style=0):
    """assign: {column: tuple(langs)} on the survey sheet."""
    hs = ["type", "name"]
    cells = {}
    for col, langs in assign.items():
        for lang in langs:
            h = _hdr(col, lang, style)
            hs.append(h)
            cells[h] = "a.png" if col in MEDIA_TYPES else f"{col} {lang}"
    labelish = any(c in ("label", "hint", "image", "audio", "video") and ls for c, ls in assign.items())
    rows = []
    extra = []
    if "constraint_message" in assign and assign["constraint_message"]:
        extra.append(("constraint", ". != 'x'"))
    if "required_message" in assign and assign["required_message"]:
        extra.append(("required", "yes"))
    if not labelish:
        extra.append(("calculation", "1 + 1"))
    for k, _ in extra:
        hs.append(k)
    r1 = ["text" if labelish else "calculate", "q1"] + [cells.get(h) for h in hs[2:]]
    for k, v in extra:
        r1[hs.index(k)] = v
    rows.append(r1)
    wb = WB()
    if with_choices:
        r2 = ["select_one l1", "q2"] + [cells.get(h) if not h.startswith(("constraint_message", "required_message")) else None for h in hs[2:]]
        if not labelish:
            # a select needs a label: only possible if it does not disturb the header set
            r2 = None
        if r2:
            for k, v in extra:
                r2[hs.index(k)] = None
            rows.append(r2)
        wb["survey"] = (hs, rows)
        wb["choices"] = (["list_name", "name", "label"], [["l1", "c1", "C1"], ["l1", "c2", "C2"]])
    else:
        wb["survey"] = (hs, rows)
    return wb


def form_choices_translations(assign, survey_langs=(DEFAULT,), or_other=None, sel="select_one", style=0, fill="all"):
    ch = ["list_name", "name"]
    cells = {}
    for col, langs in assign.items():
        for lang in langs:
            h = _hdr(col, lang, style)
            ch.append(h)
            cells[h] = "a.png" if col in MEDIA_TYPES else f"{col} {lang}"
    crow = []
    for i in range(2):
        crow.append(["l1", f"c{i}"] + [cells.get(h) for h in ch[2:]])
    sh = ["type", "name"] + [_hdr("label", l) for l in survey_langs]
    t = f"{sel} l1" + (f" {or_other}" if or_other else "")
    srow = [[t, "q1"] + [f"Q {l}" for l in survey_langs]]
    wb = WB()
    wb["survey"] = (sh, srow)
    wb["choices"] = (ch, crow)
    return wb


SHEET_KEYS = ("settings", "entities")


def within_radius(word, radius, alphabet):
    """All strings reachable from word by at most `radius` single-character edits over `alphabet`, by layer."""
    layers = [{word}]
    seen = {word}
    for _ in range(radius):
        nxt = set()
        for s in layers[-1]:
            for i in range(len(s)):
                t = s[:i] + s[i + 1:]
                if t not in seen:
                    nxt.add(t)
                for a in alphabet:
                    if a != s[i]:
                        t = s[:i] + a + s[i + 1:]
                        if t not in seen:
                            nxt.add(t)
            for i in range(len(s) + 1):
                for a in alphabet:
                    t = s[:i] + a + s[i:]
                    if t not in seen:
                        nxt.add(t)
        seen |= nxt
        layers.append(nxt)
    return layers


def overlap_strings(word):
    """Names that repeat a head/tail of the word (shared prefix and suffix overlap on the shorter string)."""
    out = set()
    n = len(word)
    for k in range(1, n + 1):
        out.add(word + word[-k:])
        out.add(word[:k] + word)
        out.add(word[:k] + word[-k:])
        out.add(word + "_" + word[-k:])
        for j in range(1, n + 1):
            out.add(word[:k] + word[-j:])
            out.add(word[:k] + word[j - 1:k] + word[-j:])
    out.add(word + word)
    out.add(word + "_" + word)
    out.add(word + "s")
    out.add(word[0] + word)
    out.add(word + word[-1])
    out.add(word[::-1])
    return {s for s in out if s and s != word}


def misspelling_md(names, settings=False, entities=False):
    lines = ["| survey |", "| | type | name | label |", "| | text | q1 | Q1 |"]
    if settings:
        lines += ["| settings |", "| | form_title |", "| | T |"]
    if entities:
        lines += ["| entities |", "| | dataset | label |", "| | trees | a |"]
    for nm in names:
        lines += [f"| {nm} |", "| | a | b |", "| | 1 | 2 |"]
    return "\n".join(lines) + "\n"


def _sheet_name_ok(s):
    return (s.strip() == s and s != "" and "|" not in s and "#" not in s and "\\" not in s
            and s.lower() not in SUPPORTED_SHEETS)


IMAGE_PARAMS = [None, None, "max-pixels=640", "max-pixels=2000", "app=com.example.cam max-pixels=100", "app=com.example.cam",
                "MAX-PIXELS=320", "max-pixels=640;app=com.example.cam", "app=com.example.cam, max-pixels=10"]
META_TYPES = ["simserial", "subscriberid", "deviceid", "phonenumber", "username", "start", "end", "today", "email"]


def gen_rowlevel(rnd, idx):
    """A nested form with the row-level triggers (or their near misses) sprinkled at every depth."""
    hs = ["type", "name", "label", "parameters", "appearance", "disabled", "relevant"]
    use_lang = rnd.random() < 0.3
    if use_lang:
        hs[2:3] = ["label::English (en)", "label::French (fr)"]
    rows = []
    counter = [0]

    def nm(p):
        counter[0] += 1
        return f"{p}{counter[0]}"

    def put(d):
        if "label" in d and use_lang:
            lab = d.pop("label")
            d["label::English (en)"] = lab
            d["label::French (fr)"] = lab
        rows.append([d.get(h) for h in hs])

    def leaf():
        k = rnd.random()
        if k < 0.3:
            t = rnd.choice(["image", "image", "photo"]) if rnd.random() < 0.9 else "audio"
            put({"type": t, "name": nm("img"), "label": "Picture", "parameters": rnd.choice(IMAGE_PARAMS) if t != "audio" else None,
                 "disabled": rnd.choice([None, None, None, "no"])})
        elif k < 0.5:
            t = rnd.choice(META_TYPES)
            put({"type": t, "name": nm("m"), "label": rnd.choice([None, "Meta"]) if t != "email" else "Mail"})
        elif k < 0.62:
            put({"type": "text", "name": nm("d"), "label": "Off", "disabled": rnd.choice(["yes", "no", "true", "false", "TRUE", "No", "maybe"])})
        elif k < 0.7:
            rows.append([None] * len(hs))
        elif k < 0.8:
            put({"type": "select_one l1", "name": nm("s"), "label": "Pick"})
        else:
            put({"type": rnd.choice(["text", "integer", "note", "date"]), "name": nm("q"), "label": "Q"})

    def block(depth):
        for _ in range(rnd.randint(1, 3)):
            if depth < 3 and rnd.random() < 0.4:
                kind = rnd.choice(["group", "repeat"])
                lab = rnd.choice([None, None, "Block", "Block"])
                app = rnd.choice([None, None, None, "field-list", "w3"]) if kind == "group" else None
                put({"type": rnd.choice([f"begin {kind}", f"begin_{kind}"]), "name": nm(kind[0]), "label": lab, "appearance": app,
                     "relevant": rnd.choice([None, "1 = 1"])})
                block(depth + 1)
                rows.append([rnd.choice([f"end {kind}", f"end_{kind}"])] + [None] * (len(hs) - 1))
            else:
                leaf()
        if not rows or rows[-1][0] is None or str(rows[-1][0]).startswith(("begin", "end")):
            put({"type": "text", "name": nm("q"), "label": "Q"})

    block(0)
    wb = WB()
    wb["survey"] = (hs, rows)
    # choices with unlabeled rows, media-only rows, an unused list
    ch = ["list_name", "name", "label", "media::image"]
    if use_lang and rnd.random() < 0.5:
        ch = ["list_name", "name", "label::English (en)", "label::French (fr)", "media::image::English (en)", "media::image::French (fr)"]
    crow = []
    for ln in ("l1", "unused.list"):
        for i in range(rnd.randint(1, 4)):
            r = [ln, f"c{i}"]
            kind = rnd.random()
            for h in ch[2:]:
                if h.startswith("label"):
                    r.append(f"C{i}" if kind < 0.6 else None)
                else:
                    r.append("c.png" if 0.45 < kind < 0.8 else None)
            crow.append(r)
        if rnd.random() < 0.3:
            crow.append([None] * len(ch))
    while crow and all(c is None for c in crow[-1]):
        crow.pop()
    wb["choices"] = (ch, crow)
    k = rnd.random()
    if k < 0.25:
        wb["settings"] = (["form_id", "id_string"], [["fa", "fb"]])
    elif k < 0.35:
        wb["settings"] = (["id_string", "form_title", "form_id"], [["fb", "T", "fa"]])
    elif k < 0.5:
        wb["settings"] = (["form_id", "form_title"], [["fa", "T"]])
    elif k < 0.6:
        wb["settings"] = (["id_string"], [["fb"]])
    return wb


LANG_LABELS = ["English (en)", "English", "French (fr)", "Eng (eng)", "Klingon (zz)", "Filipino (fil)", "(sw)", "English(en)",
               "Swahili  (sw)", "en", "xx", "Hawaiian (haw)", "Français (fr)", "English (english)", "Spanish (es) "]


# ---- row-level triggers at EVERY position relative to other rows of related kinds (small-scope exhaustive)
#
# A row-level warning must depend on the presence of its trigger only: not on which related rows (same question family,
# with or without the trigger) come before or after it, nor on the container the row sits in. Each family below takes
# a small alphabet of related row kinds -- trigger rows, near misses of the same family, an unrelated filler -- and
# enumerates ALL sequences over it up to a small length; every sequence is laid out in several container shapes.

# (survey languages, choices languages)
ORDER_TRANS = {"2": ((L1, L2), (L1, L2)), "1s": ((L1,), (DEFAULT,)), "1c": ((DEFAULT,), (L2,)), "d+1": ((DEFAULT, L1), (DEFAULT, L1)),
               "0": ((DEFAULT,), (DEFAULT,))}
N_PLACEMENTS = 7

# token -> list of row specs; a spec is ("q", type, label?, parameters, disabled) | ("open", kind, label?, disabled) | ("close", kind)
ORDER_TOKENS = {
    # selects: with / without or_other, both cardinalities, choices from a file; the two lists differ
    "oo1": [("q", "select_one l1 or_other", True, None, None)],
    "oom": [("q", "select_multiple l2 or_other", True, None, None)],
    "s1": [("q", "select_one l2", True, None, None)],
    "sm": [("q", "select_multiple l1", True, None, None)],
    "sf": [("q", "select_one_from_file places.csv", True, None, None)],
    "tx": [("q", "text", True, None, None)],
    # images with / without max-pixels, other media
    "i0": [("q", "image", True, None, None)],
    "i1": [("q", "image", True, "max-pixels=640", None)],
    "ia": [("q", "image", True, "app=com.example.cam", None)],
    "au": [("q", "audio", True, None, None)],
    # metadata: deprecated and supported kinds
    "ms": [("q", "simserial", False, None, None)],
    "mu": [("q", "subscriberid", False, None, None)],
    "md": [("q", "deviceid", False, None, None)],
    # containers with / without a label (each holds one question)
    "g0": [("open", "group", False, None), ("q", "text", True, None, None), ("close", "group")],
    "g1": [("open", "group", True, None), ("q", "text", True, None, None), ("close", "group")],
    "r0": [("open", "repeat", False, None), ("q", "text", True, None, None), ("close", "repeat")],
    "r1": [("open", "repeat", True, None), ("q", "integer", True, None, None), ("close", "repeat")],
    # the disabled column: filled (row kept / row dropped) or empty; on a container too
    "dn": [("q", "text", True, None, "no")],
    "dy": [("q", "text", True, None, "yes")],
    "d-": [("q", "integer", True, None, None)],
    "gd": [("open", "group", True, "no"), ("q", "text", True, None, None), ("close", "group")],
}
ORDER_FAMILIES = {
    "select": ("oo1", "oom", "s1", "sm", "sf", "tx"),
    "image": ("i0", "i1", "ia", "au"),
    "meta": ("ms", "mu", "md", "tx"),
    "control": ("g0", "g1", "r0", "r1", "tx"),
    "disabled": ("dn", "dy", "d-", "gd"),
}
# one trigger of every row-level warning + one near miss of each: all orders of the triggers, near misses interleaved
ORDER_MIX_TRIGGERS = ("oo1", "i0", "ms", "g0", "dn")
ORDER_MIX_NEAR = ("s1", "i1", "md", "g1", "d-")


def order_wb(tokens, placement, trans, choice_rows=None, same_names=False):
    """Survey made of the row blocks of `tokens`, in that order, laid out according to `placement`:
    0 flat; 1 all in one group; 2 all in one repeat; 3 first at top level, the rest in a group; 4 all but the last in a
    repeat, the last after it; 5 block i at depth i (group > repeat > group ...); 6 block i precedes the container that
    holds block i+1. Containers added by the layout are labelled and never empty.
    choice_rows: [(list name, labelled?)] in sheet order; same_names: every choice of a list carries the same name
    (duplicates switched on in the settings)."""
    slangs, clangs = ORDER_TRANS[trans]
    hs = ["type", "name"] + [_hdr("label", l) for l in slangs] + ["parameters", "disabled"]
    rows, cnt = [], [0]

    def put(t, label, parameters=None, disabled=None):
        cnt[0] += 1
        rows.append([t, f"n{cnt[0]}"] + [(f"{label} {l}" if label else None) for l in slangs] + [parameters, disabled])

    def emit(block):
        for spec in block:
            if spec[0] == "q":
                put(spec[1], "Q" if spec[2] else None, spec[3], spec[4])
            elif spec[0] == "open":
                put(f"begin {spec[1]}", "Inner" if spec[2] else None, None, spec[3])
            else:
                rows.append([f"end {spec[1]}"] + [None] * (len(hs) - 1))

    def opn(kind):
        put(f"begin {kind}", "Block")

    def cls(kind):
        rows.append([f"end {kind}"] + [None] * (len(hs) - 1))

    def filler():
        put("note", "N")

    blocks = [ORDER_TOKENS[t] for t in tokens]
    if placement == 0:
        for b in blocks:
            emit(b)
    elif placement in (1, 2):
        kind = "group" if placement == 1 else "repeat"
        opn(kind)
        for b in blocks:
            emit(b)
        cls(kind)
    elif placement == 3:
        emit(blocks[0])
        opn("group")
        for b in blocks[1:]:
            emit(b)
        if len(blocks) == 1:
            filler()
        cls("group")
    elif placement == 4:
        opn("repeat")
        for b in blocks[:-1]:
            emit(b)
        if len(blocks) == 1:
            filler()
        cls("repeat")
        emit(blocks[-1])
    elif placement == 5:
        kinds = [("group", "repeat")[i % 2] for i in range(len(blocks))]
        for k, b in zip(kinds, blocks):
            opn(k)
            emit(b)
        for k in reversed(kinds):
            cls(k)
    else:
        kinds = [("repeat", "group")[i % 2] for i in range(len(blocks))]
        for k, b in zip(kinds, blocks):
            emit(b)
            opn(k)
        filler()
        for k in reversed(kinds):
            cls(k)
    wb = WB()
    wb["survey"] = (hs, rows)
    ch = ["list_name", "name"] + [_hdr("label", l) for l in clangs]
    if choice_rows is None:
        choice_rows = [(ln, True) for ln in ("l1", "l1", "l2", "l2")]
    wb["choices"] = (ch, [[ln, "c" if same_names else f"c{i}"] + [(f"C{i} {l}" if lab else None) for l in clangs]
                          for i, (ln, lab) in enumerate(choice_rows)])
    if same_names:
        wb["settings"] = (["allow_choice_duplicates"], [["yes"]])
    return wb


def _sequences(alphabet, max_len):
    return [seq for k in range(1, max_len + 1) for seq in itertools.product(alphabet, repeat=k)]


def order_cases(tier, seed, add):
    thorough = tier == "thorough"
    k = seed  # rotates layouts / language set-ups over the sequences; every sequence is converted at least once
    for fam, alphabet in ORDER_FAMILIES.items():
        if fam == "select":
            trs, max_len = ("2", "1s", "1c", "d+1"), (4 if thorough else 3)
        else:
            trs, max_len = ("0", "2"), (4 if thorough else 3)
        for seq in _sequences(alphabet, max_len):
            k += 1
            if thorough:
                plan = [((k + j) % N_PLACEMENTS, tr) for j, tr in enumerate(trs)]
                if len(seq) <= 3:
                    plan = [(p, tr) for p in range(N_PLACEMENTS) for tr in trs]
            else:
                plan = [(k % N_PLACEMENTS, trs[k % len(trs)])]
                if len(seq) <= 2:
                    plan.append(((k + 3) % N_PLACEMENTS, trs[(k + 1) % len(trs)]))
            if fam == "select" and (thorough or k % 3 == 0):
                plan.append(((k + 1) % N_PLACEMENTS, "0"))  # no translation anywhere: the or_other warning must stay silent
            for p, tr in plan:
                add(f"{fam} {'>'.join(seq)} layout {p} languages {tr}", f"order-{fam}", wb=order_wb(seq, p, tr))
    # all orders of one trigger of each kind, near misses in between / around
    for pi, perm in enumerate(itertools.permutations(ORDER_MIX_TRIGGERS)):
        near = ORDER_MIX_NEAR[pi % 5:] + ORDER_MIX_NEAR[:pi % 5]
        shapes = [perm, tuple(x for pair in zip(perm, near) for x in pair), tuple(x for pair in zip(near, perm) for x in pair)]
        for si, seq in enumerate(shapes if thorough else [shapes[pi % 3]]):
            k += 1
            add(f"mix {'>'.join(seq)}", "order-mix", wb=order_wb(seq, (k if thorough else pi) % N_PLACEMENTS, ("2", "1s", "0")[(pi + si) % 3]))
    # choices rows: labelled / unlabelled rows of two lists in every order
    ckinds = (("l1", True), ("l1", False), ("l2", True), ("l2", False))
    for seq in _sequences(ckinds, 5 if thorough else 3):
        k += 1
        lists = {ln for ln, _ in seq}
        toks = tuple(t for t, ln in (("s1", "l2"), ("sm", "l1")) if ln in lists) or ("tx",)
        for tr in (("0", "2", "1c") if thorough else (("0", "2", "1c")[k % 3],)):
            add(f"choices rows {[(ln, int(lab)) for ln, lab in seq]} languages {tr}", "order-choices",
                wb=order_wb(toks, k % 3, tr, choice_rows=list(seq)))
            if len(seq) > len(lists):  # some list has several rows: also with the same name on all of them
                add(f"choices rows {[(ln, int(lab)) for ln, lab in seq]} languages {tr}, one name per list", "order-choices",
                    wb=order_wb(toks, k % 3, tr, choice_rows=list(seq), same_names=True))


def cases(tier, seed):
    rnd = random.Random(seed)
    thorough = tier == "thorough"
    out = []
    n = 0

    def add(name, tag, wb=None, md=None, tags=(), kwargs=None):
        nonlocal n
        n += 1
        out.append(Case(f"C20-{tag}-{n}:{name}", wb=wb, md=md, origin="C20", tags={tag, *tags}, kwargs=kwargs or {}))

    langsets = _subsets([DEFAULT, L1, L2])
    # 1. survey: all subsets of languages for every column of a triple (8^3 each); triples cover all 9 columns
    triples = [("label", "hint", "image"), ("guidance_hint", "constraint_message", "required_message"),
               ("label", "audio", "video"), ("hint", "big-image", "image")]
    if thorough:
        triples += [t for t in itertools.combinations(SURVEY_TRANSLATABLE, 3) if t not in triples][:40]
    for ti, tr in enumerate(triples):
        for ai, combo in enumerate(itertools.product(langsets, repeat=3)):
            assign = dict(zip(tr, combo))
            if "big-image" in assign and assign["big-image"] and not set(assign["big-image"]) <= set(assign.get("image", ())):
                continue  # big-image needs an image in the same language to be a valid form
            if not thorough and ti >= 2 and ai % 3:
                continue
            add(f"survey {assign}", "tr-survey", wb=form_survey_translations(assign, with_choices=bool(ai % 2), style=(ai // 2) % 2))
    # 2. choices: all subsets for label/image/audio (+ video, big-image triples)
    ctriples = [("label", "image", "audio"), ("label", "video", "big-image")]
    for ti, tr in enumerate(ctriples):
        for ai, combo in enumerate(itertools.product(langsets, repeat=3)):
            assign = dict(zip(tr, combo))
            if not assign.get("label"):
                pass  # unlabeled choices: separate warning, allowed
            if not thorough and ti >= 1 and ai % 3:
                continue
            sl = [(DEFAULT,), (L1,), (L1, L2), (DEFAULT, L1)][ai % 4]
            add(f"choices {assign} survey {sl}", "tr-choices", wb=form_choices_translations(assign, survey_langs=sl, style=(ai // 4) % 2),
                tags=("other-ok",))
    # 3. or_other x translations (incl. the single named language on both sheets)
    named = _subsets([DEFAULT, "en", L2])[1:]
    phrases = ["or_other", "or other", "or specify other", None]
    k = 0
    for sl in named:
        for cl in named:
            for pi, ph in enumerate(phrases):
                for sel in ("select_one", "select_multiple"):
                    k += 1
                    if not thorough and sel == "select_multiple" and (k % 3):
                        continue
                    add(f"or_other={ph} {sel} survey={sl} choices={cl}", "or-other",
                        wb=form_choices_translations({"label": cl}, survey_langs=sl, or_other=ph, sel=sel))
    for extra in ("hint::en", "media::image::French (fr)", "constraint_message::en", "guidance_hint::en", "required_message::English (en)"):
        for ph in ("or_other", None):
            wb = form_choices_translations({"label": (DEFAULT,)}, survey_langs=(DEFAULT,), or_other=ph)
            h, rows = wb["survey"]
            h.append(extra)
            rows[0].append("x.png" if "image" in extra else "text")
            if extra.startswith("constraint"):
                h.append("constraint"); rows[0].append(". != 'zz'")
            if extra.startswith("required"):
                h.append("required"); rows[0].append("yes")
            add(f"or_other={ph} translation only via {extra}", "or-other", wb=wb)
    for ph in ("or_other", None):
        wb = form_choices_translations({"label": (DEFAULT,), "image": ("en",)}, survey_langs=(DEFAULT,), or_other=ph)
        add(f"or_other={ph} translation only via choices media", "or-other", wb=wb)
        # the or_other row is disabled: not used by the form
        wb = form_choices_translations({"label": ("en",)}, survey_langs=("en",), or_other=ph)
        h, rows = wb["survey"]
        h.append("disabled"); rows[0].append("yes")
        rows.append(["text", "q9", "Q9", None])
        add(f"or_other={ph} on a disabled row", "or-other", wb=wb)
    # 4. sheet names: every string within radius 2 (quick) / 3 (thorough) + head/tail repeating names
    for key in SHEET_KEYS:
        alphabet = sorted(set(key)) + ["x", "_"]
        layers = within_radius(key, 3 if thorough else 2, alphabet)
        pool = [s for layer in layers[1:] for s in sorted(layer)]
        if not thorough:
            l3 = sorted(within_radius_sample(key, alphabet, rnd, 1500))
            pool += l3
        pool += sorted(overlap_strings(key))
        caps = [s.capitalize() for s in pool[:60]] + [s.upper() for s in pool[:20]] + ["_" + s for s in pool[:80]]
        pool += caps
        seen, names = set(), []
        for s in pool:
            if _sheet_name_ok(s) and s not in seen:
                seen.add(s)
                names.append(s)
        rnd.shuffle(names)
        chunk = 120
        for i in range(0, len(names), chunk):
            part = names[i:i + chunk]
            j = i // chunk
            add(f"{key}: {len(part)} candidate sheets", "sheetnames", md=misspelling_md(part, settings=(j % 7 == 3), entities=(j % 7 == 5)))
        for s in sorted(overlap_strings(key)):
            if _sheet_name_ok(s):
                add(f"{key}: single sheet {s!r}", "sheetnames", md=misspelling_md([s]))
    # 5. language declarations
    for a in LANG_LABELS:
        add(f"lang {a!r}", "iana", wb=form_choices_translations({"label": (a,)}, survey_langs=(a,)))
        add(f"lang {a!r} on choices only", "iana", wb=form_choices_translations({"label": (a,)}, survey_langs=(DEFAULT,)))
        for b in LANG_LABELS:
            if a < b and (thorough or (hash_det(a + b) % 3 == 0)):
                add(f"langs {a!r}+{b!r}", "iana", wb=form_choices_translations({"label": (a, b)}, survey_langs=(a, b)))
    # 6. row-level triggers anywhere in nested forms
    for i in range(1200 if thorough else 250):
        add(f"rowlevel {i}", "rows", wb=gen_rowlevel(rnd, i), tags=("other-ok",))
    # 7. duplicate id headers
    for hs, vals in ((["form_id", "id_string"], ["a", "b"]), (["id_string", "form_id"], ["a", "b"]), (["form_id"], ["a"]),
                     (["id_string"], ["b"]), (["form_title", "id_string", "version", "form_id"], ["T", "b", "1", "a"]),
                     (["form_title"], ["T"]), (["form_id", "id_string"], ["same", "same"])):
        wb = form_choices_translations({"label": (DEFAULT,)})
        wb["settings"] = (hs, [vals])
        add(f"settings headers {hs}", "dupid", wb=wb)
    # 8. row-level triggers at every position relative to rows of related kinds, in every container shape
    order_cases(tier, seed, add)
    return out


def hash_det(s):
    h = 0
    for ch in s:
        h = (h * 131 + ord(ch)) % 1000003
    return h


def within_radius_sample(word, alphabet, rnd, n):
    """n random strings obtained by exactly three random single edits."""
    out = set()
    tries = 0
    while len(out) < n and tries < n * 5:
        tries += 1
        s = word
        for _ in range(3):
            op = rnd.choice("dsi")
            if op == "d" and len(s) > 1:
                i = rnd.randrange(len(s)); s = s[:i] + s[i + 1:]
            elif op == "s" and s:
                i = rnd.randrange(len(s)); s = s[:i] + rnd.choice(alphabet) + s[i + 1:]
            else:
                i = rnd.randrange(len(s) + 1); s = s[:i] + rnd.choice(alphabet) + s[i:]
        out.add(s)
    return out


# ----------------------------------------------------------------------------- warnings never alter the result


def check_global(tier, seed, ctx):
    """(a) a warnings list that already has content does not change the XForm, and is only appended to;
    (b) hiding a misspelt sheet behind '_' removes the warning and nothing else;
    (c) adding the missing max-pixels parameter / a label-less choice's label changes nothing but that item."""
    vs, n = [], 0
    rnd = random.Random(seed + 20)
    base = [c for c in cases("quick", seed) if c.tags & {"rows", "or-other", "tr-survey", "iana"}]
    rnd.shuffle(base)
    for c in base[: (40 if tier == "quick" else 300)]:
        r1 = corpus.convert_case(c)
        n += 1
        if not r1.ok:
            continue
        from pyxform.xls2xform import convert

        pre = ["sentinel warning"]
        try:
            r2 = convert(xlsform=c.source(), warnings=pre, **({"file_type": ".md"} if c.wb is None else {}))
        except Exception as e:  # noqa: BLE001
            vs.append(_v("C20:result-altered:prefilled-warnings-raise", f"{type(e).__name__}: {e}") | {"case": c.name})
            continue
        n += 1
        if r2.xform != r1.xform:
            vs.append(_v("C20:result-altered:prefilled-warnings", "XForm differs when the warnings list passed in is not empty") | {"case": c.name})
        if list(r2.warnings)[:1] != ["sentinel warning"] or list(r2.warnings)[1:] != list(r1.warnings):
            vs.append(_v("C20:warnings-list-not-appended", f"passed-in list content not preserved/appended: {list(r2.warnings)[:3]}") | {"case": c.name})
    for key in SHEET_KEYS:
        for s in sorted(overlap_strings(key))[:6] + [key[:-1], key[1:], key + "s"]:
            if not _sheet_name_ok(s):
                continue
            a = corpus.convert_case(Case("a", md=misspelling_md([s])))
            b = corpus.convert_case(Case("b", md=misspelling_md(["_" + s])))
            n += 2
            if a.ok != b.ok or (a.ok and a.xform != b.xform):
                vs.append(_v("C20:result-altered:misspelt-sheet", f"XForm differs between sheet {s!r} and '_{s}'") | {"case": f"sheet {s}"})
            if b.ok and any("similar names" in w for w in b.warnings):
                vs.append(_v("C20:misspelling:underscore-not-suppressed", f"'_{s}' still warned") | {"case": f"sheet _{s}"})
    return vs, n
