"""C16 (bounded e2e): the JSON intermediate form is a faithful, reloadable representation.

For every accepted form two routes are replayed and compared with the direct conversion:
 (a) workbook route: the dict produced from the workbook (workbook_to_json, computed afresh from the case source so
     that nothing the builder may have done to the dict of the first conversion is inherited) must be
     JSON-serialisable; dumped to JSON text and loaded back it must be the same dict, and the survey built from the
     loaded dict must generate exactly the XForm of the direct conversion (string equality, pretty_print off);
 (b) survey route: d1 = survey.to_json_dict() must be JSON-serialisable and unchanged by dumps/loads; the survey
     rebuilt from the loaded text must generate exactly the XForm of the direct conversion, and its own
     to_json_dict() must equal d1 (stable under dump, load, dump again).
The expectation is the direct conversion's XForm itself and plain dict equality - nothing is computed from pyxform
internals.  When two XForms differ every difference (aligned walk of the two ElementTree parses) names a
failure class: region of the document (primary instance, secondary instance, bind, itext, body...), kind of
difference and, for standard attributes, the attribute.
"""
from __future__ import annotations

import itertools
import json
import random
import xml.etree.ElementTree as ET

from bounded import corpus
from bounded.corpus import Case, Result, WB, XForm

USES_DEFAULT_CORPUS = True
N_GENERATED = {"quick": 150, "thorough": 1500}
TIME_BUDGET_S = {"quick": 90, "thorough": 1200}


def V(key, what):
    return {"key": f"C16:{key}", "what": what}


# ----------------------------------------------------------------------------- XForm difference classes

STD_ATTRS = {"nodeset", "ref", "type", "relevant", "required", "readonly", "constraint", "calculate", "appearance",
             "value", "event", "id", "src", "lang", "default", "form", "mediatype", "count", "noAddRemove", "version",
             "constraintMsg", "requiredMsg", "preload", "preloadParams", "template", "class", "start", "end", "step",
             "rows", "query", "action", "method", "base64RsaPublicKey", "auto-send", "auto-delete", "max-pixels",
             "quality", "saveto", "dataset", "create", "update", "baseVersion", "trunkVersion", "branchId",
             "entities-version", "xforms-version", "intent", "autoplay", "accuracyThreshold", "unacceptableAccuracyThreshold",
             "allow-mock-accuracy", "track-changes", "identify-user", "track-changes-reasons", "location-priority",
             "location-min-interval", "location-max-age", "seed", "prefix", "delimiter", "tag", "noAppErrorString"}


def _local(t):
    return t.rsplit("}", 1)[-1]


def _region(stack):
    """Coarse, form-independent name of the place of an element (stack of ancestors-or-self local tags + flags)."""
    tags = [t for t, _ in stack]
    if "body" in tags:
        for t in ("itemset", "item", "repeat", "setvalue", "setgeopoint", "label", "hint"):
            if t in tags:
                return f"body-{t}"
        return "body"
    if "itext" in tags:
        return "itext"
    if "bind" in tags:
        return "bind"
    if "instance" in tags:
        first = next(flag for t, flag in stack if t == "instance")
        return "primary-instance" if first else "secondary-instance"
    if "setvalue" in tags or "setgeopoint" in tags:
        return "model-action"
    if "submission" in tags:
        return "submission"
    if "title" in tags:
        return "title"
    if "model" in tags:
        return "model"
    return "document"


def _sig(e):
    return (e.tag, tuple(sorted((k, v) for k, v in e.attrib.items() if k in ("id", "nodeset", "ref", "lang"))))


def differences(xa: str, xb: str) -> dict:
    """{key fragment: detail of its first occurrence} for every difference between two XForm texts, a being the
    reference.  Children are aligned by (tag, id/nodeset/ref/lang) so that one lost element does not hide the rest."""
    try:
        ra, rb = ET.fromstring(xa.encode("utf-8")), ET.fromstring(xb.encode("utf-8"))
    except ET.ParseError as e:
        return {"unparseable": str(e)}
    found: dict = {}
    # what a bind's nodeset names in the reference form: a repeat, a group (node with children) or a question
    repeats = {e.get("nodeset") for e in ra.iter() if _local(e.tag) == "repeat"}
    try:
        containers = {p_ for p_, els in XForm(xa).instance_paths().items() if any(len(e) for e in els)}
    except Exception:  # noqa: BLE001
        containers = set()

    def refine(region, e):
        if region == "bind" and _local(e.tag) == "bind":
            ns_ = e.get("nodeset")
            return "bind(repeat)" if ns_ in repeats else "bind(group)" if ns_ in containers else "bind(question)"
        if region == "secondary-instance":
            t = _local(e.tag)
            return f"secondary-instance({t if t in ('instance', 'root', 'item') else 'item-child'})"
        return region

    def add(k, detail):
        found.setdefault(k, detail)

    def show(e):
        return f"<{_local(e.tag)} {dict(e.attrib)}>"

    def walk(a, b, stack):
        reg = refine(_region(stack), a)
        for k in a.attrib:
            name = _local(k) if _local(k) in STD_ATTRS else "custom"
            if k not in b.attrib:
                add(f"{reg}:attribute-lost:{name}", f"{show(a)} lost {_local(k)}={a.attrib[k]!r}")
            elif a.attrib[k] != b.attrib[k]:
                add(f"{reg}:attribute-changed:{name}", f"<{_local(a.tag)} {_local(k)}={a.attrib[k]!r}> became {b.attrib[k]!r}")
        for k in b.attrib:
            if k not in a.attrib:
                name = _local(k) if _local(k) in STD_ATTRS else "custom"
                add(f"{reg}:attribute-added:{name}", f"{show(b)} gained {_local(k)}={b.attrib[k]!r}")
        if (a.text or "") != (b.text or ""):
            add(f"{reg}:text-changed", f"text of {show(a)}: {a.text!r} became {b.text!r}")
        ca, cb = list(a), list(b)
        # which <instance> children of the model are the primary one
        flags_a = [not any(_local(y.tag) == "instance" for y in ca[:i]) for i, x in enumerate(ca)]
        flags_b = [not any(_local(y.tag) == "instance" for y in cb[:i]) for i, x in enumerate(cb)]

        def sub(e, flag):
            return [*stack, (_local(e.tag), flag)]

        sa, sb = [_sig(e) for e in ca], [_sig(e) for e in cb]
        pairs = []
        if sa == sb:
            pairs = list(zip(range(len(ca)), range(len(cb))))
        elif sorted(sa) == sorted(sb):
            i = next(i for i in range(len(sa)) if sa[i] != sb[i])
            add(f"{refine(_region(sub(ca[i], flags_a[i])), ca[i])}:order-changed",
                f"children of {show(a)} permuted: position {i} holds {show(cb[i])} instead of {show(ca[i])}")
            used = set()
            for i, s_ in enumerate(sa):
                j = next(j for j in range(len(sb)) if sb[j] == s_ and j not in used)
                used.add(j)
                pairs.append((i, j))
        else:
            import difflib

            for op, i1, i2, j1, j2 in difflib.SequenceMatcher(None, sa, sb, autojunk=False).get_opcodes():
                if op == "equal":
                    pairs.extend(zip(range(i1, i2), range(j1, j2)))
                    continue
                ii, jj = list(range(i1, i2)), list(range(j1, j2))
                # inside a replaced block pair up elements with the same tag (attribute changes), rest is lost/added
                while ii and jj and ca[ii[0]].tag == cb[jj[0]].tag and not sa[ii[0]][1] and not sb[jj[0]][1]:
                    pairs.append((ii.pop(0), jj.pop(0)))
                for i in ii:
                    add(f"{refine(_region(sub(ca[i], flags_a[i])), ca[i])}:element-lost", f"{show(ca[i])} (child of {show(a)}) is missing")
                for j in jj:
                    add(f"{refine(_region(sub(cb[j], flags_b[j])), cb[j])}:element-added", f"{show(cb[j])} (child of {show(a)}) is new")
        for i, j in pairs:
            x, y = ca[i], cb[j]
            walk(x, y, sub(x, flags_a[i]))
            if (x.tail or "") != (y.tail or ""):
                add(f"{_region(sub(x, flags_a[i]))}:text-changed", f"text after {show(x)}: {x.tail!r} became {y.tail!r}")

    if ra.tag != rb.tag:
        return {"document:different-root": f"<{_local(ra.tag)}> became <{_local(rb.tag)}>"}
    walk(ra, rb, [(_local(ra.tag), False)])
    if not found:
        decl_a, decl_b = corpus.sv_ns_declarations(xa), corpus.sv_ns_declarations(xb)
        if decl_a != decl_b:
            found["document:namespace-declarations"] = f"{decl_a} became {decl_b}"
        else:
            found["serialisation-only"] = "the two texts differ but parse to the same tree"
    return found


# ----------------------------------------------------------------------------- the two routes


def _fresh_json(case: Case):
    """workbook -> JSON dict exactly as convert() computes it (same arguments), on a fresh read of the source."""
    from pyxform.xls2json import workbook_to_json
    from pyxform.xls2xform import get_xlsform

    src = case.source()
    kw = dict(case.kwargs)
    file_type = kw.get("file_type") or (".md" if isinstance(src, str) else None)
    wd = get_xlsform(xlsform=src, file_type=file_type)
    return workbook_to_json(workbook_dict=wd, form_name=kw.get("form_name"),
                            fallback_form_name=wd.fallback_form_name, default_language=kw.get("default_language"),
                            warnings=[])


def _build(d):
    from pyxform.builder import create_survey_element_from_dict

    return create_survey_element_from_dict(d)


def _xml(s):
    return s.to_xml(validate=False, pretty_print=False)


def _site(e):
    return f"{type(e).__name__} at {corpus.x17_site(e)}"


def _ksite(e):
    """Key fragment for a crash: exception type and innermost pyxform function."""
    return f"{type(e).__name__}@{corpus.x17_site(e).replace(':', '.')}"


def _first_dict_difference(a, b, path="$"):
    if type(a) is not type(b):
        return f"{path}: {type(a).__name__} {a!r:.80} became {type(b).__name__} {b!r:.80}"
    if isinstance(a, dict):
        for k in a:
            if k not in b:
                return f"{path}.{k}: lost (was {a[k]!r:.100})"
        for k in b:
            if k not in a:
                return f"{path}.{k}: new ({b[k]!r:.100})"
        for k in a:
            d = _first_dict_difference(a[k], b[k], f"{path}.{k}")
            if d:
                return d
        if list(a) != list(b):
            return None     # key order is not part of dict equality
        return None
    if isinstance(a, list):
        if len(a) != len(b):
            return f"{path}: {len(a)} items became {len(b)}"
        for i, (x, y) in enumerate(zip(a, b)):
            d = _first_dict_difference(x, y, f"{path}[{i}]")
            if d:
                return d
        return None
    return None if a == b else f"{path}: {a!r:.100} became {b!r:.100}"


def _dict_key_class(diff: str) -> str:
    """Form-independent class of a dict difference: the last key of the path + what happened."""
    path, _, rest = diff.partition(": ")
    last = path.rsplit(".", 1)[-1].split("[")[0]
    if last not in {"bind", "control", "choices", "children", "label", "hint", "media", "instance", "parameters",
                    "default", "type", "name", "itemset", "list_name", "choice_filter", "trigger", "query",
                    "extra_data", "action", "title", "id_string", "sms_keyword", "version", "style",
                    "default_language", "namespaces", "attribute", "public_key", "submission_url", "instance_name",
                    "entity_features", "setvalues_by_triggering_ref", "setgeopoint_by_triggering_ref", "flat"}:
        last = "other"
    what = "lost" if rest.startswith("lost") else "new" if rest.startswith("new") else "changed"
    return f"{last}:{what}"


def check(case: Case, res: Result, ctx: dict) -> list[dict]:
    if not res.ok or res.xform is None:
        return []
    out = []
    kw = case.kwargs
    if kw.get("pretty_print") or kw.get("enketo") or kw.get("validate"):
        return []

    # ---- (a) workbook -> dict -> text -> dict -> survey -> XForm
    try:
        j = _fresh_json(case)
    except Exception as e:  # noqa: BLE001
        return [V("workbook-route:second-read-fails", f"reading the same source again failed: {_site(e)}: {e}")]
    jl = None
    try:
        jt = json.dumps(j)
        jl = json.loads(jt)
    except (TypeError, ValueError) as e:
        out.append(V("workbook-route:not-json-serialisable", f"json.dumps(workbook_to_json(...)) failed: {e}"))
    if jl is not None:
        if jl != j:
            out.append(V("workbook-route:dict-changed-by-dump-load",
                         f"json.loads(json.dumps(d)) != d: {_first_dict_difference(j, jl)}"))
        s0 = d0 = None
        try:
            s0 = _build(jl)
            try:
                d0 = s0.to_json_dict()      # dump of a survey whose XForm has not been generated yet
            except Exception as e:  # noqa: BLE001
                out.append(V(f"survey-route:pre-xml-dump-fails:{_ksite(e)}",
                             f"to_json_dict() of a survey that has not generated its XForm failed: {_site(e)}: {str(e)[:200]}"))
            xa = _xml(s0)
        except Exception as e:  # noqa: BLE001
            xa = None
            out.append(V(f"workbook-route:reload-fails:{_ksite(e)}", f"building/serialising the survey from the reloaded dict failed: "
                                                        f"{_site(e)}: {str(e)[:200]}"))
        if xa is not None and xa != res.xform:
            for k, detail in differences(res.xform, xa).items():
                out.append(V(f"workbook-route:xform-differs:{k}", f"XForm from the dumped+loaded workbook dict differs: {detail}"))

        # ---- (b0) the survey route on a dump taken BEFORE the XForm was generated
        if d0 is not None and xa is not None:
            out.extend(_pre_xml_route(s0, d0, res.xform))

    # ---- (b) survey -> to_json_dict -> text -> survey -> XForm / to_json_dict  (dump taken AFTER to_xml())
    s = res.survey
    if s is None:
        return out
    try:
        d1 = s.to_json_dict()
    except Exception as e:  # noqa: BLE001
        out.append(V(f"survey-route:dump-fails:{_ksite(e)}", f"survey.to_json_dict() failed: {_site(e)}: {str(e)[:200]}"))
        return out
    try:
        t1 = json.dumps(d1)
        l1 = json.loads(t1)
    except (TypeError, ValueError) as e:
        out.append(V("survey-route:not-json-serialisable", f"json.dumps(survey.to_json_dict()) failed: {e}"))
        return out
    try:
        s2 = _build(l1)
    except Exception as e:  # noqa: BLE001
        out.append(V(f"survey-route:reload-fails:{_ksite(e)}", f"create_survey_element_from_dict(dump) failed: {_site(e)}: {str(e)[:200]}"))
        return out
    try:
        d2 = s2.to_json_dict()
    except Exception as e:  # noqa: BLE001
        d2 = None
        out.append(V(f"survey-route:second-dump-fails:{_ksite(e)}", f"to_json_dict() of the reloaded survey failed: {_site(e)}: {str(e)[:200]}"))
    if d2 is not None and d2 != d1:
        diff = _first_dict_difference(d1, d2) or "(difference in value types only)"
        out.append(V(f"survey-route:dump-not-stable:{_dict_key_class(diff)}",
                     f"dump -> load -> dump changed the dict: {diff}"))
    try:
        xb = _xml(s2)
    except Exception as e:  # noqa: BLE001
        xb = None
        out.append(V(f"survey-route:reloaded-survey-fails:{_ksite(e)}", f"to_xml() of the reloaded survey failed: {_site(e)}: {str(e)[:200]}"))
    if xb is not None and xb != res.xform:
        for k, detail in differences(res.xform, xb).items():
            out.append(V(f"survey-route:xform-differs:{k}", f"XForm of the survey reloaded from its own dump differs: {detail}"))
    if xb is not None and d2 is not None:
        # dump, load, (generate the XForm), dump again
        try:
            d3 = s2.to_json_dict()
        except Exception as e:  # noqa: BLE001
            d3 = None
            out.append(V(f"survey-route:second-dump-fails:{_ksite(e)}", f"to_json_dict() of the reloaded survey after to_xml() failed: {_site(e)}: {str(e)[:200]}"))
        if d3 is not None and d3 != d1:
            diff = _first_dict_difference(d1, d3) or "(difference in value types only)"
            out.append(V(f"survey-route:dump-not-stable-after-xml:{_dict_key_class(diff)}",
                         f"dump -> load -> to_xml -> dump changed the dict: {diff}"))
    return out


def _pre_xml_route(s0, d0, direct):
    """s0: survey built from the reloaded workbook dict, d0 its dump taken before s0.to_xml() ran (it has run now)."""
    out = []
    # (the dump of s0 taken now, after to_xml(), is not required to equal d0: the statement compares a dump with the
    # dump of the survey loaded from it - like with like - which is done below for d0 and in route (b) for the
    # dump taken after to_xml())
    try:
        l0 = json.loads(json.dumps(d0))
    except (TypeError, ValueError) as e:
        return [*out, V("survey-route:not-json-serialisable", f"json.dumps(survey.to_json_dict()) (before to_xml) failed: {e}")]
    try:
        s3 = _build(l0)
    except Exception as e:  # noqa: BLE001
        return [*out, V(f"survey-route:pre-xml-dump:reload-fails:{_ksite(e)}",
                        f"create_survey_element_from_dict(dump taken before to_xml) failed: {_site(e)}: {str(e)[:200]}")]
    try:
        d3 = s3.to_json_dict()
        if d3 != d0:
            diff = _first_dict_difference(d0, d3) or "(difference in value types only)"
            out.append(V(f"survey-route:pre-xml-dump:dump-not-stable:{_dict_key_class(diff)}",
                         f"dump (before to_xml) -> load -> dump changed the dict: {diff}"))
    except Exception as e:  # noqa: BLE001
        out.append(V(f"survey-route:second-dump-fails:{_ksite(e)}", f"to_json_dict() of the survey reloaded from the pre-to_xml dump failed: {_site(e)}: {str(e)[:200]}"))
    try:
        x3 = _xml(s3)
    except Exception as e:  # noqa: BLE001
        return [*out, V(f"survey-route:pre-xml-dump:reloaded-survey-fails:{_ksite(e)}",
                        f"to_xml() of the survey reloaded from the pre-to_xml dump failed: {_site(e)}: {str(e)[:200]}")]
    if x3 != direct:
        for k, detail in differences(direct, x3).items():
            out.append(V(f"survey-route:pre-xml-dump:xform-differs:{k}",
                         f"XForm of the survey reloaded from the dump taken before to_xml() differs: {detail}"))
    return out


# ----------------------------------------------------------------------------- case families
# A form is assembled from feature "bundles" (each brings survey rows and possibly choices / settings / other
# sheets, all names prefixed so that bundles can be combined) placed inside wrappers (group / repeat nestings
# that themselves carry logic).  Families: every bundle alone x every wrapper, all pairs of bundles, seeded
# random combinations with shuffled column and choice-list orders, single/multi language.

L1, L2 = "English (en)", "French (fr)"


def b_plain(p, ref, ml):
    return {"survey": [
        {"type": "text", "name": f"{p}t", "label": "Text", "hint": "a hint", "required": "yes", "required_message": "need it",
         "constraint": ". != 'x'", "constraint_message": "not x", "default": "dflt", "appearance": "multiline"},
        {"type": "integer", "name": f"{p}i", "label": "Int ${%s}" % ref, "relevant": "${%s} != ''" % ref, "readonly": "no"},
        {"type": "decimal", "name": f"{p}d", "label": "Dec", "calculation": "${%si} * 1.5" % p, "guidance_hint": "guide"},
        {"type": "note", "name": f"{p}n", "label": "Note: ${%st} and ${%si}" % (p, p), "hint": "h ${%s}" % ref},
        {"type": "calculate", "name": f"{p}c", "calculation": "concat(${%st}, '-', ${%s})" % (p, ref)},
        {"type": "hidden", "name": f"{p}h", "default": "hv"},
        {"type": "acknowledge", "name": f"{p}ack", "label": "Ack"},
        {"type": "date", "name": f"{p}date", "label": "Date", "default": "2020-02-29", "appearance": "month-year"},
        {"type": "time", "name": f"{p}time", "label": "Time"},
        {"type": "dateTime", "name": f"{p}dt", "label": "DT", "constraint": ". < now()"},
        {"type": "barcode", "name": f"{p}bc", "label": "BC"},
        {"type": "geotrace", "name": f"{p}gt", "label": "GT"},
        {"type": "geoshape", "name": f"{p}gs", "label": "GS", "default": "1 2 0 0; 3 4 0 0; 1 2 0 0"},
        {"type": "file", "name": f"{p}f", "label": "File"},
        {"type": "video", "name": f"{p}v", "label": "Video"},
    ]}


def b_group_logic(p, ref, ml):
    return {"survey": [
        {"type": "begin group", "name": f"{p}g1", "label": "G1", "relevant": "${%s} = 'go'" % ref, "appearance": "field-list"},
        {"type": "text", "name": f"{p}a", "label": "A"},
        {"type": "begin group", "name": f"{p}g2", "label": "G2", "readonly": "yes", "bind::foo": "bar", "body::baz": "qux",
         "instance::kind": "inner"},
        {"type": "integer", "name": f"{p}b", "label": "B"},
        {"type": "end group"},
        {"type": "begin group", "name": f"{p}g3", "relevant": "${%sa} != ''" % p, "required": "yes"},
        {"type": "text", "name": f"{p}c", "label": "C"},
        {"type": "end group"},
        {"type": "end group"},
        {"type": "begin repeat", "name": f"{p}r1", "label": "R1", "relevant": "${%s} != 'no'" % ref, "repeat_count": "3",
         "instance::kind": "rep", "appearance": "field-list"},
        {"type": "text", "name": f"{p}d", "label": "D"},
        {"type": "begin group", "name": f"{p}g4", "label": "G4", "relevant": "${%sd} = 'x'" % p, "constraint": "true()"},
        {"type": "text", "name": f"{p}e", "label": "E ${%sd}" % p},
        {"type": "end group"},
        {"type": "end repeat"},
        {"type": "begin repeat", "name": f"{p}r2", "label": "R2", "repeat_count": "${%sb}" % p, "bind::foo": "rr"},
        {"type": "text", "name": f"{p}f", "label": "F"},
        {"type": "end repeat"},
        {"type": "begin repeat", "name": f"{p}r3", "label": "R3", "repeat_count": "${%sb} + 1" % p, "readonly": "true()"},
        {"type": "text", "name": f"{p}h", "label": "H"},
        {"type": "end repeat"},
    ]}


def b_choices_extra(p, ref, ml):
    lab = (lambda t: {f"label::{L1}": t, f"label::{L2}": t + " (fr)"}) if ml else (lambda t: {"label": t})
    ch = []
    for i, (n, st, pop) in enumerate([("ny", "east", "8"), ("la", "west", "4"), ("sf", "west", "1"), ("bo", "east", "2")]):
        ch.append({"list_name": f"{p}cities", "name": n, **lab(n.upper()), "state": st, "pop": pop, "x.dot": f"d{i}",
                   "parent": f"par{i}"})
    for n in ("east", "west"):
        ch.append({"list_name": f"{p}states", "name": n, **lab(n.title()), "media::image": f"{n}.png"})
    for i, n in enumerate(("p1", "p2", "p3")):
        ch.append({"list_name": f"{p}places", "name": n, **lab(n), "geometry": f"{i}.5 {i} 0 0", "marker-color": "#ff0000"})
    return {"survey": [
        {"type": f"select_one {p}states", "name": f"{p}st", **lab("State")},
        {"type": f"select_one {p}cities", "name": f"{p}city", **lab("City"), "choice_filter": "state = ${%sst} and pop > 1" % p},
        {"type": f"select_multiple {p}cities", "name": f"{p}cities2", **lab("Cities"), "choice_filter": "parent != ''"},
        {"type": f"select_one {p}places", "name": f"{p}pl", **lab("Place"), "appearance": "map"},
        {"type": "calculate", "name": f"{p}popc",
         "calculation": "instance('%scities')/root/item[name = ${%scity}]/pop" % (p, p)},
    ], "choices": ch}


def b_choice_media_translations(p, ref, ml):
    ch = []
    for i, n in enumerate(("c1", "c2", "c3")):
        row = {"list_name": f"{p}ml", "name": n, f"label::{L1}": f"E{i}", f"label::{L2}": f"F{i}"}
        if i != 1:
            row[f"media::image::{L1}"] = f"e{i}.png"
            row[f"media::image::{L2}"] = f"f{i}.png"
        if i == 0:
            row[f"media::audio::{L1}"] = "e0.mp3"
            row[f"media::video::{L2}"] = "f0.mp4"
        ch.append(row)
    for i, n in enumerate(("m1", "m2")):
        ch.append({"list_name": f"{p}med", "name": n, "label": f"M{i}", "media::image": f"m{i}.jpg", "media::big-image": f"M{i}.jpg",
                   "media::audio": f"m{i}.mp3"})
    return {"survey": [
        {"type": f"select_one {p}ml", "name": f"{p}s1", f"label::{L1}": "S1", f"label::{L2}": "S1f"},
        {"type": f"select_multiple {p}ml", "name": f"{p}s2", f"label::{L1}": "S2", f"label::{L2}": "S2f",
         "choice_filter": "true()"},
        {"type": f"select_one {p}med", "name": f"{p}s3", "label": "S3"},
        {"type": f"rank {p}med", "name": f"{p}rk", "label": "Rank"},
    ], "choices": ch}


def b_list_order(p, ref, ml):
    """Several lists whose sheet order is not alphabetical (upper/lower case, dotted names), one unused."""
    ch = []
    for ln in (f"{p}zeta", f"{p}Beta", f"{p}alpha", f"{p}l.2", f"{p}Alpha", f"{p}lookup"):
        for n in ("b", "a"):
            ch.append({"list_name": ln, "name": n, "label": f"{ln}-{n}"})
    return {"survey": [
        {"type": f"select_one {p}alpha", "name": f"{p}q1", "label": "Q1"},
        {"type": f"select_one {p}zeta", "name": f"{p}q2", "label": "Q2"},
        {"type": f"select_multiple {p}l.2", "name": f"{p}q3", "label": "Q3"},
        {"type": f"select_one {p}Beta", "name": f"{p}q4", "label": "Q4", "choice_filter": "name != ${%sq1}" % p},
        {"type": f"select_one {p}Alpha", "name": f"{p}q5", "label": "Q5"},
    ], "choices": ch}


def b_parameters(p, ref, ml):
    ch = [{"list_name": f"{p}pl", "name": n, "label": n.upper()} for n in ("a", "b", "c")]
    return {"survey": [
        {"type": f"select_one {p}pl", "name": f"{p}r1", "label": "R1", "parameters": "randomize=true"},
        {"type": f"select_multiple {p}pl", "name": f"{p}r2", "label": "R2", "parameters": "randomize=true, seed=42"},
        {"type": f"select_one {p}pl", "name": f"{p}r3", "label": "R3", "parameters": "randomize=true seed=${%s}" % f"{p}seedq",
         "choice_filter": "name != 'a'"},
        {"type": "integer", "name": f"{p}seedq", "label": "Seed"},
        {"type": f"rank {p}pl", "name": f"{p}r4", "label": "R4", "parameters": "randomize=true"},
        {"type": "text", "name": f"{p}rows", "label": "Rows", "parameters": "rows=4"},
        {"type": "image", "name": f"{p}img", "label": "Img", "parameters": "max-pixels=640"},
        {"type": "image", "name": f"{p}img2", "label": "Img2", "parameters": "app=com.example.cam", "appearance": "annotate"},
        {"type": "range", "name": f"{p}rng", "label": "Range", "parameters": "start=1 end=9 step=2"},
        {"type": "range", "name": f"{p}rngd", "label": "RangeD", "parameters": "start=0.5 end=4.5 step=0.5"},
        {"type": "range", "name": f"{p}rng0", "label": "Range0", "appearance": "rating"},
        {"type": "audio", "name": f"{p}aud", "label": "Audio", "parameters": "quality=voice-only"},
        {"type": "geopoint", "name": f"{p}geo", "label": "Geo", "parameters": "capture-accuracy=10 warning-accuracy=20"},
        {"type": "geopoint", "name": f"{p}geo2", "label": "Geo2", "parameters": "allow-mock-accuracy=true"},
        {"type": "geotrace", "name": f"{p}gt", "label": "GT", "parameters": "allow-mock-accuracy=false"},
    ], "choices": ch}


def b_or_other(p, ref, ml):
    ch = [{"list_name": f"{p}oo", "name": n, "label": n.upper()} for n in ("x", "y")]
    return {"survey": [
        {"type": f"select_one {p}oo or_other", "name": f"{p}o1", "label": "O1"},
        {"type": f"select_multiple {p}oo or_other", "name": f"{p}o2", "label": "O2", "relevant": "${%so1} != 'x'" % p},
    ], "choices": ch}


def b_from_file(p, ref, ml):
    ext = [{"list_name": f"{p}ext", "name": "e1", "label": "E1", "region": "r1"},
           {"list_name": f"{p}ext", "name": "e2", "label": "E2", "region": "r2"}]
    ch = [{"list_name": f"{p}reg", "name": n, "label": n.upper()} for n in ("r1", "r2")]
    return {"survey": [
        {"type": f"select_one_from_file {p}data.csv", "name": f"{p}f1", "label": "F1"},
        {"type": f"select_multiple_from_file {p}units.xml", "name": f"{p}f2", "label": "F2", "choice_filter": "grp = ${%s}" % ref},
        {"type": f"select_one_from_file {p}shapes.geojson", "name": f"{p}f3", "label": "F3",
         "parameters": "value=id label=title"},
        {"type": f"select_one_from_file {p}data.csv", "name": f"{p}f4", "label": "F4", "parameters": "value=code, label=nm"},
        {"type": "calculate", "name": f"{p}pd", "calculation": "pulldata('%sfruits', 'name', 'key', ${%s})" % (p, ref)},
        {"type": f"select_one {p}reg", "name": f"{p}reg", "label": "Region"},
        {"type": f"select_one_external {p}ext", "name": f"{p}x1", "label": "X1", "choice_filter": "region=${%sreg}" % p},
        {"type": f"select_one {p}sl", "name": f"{p}srch", "label": "Search", "appearance": "search('%sfruits')" % p},
    ], "choices": [*ch, {"list_name": f"{p}sl", "name": "name_key", "label": "name"}], "external_choices": ext}


def b_external(p, ref, ml):
    return {"survey": [
        {"type": "csv-external", "name": f"{p}csvx"},
        {"type": "xml-external", "name": f"{p}xmlx"},
        {"type": "calculate", "name": f"{p}inst", "calculation": "count(instance('%scsvx')/root/item[k = ${%s}])" % (p, ref)},
        {"type": "text", "name": f"{p}inst2", "label": "I2", "constraint": ". = instance('%sxmlx')/root/item[1]/name" % p},
    ]}


def b_dynamic(p, ref, ml):
    return {"survey": [
        {"type": "text", "name": f"{p}src", "label": "Src"},
        {"type": "date", "name": f"{p}d1", "label": "D1", "default": "today()"},
        {"type": "integer", "name": f"{p}d2", "label": "D2", "default": "${%s} + 1" % f"{p}n"},
        {"type": "integer", "name": f"{p}n", "label": "N", "default": "7"},
        {"type": "text", "name": f"{p}ls", "label": "LS", "default": "${last-saved#%ssrc}" % p},
        {"type": "calculate", "name": f"{p}t1", "calculation": "now()", "trigger": "${%ssrc}" % p},
        {"type": "text", "name": f"{p}t2", "label": "T2", "calculation": "concat(${%ssrc}, '!')" % p, "trigger": "${%ssrc}" % p},
        {"type": "background-geopoint", "name": f"{p}bg", "trigger": "${%sn}" % p},
        {"type": "begin repeat", "name": f"{p}rep", "label": "Rep"},
        {"type": "text", "name": f"{p}r1", "label": "R1", "default": "concat('a', ${%ssrc})" % p},
        {"type": "integer", "name": f"{p}r2", "label": "R2", "default": "position(..)"},
        {"type": "text", "name": f"{p}r3", "label": "R3", "default": "static"},
        {"type": "calculate", "name": f"{p}r4", "calculation": "${%sr1}" % p, "trigger": "${%sr3}" % p},
        {"type": "end repeat"},
    ]}


def b_multilang(p, ref, ml):
    def tr(col, t):
        return {f"{col}::{L1}": t, f"{col}::{L2}": t + " fr"}
    return {"survey": [
        {"type": "text", "name": f"{p}m1", **tr("label", "M1 ${%s}" % ref), **tr("hint", "H1"), **tr("guidance_hint", "G1"),
         "constraint": ". != 'z'", **tr("constraint_message", "no z"), "required": "yes", **tr("required_message", "req")},
        {"type": "note", "name": f"{p}m2", **tr("label", "M2"), **tr("media::image", "i.png"), **tr("media::audio", "a.mp3"),
         f"media::video::{L1}": "v.mp4", f"media::big-image::{L2}": "big.png"},
        {"type": "integer", "name": f"{p}m3", f"label::{L1}": "only english", f"hint::{L2}": "seulement"},
        {"type": "begin group", "name": f"{p}mg", **tr("label", "MG")},
        {"type": "text", "name": f"{p}m4", "label": "untranslated", "image": "plain.png"},
        {"type": "end group"},
        {"type": "begin repeat", "name": f"{p}mr", **tr("label", "MR")},
        {"type": "text", "name": f"{p}m5", **tr("label", "M5"), f"label::Swahili (sw)": "tano"},
        {"type": "end repeat"},
    ]}


def b_slot_names(p, ref, ml):
    """Languages and attribute names that spell a slot of the element classes (parent, bind, name, label, extra_data,
    control ...): the nested dictionaries of a dump are keyed by them, so a dump that treats nested keys like slot names
    loses exactly these (C16: "nothing that affects the XForm (group logic ... translations ...) is lost")."""
    return {"survey": [
        {"type": "text", "name": f"{p}s1", "label::parent": "P text", "label::teacher": "T text", "hint::parent": "P hint",
         "hint::teacher": "T hint", "bind::parent": "pv", "bind::extra_data": "xd", "instance::parent": "ip",
         "instance::name": "in", "body::label": "bl"},
        {"type": "begin group", "name": f"{p}sg", "label::parent": "PG", "label::teacher": "TG", "bind::parent": "gp",
         "instance::parent": "gi", "instance::children": "gc", "body::control": "bc"},
        {"type": "integer", "name": f"{p}s2", "label::bind": "B int", "label::parent": "P int", "label::teacher": "T int",
         "media::image::parent": "p.png", "media::image::teacher": "t.png"},
        {"type": "end group"},
        {"type": "begin repeat", "name": f"{p}sr", "label::parent": "PR", "label::teacher": "TR", "instance::parent": "ri",
         "bind::type": "bt"},
        {"type": "text", "name": f"{p}s3", "label::parent": "P3", "label::teacher": "T3", "constraint": ". != ''",
         "constraint_message::parent": "P msg", "constraint_message::teacher": "T msg"},
        {"type": "end repeat"},
    ]}


def b_overrides(p, ref, ml):
    return {"survey": [
        {"type": "text", "name": f"{p}o1", "label": "O1", "bind::type": "int"},
        {"type": "note", "name": f"{p}o2", "label": "O2", "readonly": "false()"},
        {"type": "note", "name": f"{p}o3", "label": "O3", "readonly": "no"},
        {"type": "text", "name": f"{p}o4", "label": "O4", "bind::jr:preload": "uid", "bind::odk:length": "120"},
        {"type": "range", "name": f"{p}o5", "label": "O5", "parameters": "start=0;end=1;step=0.1"},
        {"type": "geopoint", "name": f"{p}o6", "label": "O6", "body::accuracyThreshold": "1.5"},
        {"type": "text", "name": f"{p}o7", "label": "O7", "body::intent": "ex:org.example.app(x=${%s})" % ref,
         "instance::flag": "f-${%s}" % ref, "appearance": "ex:org.example"},
        {"type": "image", "name": f"{p}o8", "label": "O8", "body::mediatype": "image/png"},
        {"type": "integer", "name": f"{p}o9", "label": "O9", "bind::type": "decimal", "constraint": ". > 0",
         "constraint_message": "positive"},
        {"type": "deviceid", "name": f"{p}o10", "bind::jr:preloadParams": "uri:deviceid"},
        {"type": "date", "name": f"{p}o11", "label": "O11", "bind::type": "dateTime"},
    ]}


def b_metadata(p, ref, ml):
    return {"survey": [
        {"type": "start", "name": f"{p}start"}, {"type": "end", "name": f"{p}end"}, {"type": "today", "name": f"{p}today"},
        {"type": "deviceid", "name": f"{p}dev"}, {"type": "username", "name": f"{p}user"}, {"type": "email", "name": f"{p}mail"},
        {"type": "phonenumber", "name": f"{p}phone"}, {"type": "simserial", "name": f"{p}sim"},
        {"type": "subscriberid", "name": f"{p}sub"}, {"type": "start-geopoint", "name": f"{p}sg"},
    ]}


def b_audit(p, ref, ml):
    return {"survey": [
        {"type": "audit", "name": "audit", "parameters": "location-priority=balanced location-min-interval=60 "
                                                         "location-max-age=120 track-changes=true identify-user=true"},
        {"type": "background-audio", "name": f"{p}bga", "parameters": "quality=low"},
    ]}


def b_table_list(p, ref, ml):
    ch = [{"list_name": f"{p}yn", "name": n, "label": n.upper()} for n in ("yes", "no", "dk")]
    return {"survey": [
        {"type": "begin group", "name": f"{p}tl", "label": "Table", "appearance": "table-list"},
        {"type": f"select_one {p}yn", "name": f"{p}tq1", "label": "TQ1"},
        {"type": f"select_one {p}yn", "name": f"{p}tq2", "label": "TQ2", "hint": "h"},
        {"type": "end group"},
        {"type": f"select_one {p}yn", "name": f"{p}lbl", "label": "L", "appearance": "label"},
        {"type": f"select_one {p}yn", "name": f"{p}nolbl", "label": "NL", "appearance": "list-nolabel"},
        {"type": f"select_multiple {p}yn", "name": f"{p}min", "label": "Min", "appearance": "minimal", "default": "yes no"},
    ], "choices": ch}


def b_osm(p, ref, ml):
    return {"survey": [{"type": "osm", "name": f"{p}road", "label": "Road"},
                       {"type": f"osm {p}tags", "name": f"{p}bld", "label": "Building"}],
            "osm": [{"list_name": f"{p}tags", "name": "name", "label": "Name"},
                    {"list_name": f"{p}tags", "name": "addr:city", "label": "City"}]}


def b_loop(p, ref, ml):
    ch = [{"list_name": f"{p}things", "name": n, "label": n.title()} for n in ("car", "bike")]
    return {"survey": [{"type": f"begin loop over {p}things", "name": f"{p}loop", "label": "Loop %(label)s"},
                       {"type": "integer", "name": f"{p}count", "label": "How many %(label)s"},
                       {"type": "end loop"}], "choices": ch}


BUNDLES = {
    "plain": b_plain, "grouplogic": b_group_logic, "choicesextra": b_choices_extra, "choicemedia": b_choice_media_translations,
    "listorder": b_list_order, "parameters": b_parameters, "orother": b_or_other, "fromfile": b_from_file,
    "external": b_external,
    "dynamic": b_dynamic, "multilang": b_multilang, "overrides": b_overrides, "metadata": b_metadata, "audit": b_audit,
    "tablelist": b_table_list, "osm": b_osm, "loop": b_loop, "slotnames": b_slot_names,
}
TOP_ONLY = {"audit", "external"}     # rows that the conventions only allow at the top level
RARE = {"osm"}               # kept out of the pair / random families (see FINDINGS_C16.md: its dump fails outright)

WRAPPERS = {
    "top": [],
    "g": [("group", {"relevant": "${first} != 'skip'"})],
    "r": [("repeat", {"relevant": "${first} != 'none'"})],
    "rg": [("repeat", {}), ("group", {"relevant": "${first} = 'a'", "appearance": "field-list", "bind::foo": "w"})],
    "rr": [("repeat", {"repeat_count": "2"}), ("repeat", {"relevant": "${first} = 'b'"})],
    "grg": [("group", {"readonly": "yes"}), ("repeat", {"repeat_count": "${second}"}), ("group", {"relevant": "${second} > 1"})],
}

SETTINGS = {
    "none": {},
    "basic": {"form_title": "My <Form> & Title", "form_id": "form_x", "version": "2024.1"},
    "instance_name": {"form_id": "f2", "instance_name": "concat(${first}, '-', ${second})"},
    "style": {"style": "pages theme-grid", "form_title": "Styled"},
    "namespaces": {"namespaces": 'ex="http://example.org/ex" esri="http://esri.com/xforms"', "attribute::ex:tag": "v1",
                   "attribute::plain": "v2", "form_id": "nsform"},
    "submission": {"submission_url": "https://example.org/submit", "public_key": "MIIBIjANBgkqhkiG9w0BAQEFAAOCAQ8A",
                   "auto_send": "true", "auto_delete": "false", "version": "3"},
    "language": {"default_language": L2, "form_title": "Langue"},
    "name": {"name": "Root_1", "id_string": "ids", "instance_xmlns": "http://example.org/inst"},
    "misc": {"allow_choice_duplicates": "yes", "clean_text_values": "no", "omit_instanceID": "yes", "prefix": "pfx",
             "delimiter": "+", "sms_keyword": "kw"},
}

ENTITIES = {
    "create": [{"dataset": "trees", "label": "concat(${first}, ' ', ${second})"}],
    "create_if": [{"dataset": "trees", "label": "${first}", "create_if": "${second} > 1"}],
    "update": [{"dataset": "trees", "entity_id": "${first}"}],
    "update_label": [{"dataset": "trees", "entity_id": "${first}", "label": "${first}", "update_if": "${second} = 1"}],
    "upsert": [{"dataset": "trees", "entity_id": "${first}", "update_if": "${second} = 1", "create_if": "${second} != 1",
                "label": "${first}"}],
}


def assemble(name, parts, settings=None, entities=None, rnd=None, multi=False, table=None):
    """parts: [(bundle name, wrapper name)]; a bundle may bring the settings it needs (the explicit ones win)."""
    table = table or BUNDLES
    needed = {}
    survey = [{"type": "text", "name": "first", "label": "First"}, {"type": "integer", "name": "second", "label": "Second"}]
    sheets = {"choices": [], "external_choices": [], "osm": []}
    for i, (bn, wn) in enumerate(parts):
        p = f"p{i}_"
        b = table[bn](p, "first", multi)
        needed.update(b.get("settings", {}))
        wrap = WRAPPERS[wn]
        for j, (kind, cells) in enumerate(wrap):
            survey.append({"type": f"begin {kind}", "name": f"{p}w{j}", "label": f"W{j}", **cells})
        survey.extend(b["survey"])
        for kind, _ in reversed(wrap):
            survey.append({"type": f"end {kind}"})
        for k in sheets:
            sheets[k].extend(b.get(k, []))
    if entities:
        # properties saved from two top-level questions
        survey[0] = {**survey[0], "save_to": "p_first"}
        survey[1] = {**survey[1], "save_to": "p_second"}
    if rnd is not None and sheets["choices"]:
        # interleave lists without changing the order inside a list
        lists = {}
        for r in sheets["choices"]:
            lists.setdefault(r["list_name"], []).append(r)
        names = list(lists)
        rnd.shuffle(names)
        if rnd.random() < 0.5:
            sheets["choices"] = [r for n in names for r in lists[n]]
        else:
            queues = [list(lists[n]) for n in names]
            merged = []
            while any(queues):
                q = rnd.choice([q for q in queues if q])
                merged.append(q.pop(0))
            sheets["choices"] = merged
    wb = WB()
    sh = corpus.sheet_from_dicts(survey, ["type", "name"])
    if rnd is not None and rnd.random() < 0.4:
        hs = list(sh[0])
        rnd.shuffle(hs)
        sh = corpus.sheet_from_dicts(survey, hs)
    wb["survey"] = sh
    for k, rows in sheets.items():
        if rows:
            wb[k] = corpus.sheet_from_dicts(rows, ["list_name", "name"])
    if settings or needed:
        wb["settings"] = corpus.sheet_from_dicts([{**needed, **(settings or {})}])
    if entities:
        wb["entities"] = corpus.sheet_from_dicts(entities)
    return Case(f"C16-{name}", wb=wb, origin="C16")


# ----------------------------------------------------------------------------- family 5: form settings x features
# Form-level settings and legacy features that change HOW the survey is built (not only what is in it), crossed
# with small forms: lists shared by several questions, nesting in group / repeat, translations.


def _tr(ml, t, col="label"):
    return {f"{col}::{L1}": t, f"{col}::{L2}": t + " (fr)"} if ml else {col: t}


def f_shared_multi(p, ref, ml):
    """several select_multiple (and a select_one) on one list"""
    ch = [{"list_name": f"{p}sl", "name": n, **_tr(ml, n.upper())} for n in ("a", "b", "c")]
    return {"survey": [
        {"type": f"select_multiple {p}sl", "name": f"{p}m1", **_tr(ml, "M1")},
        {"type": f"select_multiple {p}sl", "name": f"{p}m2", **_tr(ml, "M2"), "constraint": "count-selected(.) < 3",
         "constraint_message": "at most two"},
        {"type": f"select_one {p}sl", "name": f"{p}o1", **_tr(ml, "O1")},
        {"type": f"select_multiple {p}sl", "name": f"{p}m3", **_tr(ml, "M3"), "choice_filter": "name != ${%so1}" % p},
        {"type": f"select_multiple {p}sl", "name": f"{p}m4", **_tr(ml, "M4 ${%s}" % ref), "relevant": "${%sm1} != ''" % p},
    ], "choices": ch}


def f_shared_multi_none(p, ref, ml):
    """two lists, one already has a choice called none; list media"""
    ch = [{"list_name": f"{p}n1", "name": n, **_tr(ml, n.title()), "media::image": f"{n}.png"} for n in ("x", "none", "y")]
    ch += [{"list_name": f"{p}n2", "name": n, **_tr(ml, n.title()), "grp": "g" + n} for n in ("u", "v")]
    return {"survey": [
        {"type": f"select_multiple {p}n1", "name": f"{p}k1", **_tr(ml, "K1")},
        {"type": f"select_multiple {p}n2", "name": f"{p}k2", **_tr(ml, "K2")},
        {"type": f"select_multiple {p}n1", "name": f"{p}k3", **_tr(ml, "K3")},
        {"type": f"select_multiple {p}n2", "name": f"{p}k4", **_tr(ml, "K4"), "choice_filter": "grp = ${%s}" % ref,
         "parameters": "randomize=true"},
        {"type": f"rank {p}n2", "name": f"{p}k5", **_tr(ml, "K5")},
    ], "choices": ch}


def f_type_defaults(p, ref, ml):
    """types whose type-table entry has defaults (hint, constraint, readonly, preload, mediatype), overridden or not"""
    return {"survey": [
        {"type": "phone number", "name": f"{p}ph1", **_tr(ml, "Ph1"), **_tr(ml, "My hint.", "hint")},
        {"type": "phone number", "name": f"{p}ph2", **_tr(ml, "Ph2")},
        {"type": "phone number", "name": f"{p}ph3", **_tr(ml, "Ph3"), "constraint": "string-length(.) = 9",
         "constraint_message": "nine digits", "hint": "Enter numbers only."},
        {"type": "number of days in last month", "name": f"{p}nd1", **_tr(ml, "Nd1"), "constraint": ". < 20"},
        {"type": "number of days in last six months", "name": f"{p}nd2", **_tr(ml, "Nd2"), "hint": "About ${%s}" % ref,
         "bind::type": "decimal"},
        {"type": "number of days in last year", "name": f"{p}nd3", **_tr(ml, "Nd3"), **_tr(ml, "guide", "guidance_hint")},
        {"type": "percentage", "name": f"{p}pc1", **_tr(ml, "Pc1"), "constraint": ". <= 50", "required": "yes"},
        {"type": "percentage", "name": f"{p}pc2", **_tr(ml, "Pc2"), "hint": "0-100"},
        {"type": "note", "name": f"{p}nt", **_tr(ml, "Nt"), "readonly": "false()", "bind::type": "int"},
        {"type": "add note prompt", "name": f"{p}anp", **_tr(ml, "Anp"), "readonly": "${%s} = 'ro'" % ref},
        {"type": "photo", "name": f"{p}pho", **_tr(ml, "Photo"), "body::mediatype": "image/jpeg", "parameters": "max-pixels=100"},
        {"type": "audio", "name": f"{p}au", **_tr(ml, "Au"), "bind::type": "string", "parameters": "quality=normal"},
        {"type": "file", "name": f"{p}fi", **_tr(ml, "Fi"), "body::accept": ".pdf", "body::mediatype": "application/pdf"},
        {"type": "range", "name": f"{p}rg", **_tr(ml, "Rg"), "parameters": "start=2 end=8 step=3", "bind::type": "decimal"},
    ]}


def f_type_defaults_meta(p, ref, ml):
    """preload types (bind defaults jr:preload / jr:preloadParams / type) and action types, with overrides"""
    return {"survey": [
        {"type": "start time", "name": f"{p}st", "bind::type": "date"},
        {"type": "get today", "name": f"{p}td", "bind::jr:preloadParams": "now"},
        {"type": "imei", "name": f"{p}im", "bind::jr:preload": "context"},
        {"type": "uri:username", "name": f"{p}un", "bind::type": "text", "bind::odk:x": "1"},
        {"type": "sim id", "name": f"{p}si"},
        {"type": "start-geopoint", "name": f"{p}sgp", "bind::type": "string"},
    ]}


def f_loop(p, ref, ml):
    ch = [{"list_name": f"{p}veh", "name": n, **_tr(ml, n.title())} for n in ("car", "bike", "e-scooter")]
    ch += [{"list_name": f"{p}yn", "name": n, **_tr(ml, n.title())} for n in ("yes", "no")]
    return {"survey": [
        {"type": f"begin loop over {p}veh", "name": f"{p}loop", **_tr(ml, "About %(label)s")},
        {"type": "integer", "name": f"{p}n", **_tr(ml, "How many %(label)s"), "constraint": ". >= 0"},
        {"type": f"select_one {p}yn", "name": f"{p}own", **_tr(ml, "Own %(name)s?"), "relevant": "${%s} != ''" % ref},
        {"type": f"select_multiple {p}veh", "name": f"{p}also", **_tr(ml, "Also")},
        {"type": "end loop"},
        {"type": f"select_one {p}veh", "name": f"{p}fav", **_tr(ml, "Favourite")},
    ], "choices": ch}


def f_osm(p, ref, ml):
    ch = [{"list_name": f"{p}yn", "name": n, **_tr(ml, n.title())} for n in ("yes", "no")]
    return {"survey": [
        {"type": "osm", "name": f"{p}way", **_tr(ml, "Way")},
        {"type": f"osm {p}tags", "name": f"{p}bld", **_tr(ml, "Building"), "relevant": "${%s} != ''" % ref},
        {"type": f"osm {p}tags", "name": f"{p}bld2", **_tr(ml, "Building 2"), "required": "yes"},
        {"type": f"select_one {p}yn", "name": f"{p}ok", **_tr(ml, "OK?")},
    ], "choices": ch,
        "osm": [{"list_name": f"{p}tags", "name": "name", "label": "Name"},
                {"list_name": f"{p}tags", "name": "building", "label": "Kind"},
                {"list_name": f"{p}other", "name": "amenity", "label": "Amenity"}]}


def f_dup_choices(p, ref, ml):
    """choice names repeated inside a list (needs allow_choice_duplicates)"""
    ch = [{"list_name": f"{p}dl", "name": n, **_tr(ml, f"{n}{i}"), "grp": "g%d" % (i % 2)}
          for i, n in enumerate(("a", "b", "a", "c", "a"))]
    return {"survey": [
        {"type": f"select_one {p}dl", "name": f"{p}d1", **_tr(ml, "D1")},
        {"type": f"select_multiple {p}dl", "name": f"{p}d2", **_tr(ml, "D2"), "choice_filter": "grp = ${%s}" % ref},
        {"type": f"select_multiple {p}dl", "name": f"{p}d3", **_tr(ml, "D3")},
    ], "choices": ch, "settings": {"allow_choice_duplicates": "yes"}}


def f_prefixed_attrs(p, ref, ml):
    """prefixed attribute columns on questions, groups, repeats (needs the namespaces setting)"""
    return {"survey": [
        {"type": "text", "name": f"{p}x1", **_tr(ml, "X1"), "bind::ex:kind": "k1", "body::ex:look": "l1", "instance::ex:mark": "m1"},
        {"type": "begin group", "name": f"{p}xg", **_tr(ml, "XG"), "bind::ex:kind": "kg", "body::ex:look": "lg",
         "instance::ex:mark": "mg", "body::plain": "p1"},
        {"type": "integer", "name": f"{p}x2", **_tr(ml, "X2"), "bind::esri:fieldType": "esriFieldTypeInteger",
         "body::esri:style": "s", "bind::ex:expr": "${%s}" % ref},
        {"type": "end group"},
        {"type": "begin repeat", "name": f"{p}xr", **_tr(ml, "XR"), "bind::ex:kind": "kr", "body::ex:look": "lr",
         "instance::ex:mark": "mr"},
        {"type": "geopoint", "name": f"{p}x3", **_tr(ml, "X3"), "bind::esri:fieldType": "null"},
        {"type": "end repeat"},
    ], "settings": {"namespaces": 'ex="http://example.org/ex" esri="http://esri.com/xforms"'}}


def f_group_attrs(p, ref, ml):
    """groups with and without label / appearance, carrying body:: bind:: instance:: columns and logic"""
    return {"survey": [
        {"type": "begin group", "name": f"{p}ga", "bind::foo": "b1", "body::bar": "c1", "relevant": "${%s} = 'x'" % ref},
        {"type": "text", "name": f"{p}a1", **_tr(ml, "A1")},
        {"type": "begin group", "name": f"{p}gb", **_tr(ml, "GB"), "appearance": "field-list", "body::bar": "c2",
         "instance::baz": "i2", "readonly": "yes", "required": "yes", "calculation": "1"},
        {"type": "text", "name": f"{p}b1", **_tr(ml, "B1")},
        {"type": "begin group", "name": f"{p}gc", "body::class": "w2", "relevant": "${%sb1} != ''" % p},
        {"type": "note", "name": f"{p}c1", **_tr(ml, "C1 ${%sb1}" % p)},
        {"type": "end group"},
        {"type": "end group"},
        {"type": "end group"},
        {"type": "begin repeat", "name": f"{p}gr", **_tr(ml, "GR"), "body::bar": "c3", "bind::foo": "b3",
         "body::jr:count": "2"},
        {"type": "text", "name": f"{p}r1", **_tr(ml, "R1")},
        {"type": "end repeat"},
    ]}


def f_select_params(p, ref, ml):
    ch = [{"list_name": f"{p}pl", "name": n, **_tr(ml, n.upper())} for n in ("a", "b", "c")]
    return {"survey": [
        {"type": f"select_one {p}pl", "name": f"{p}s1", **_tr(ml, "S1"), "parameters": "randomize=true"},
        {"type": f"select_one {p}pl", "name": f"{p}s2", **_tr(ml, "S2"), "parameters": "randomize=true seed=7"},
        {"type": f"select_one {p}pl", "name": f"{p}s3", **_tr(ml, "S3"), "parameters": "randomize=true, seed=${%ssd}" % p,
         "choice_filter": "name != ${%ss1}" % p},
        {"type": "decimal", "name": f"{p}sd", **_tr(ml, "Seed")},
        {"type": f"select_one {p}pl", "name": f"{p}s4", **_tr(ml, "S4"), "parameters": "randomize=false"},
    ], "choices": ch}


def f_rand_multi(p, ref, ml):
    ch = [{"list_name": f"{p}rl", "name": n, **_tr(ml, n.upper())} for n in ("a", "b", "c")]
    return {"survey": [
        {"type": f"select_multiple {p}rl", "name": f"{p}rm1", **_tr(ml, "RM1"), "parameters": "randomize=true seed=7"},
        {"type": f"select_multiple {p}rl", "name": f"{p}rm2", **_tr(ml, "RM2"), "parameters": "randomize=true",
         "choice_filter": "name != ${%s}" % ref},
        {"type": f"select_multiple {p}rl", "name": f"{p}rm3", **_tr(ml, "RM3")},
        {"type": f"rank {p}rl", "name": f"{p}rm4", **_tr(ml, "RM4"), "parameters": "randomize=true seed=${second}"},
    ], "choices": ch}


def f_from_file(p, ref, ml):
    return {"survey": [
        {"type": f"select_one_from_file {p}f.csv", "name": f"{p}s5", **_tr(ml, "S5"), "parameters": "value=code label=title"},
        {"type": f"select_one_from_file {p}f.csv", "name": f"{p}s6", **_tr(ml, "S6"), "parameters": "label=nm",
         "choice_filter": "grp = ${%s}" % ref},
        {"type": f"select_one_from_file {p}g.geojson", "name": f"{p}s7", **_tr(ml, "S7"), "parameters": "value=uid",
         "appearance": "map"},
        {"type": f"select_one_from_file {p}h.xml", "name": f"{p}s8", **_tr(ml, "S8"), "parameters": "randomize=true value=k"},
        {"type": f"select_one_from_file {p}f.csv", "name": f"{p}s9", **_tr(ml, "S9")},
    ]}


def f_from_file_multi(p, ref, ml):
    return {"survey": [
        {"type": f"select_multiple_from_file {p}m.csv", "name": f"{p}fm1", **_tr(ml, "FM1"), "parameters": "value=code, label=nm"},
        {"type": f"select_multiple_from_file {p}m.csv", "name": f"{p}fm2", **_tr(ml, "FM2"), "choice_filter": "grp = ${%s}" % ref},
    ]}


def f_or_other(p, ref, ml):
    ch = [{"list_name": f"{p}oo", "name": n, **_tr(ml, n.upper())} for n in ("x", "y")]
    return {"survey": [
        {"type": f"select_one {p}oo or_other", "name": f"{p}o1", **_tr(ml, "O1")},
        {"type": f"select_multiple {p}oo or_other", "name": f"{p}o2", **_tr(ml, "O2"), "relevant": "${%so1} != 'x'" % p},
        {"type": f"select_multiple {p}oo", "name": f"{p}o3", **_tr(ml, "O3")},
        {"type": f"select_one {p}oo or_other", "name": f"{p}o4", **_tr(ml, "O4"), "required": "yes"},
    ], "choices": ch}


def f_search(p, ref, ml):
    ch = [{"list_name": f"{p}s1", "name": "name_key", **_tr(ml, "name")},
          {"list_name": f"{p}s2", "name": "k", **_tr(ml, "n"), "media::image": "i.png"},
          {"list_name": f"{p}s2", "name": "static", **_tr(ml, "Static")}]
    return {"survey": [
        {"type": f"select_one {p}s1", "name": f"{p}q1", **_tr(ml, "Q1"), "appearance": "search('%sfruits')" % p},
        {"type": f"select_multiple {p}s2", "name": f"{p}q2", **_tr(ml, "Q2"),
         "appearance": "minimal search('%sfruits', 'contains', 'name', ${%s})" % (p, ref)},
        {"type": f"select_one {p}s2", "name": f"{p}q3", **_tr(ml, "Q3"), "appearance": "search('%sveg')" % p},
        {"type": f"select_one {p}s1", "name": f"{p}q4", **_tr(ml, "Q4"),
         "appearance": "search('%sveg', 'matches', 'kind', 'leaf')" % p},
    ], "choices": ch}


def f_triggers(p, ref, ml):
    return {"survey": [
        {"type": "text", "name": f"{p}src", **_tr(ml, "Src")},
        {"type": "dateTime", "name": f"{p}t1", "calculation": "now()", "trigger": "${%ssrc}" % p},
        {"type": "calculate", "name": f"{p}t2", "calculation": "concat(${%ssrc}, ${%s})" % (p, ref), "trigger": "${%ssrc}" % p},
        {"type": "text", "name": f"{p}t3", **_tr(ml, "T3"), "trigger": "${%s}" % ref},
        {"type": "background-geopoint", "name": f"{p}bg1", "trigger": "${%ssrc}" % p},
        {"type": "background-geopoint", "name": f"{p}bg2", "trigger": "${%s}" % ref},
        {"type": "integer", "name": f"{p}dd", **_tr(ml, "DD"), "default": "${%s} * 2" % "second"},
        {"type": "begin repeat", "name": f"{p}tr", **_tr(ml, "TR")},
        {"type": "text", "name": f"{p}in", **_tr(ml, "In")},
        {"type": "calculate", "name": f"{p}t4", "calculation": "${%sin}" % p, "trigger": "${%sin}" % p},
        {"type": "background-geopoint", "name": f"{p}bg3", "trigger": "${%sin}" % p},
        {"type": "text", "name": f"{p}dy", **_tr(ml, "Dy"), "default": "concat(${%ssrc}, 'x')" % p},
        {"type": "end repeat"},
    ]}


def f_spaces(p, ref, ml):
    """texts whose inner / outer white space the clean_text_values setting is about"""
    ch = [{"list_name": f"{p}ws", "name": n, **_tr(ml, f"Two  spaces {n} ")} for n in ("a", "b")]
    return {"survey": [
        {"type": f"select_one {p}ws", "name": f"{p}w1", **_tr(ml, "A  label   with runs"), **_tr(ml, " padded hint ", "hint")},
        {"type": "text", "name": f"{p}w2", **_tr(ml, "W2"), "constraint": ".  !=  'a  b'", "default": "two  spaces",
         "constraint_message": "no  way"},
        {"type": "calculate", "name": f"{p}w3", "calculation": "concat('a  b',  ${%s})" % ref},
    ], "choices": ch}


FEATURES = {
    "sharedmulti": f_shared_multi, "sharednone": f_shared_multi_none, "typedefaults": f_type_defaults,
    "typemeta": f_type_defaults_meta, "loop": f_loop, "osm": f_osm, "dupchoices": f_dup_choices,
    "prefixed": f_prefixed_attrs, "groupattrs": f_group_attrs, "selparams": f_select_params, "randmulti": f_rand_multi, "fromfile": f_from_file, "fromfilemulti": f_from_file_multi,
    "orother": f_or_other,
    "search": f_search, "triggers": f_triggers, "spaces": f_spaces,
}
F_TOP_ONLY = {"typemeta"}

_NS = 'ex="http://example.org/ex" esri="http://esri.com/xforms"'
F_SETTINGS = {
    "none": {},
    "addnone": {"add_none_option": "yes"},
    "addnone-false": {"add_none_option": "no", "form_title": "T"},
    "dups": {"allow_choice_duplicates": "yes"},
    "deflang": {"default_language": L2},
    "deflang-other": {"default_language": "Spanish (es)", "form_title": "Otro"},
    "style": {"style": "pages theme-grid"},
    "noclean": {"clean_text_values": "no", "form_title": "Two  spaces"},
    "omitid": {"omit_instanceID": "yes", "form_id": "noid"},
    "instname": {"instance_name": "concat(${first}, '/', ${second})"},
    "crypto": {"public_key": "MIIBIjANBgkqhkiG9w0BAQEFAAOCAQ8A", "submission_url": "https://example.org/s",
               "auto_send": "true"},
    "ns": {"namespaces": _NS, "attribute::ex:tag": "v1", "attribute::plain": "v2"},
    "ident": {"name": "Root_1", "id_string": "ids", "instance_xmlns": "http://example.org/inst", "version": "7",
              "prefix": "pf", "delimiter": "+", "sms_keyword": "kw"},
    "all": {"add_none_option": "yes", "allow_choice_duplicates": "yes", "default_language": L1, "style": "pages",
            "clean_text_values": "no", "instance_name": "${first}", "public_key": "MIIB", "submission_url": "https://e.org/s",
            "namespaces": _NS, "attribute::ex:tag": "t", "version": "1", "form_id": "allset", "form_title": "All"},
}
F_ENTITIES = {None: None, "create": ENTITIES["create"], "update": ENTITIES["update_label"], "upsert": ENTITIES["upsert"]}
F_WRAPPERS = ("top", "g", "r", "rg")


def _feature_case(fn, sn, en, wn, ml, second=None):
    st = dict(F_SETTINGS[sn])
    ent = F_ENTITIES[en]
    if ent and "version" not in st:
        st["version"] = "5"
    if fn in F_TOP_ONLY:
        wn = "top"
    parts = [(fn, wn)]
    if second:
        parts.append((second, "top" if second in F_TOP_ONLY else "g"))
    nm = f"sx-{fn}{'+' + second if second else ''}-{sn}-{en or 'noent'}-{wn}-{'ml' if ml else 'sl'}"
    return assemble(nm, parts, settings=st or None, entities=ent, multi=ml, table=FEATURES)


def feature_cases(tier, seed):
    rnd = random.Random(seed * 104729 + 1605)
    out = []
    fs, ss, es = list(FEATURES), list(F_SETTINGS), list(F_ENTITIES)
    if tier == "quick":
        # every feature x every setting once; wrapper, language and entities variants rotate over the grid
        for i, fn in enumerate(fs):
            for j, sn in enumerate(ss):
                k = i * 5 + j * 3
                en = es[(i + j) % len(es)] if (i + 2 * j) % 3 == 0 else None
                out.append(_feature_case(fn, sn, en, F_WRAPPERS[k % len(F_WRAPPERS)], bool((i + j) % 2)))
        # every feature x every entities variant, and two features together under the settings that touch lists
        for i, fn in enumerate(fs):
            for j, en in enumerate(es[1:]):
                out.append(_feature_case(fn, "none", en, F_WRAPPERS[(i + j) % len(F_WRAPPERS)], bool((i + j + 1) % 2)))
        for i in range(40):
            a, b = rnd.sample(fs, 2)
            out.append(_feature_case(a, rnd.choice(("addnone", "all", "dups", "deflang", "ns")), rnd.choice(es),
                                     rnd.choice(F_WRAPPERS), rnd.random() < 0.5, second=b))
        return out
    for fn in fs:
        for sn in ss:
            for wn in (("top",) if fn in F_TOP_ONLY else F_WRAPPERS):
                for ml in (False, True):
                    out.append(_feature_case(fn, sn, None, wn, ml))
            for en in es[1:]:
                out.append(_feature_case(fn, sn, en, rnd.choice(F_WRAPPERS), rnd.random() < 0.5))
    for a, b in itertools.permutations(fs, 2):
        out.append(_feature_case(a, rnd.choice(ss), rnd.choice(es), rnd.choice(F_WRAPPERS), rnd.random() < 0.5, second=b))
    return out


def cases(tier: str, seed: int) -> list[Case]:
    rnd = random.Random(seed * 7907 + 16)
    out = []
    names = list(BUNDLES)
    # 1. every bundle alone in every wrapper, single and multi language variants of the choice labels
    for bn in names:
        for wn in WRAPPERS:
            if bn in TOP_ONLY and wn != "top":
                continue
            out.append(assemble(f"one-{bn}-{wn}", [(bn, wn)]))
        out.append(assemble(f"one-{bn}-ml", [(bn, "top"), ("multilang", "g")], multi=True))
    # 2. every settings variant x a few bundles; every entities variant
    for sn, st in SETTINGS.items():
        for bn in ("plain", "multilang", "choicesextra", "listorder"):
            out.append(assemble(f"settings-{sn}-{bn}", [(bn, "top")], settings=st, multi=(sn == "language")))
    for en, ent in ENTITIES.items():
        for bn, wn in (("plain", "top"), ("grouplogic", "top"), ("choicesextra", "g")):
            out.append(assemble(f"entities-{en}-{bn}", [(bn, wn)], entities=ent,
                                settings={"form_id": "ent", "version": "1"} if "update" in en or en == "upsert" else None))
    # 3. all ordered pairs of bundles (second one nested)
    wl = list(WRAPPERS)
    common = [n for n in names if n not in RARE]
    for i, (a, b) in enumerate(itertools.permutations(common, 2)):
        if tier == "quick" and i % 3:
            continue
        wn = wl[i % len(wl)]
        if b in TOP_ONLY:
            wn = "top"
        out.append(assemble(f"pair-{a}-{b}-{wn}", [(a, "top"), (b, wn)], rnd=rnd, multi=bool(i % 2)))
    # 4. seeded random combinations
    for i in range({"quick": 150, "thorough": 2500}[tier]):
        k = rnd.randint(2, 5)
        parts = []
        for bn in rnd.sample(common if i % 25 else names, k):
            parts.append((bn, "top" if bn in TOP_ONLY else rnd.choice(wl)))
        st = rnd.choice(list(SETTINGS.values())) if rnd.random() < 0.6 else None
        ent = rnd.choice(list(ENTITIES.values())) if rnd.random() < 0.2 else None
        if ent and st is not None and "version" not in st:
            st = {**st, "version": "9"}
        elif ent and st is None:
            st = {"version": "9"}
        out.append(assemble(f"rand-{i}", parts, settings=st, entities=ent, rnd=rnd, multi=rnd.random() < 0.5))
    # 5. form settings x features that change how the survey is built
    out.extend(feature_cases(tier, seed))
    return out
