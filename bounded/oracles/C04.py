"""C04 (bounded e2e): survey rows map one-to-one, in order and nesting, onto instance and body.

The expectation is computed from the source workbook only (bounded.corpus.sv_* helpers: column
conventions, XLSForm type table, begin/end stack machine):

 * primary instance = one node per question row, nested as the begin/end rows nest, in sheet order,
   plus only the documented generated nodes: meta (audit / instanceID / instanceName / entity),
   `<repeat>_count` (repeat_count that is not a plain ${ref}), `<select>_other` (or_other),
   table-list helpers (`generated_table_list_label_N`, `reserved_name_for_field_list_labels_N`) and a
   jr:template copy of each repeat (at every nesting, also repeat > group > repeat);
 * body = the user-visible rows in the same order and nesting, control element / mediatype per the type
   table, appearance and parameter-derived attributes from the cells, repeats wrapped as group + repeat,
   no control for calculate / hidden / metadata / external-instance rows;
 * disabled rows, empty rows and comment rows produce nothing.

Where the XLSForm conventions leave the outcome open the oracle does not demand anything:
 table-list given on a *repeat*, selects that are inside a table-list group but not its plain direct
 members (after a nested section / inside a nested section), visible-type rows without label and hint.
"""
from __future__ import annotations

import random
import re

from bounded import corpus
from bounded.corpus import Case, Result, WB, XForm

USES_DEFAULT_CORPUS = True
N_GENERATED = {"quick": 150, "thorough": 1500}
TIME_BUDGET_S = {"quick": 60, "thorough": 900}

JR_TEMPLATE = "{%s}template" % corpus.NS["jr"]
XF = corpus.XF
NON_CONTROL = {XF + "label", XF + "hint", XF + "setvalue", "{%s}setgeopoint" % corpus.NS["odk"], XF + "output"}

RE_TL_LABEL = re.compile(r"^generated_table_list_label_\d+$")
RE_TL_HEADER = re.compile(r"^reserved_name_for_field_list_labels_\d+$")


class E:
    """Expected node (instance + body)."""

    def __init__(self, name, kind, *, pattern=None, optional=False, srow=None):
        self.name, self.kind, self.pattern, self.optional, self.srow = name, kind, pattern, optional, srow
        self.children: list[E] = []
        self.body = "none"          # 'must' | 'none' | 'opt'
        self.tag = None             # expected control element (prefix form, e.g. input, odk:rank)
        self.attrs: dict = {}       # watched attribute -> expected text | compiled regex | None (= must be absent)

    def matches(self, local):
        return bool(self.pattern.match(local)) if self.pattern is not None else local == self.name

    @property
    def label(self):
        return self.name or self.pattern.pattern


def _has_text(row, *groups):
    return any(corpus.sv_row_has(row, g) for g in groups)


def _control_attr_expectations(sr, e: E, appearance_mode):
    """Watched attributes of the control of question row `sr`. appearance_mode: 'cell'|'member'|'free'."""
    cells = sr.cells
    spec = corpus.SV_XLSFORM_TYPES.get(sr.type) if sr.type else None
    try:
        params = corpus.sv_parse_parameters(corpus.sv_row_get(cells, "parameters"))
    except corpus.SvUnsupported:
        params = None
    a = {}
    app = corpus.sv_row_get(cells, "control", "appearance")
    if appearance_mode == "member":
        a["appearance"] = "list-nolabel"
    elif appearance_mode == "cell":
        a["appearance"] = _val(app)
    if spec is not None:
        a["mediatype"] = spec["mediatype"]
    for k, v in cells.items():
        if k[0] == "control" and len(k) == 2 and k[1] not in ("appearance", "jr:count"):
            a[k[1]] = _val(v)
    if params is None:
        for k in ("rows", "intent", "accuracyThreshold", "unacceptableAccuracyThreshold"):
            a.pop(k, None)
        e.attrs = a
        return
    t = sr.type
    if t in ("text", "string"):
        if "rows" in params:
            a["rows"] = params["rows"]
        else:
            a.setdefault("rows", None)
    if t in ("image", "photo"):
        if "app" in params and app in (None, "annotate"):
            a["intent"] = params["app"]
        elif "app" not in params:
            a.setdefault("intent", None)
    if t == "geopoint":
        a["accuracyThreshold"] = params.get("capture-accuracy", a.get("accuracyThreshold"))
        a["unacceptableAccuracyThreshold"] = params.get("warning-accuracy", a.get("unacceptableAccuracyThreshold"))
    if t == "range":
        for k in ("start", "end", "step"):
            if k in params:
                a[k] = params[k]
    e.attrs = a


def _val(v):
    if v is None:
        return None
    return corpus.sv_ref_regex(v) if "${" in v else v


def expected_tree(wb: WB) -> E:
    """Root E with the expected children (meta excluded; see expected_meta)."""
    rows = corpus.sv_survey_model(wb)
    settings = corpus.sv_settings_record(wb)
    if any(k.strip().lower() in ("flat", "add_none_option") for k in settings):
        raise corpus.SvUnsupported("flat/add_none_option setting")
    root = E(None, "root")
    stack = [root]
    # table-list bookkeeping per open section: None | {'kind', 'state': 'fresh'|'started'|'dirty'}
    tl_stack = [None]
    for sr in rows:
        parent = stack[-1]
        if sr.kind in ("nothing", "audit", "external"):
            continue
        if sr.kind == "end":
            stack.pop()
            tl_stack.pop()
            if tl_stack[-1] is not None:
                tl_stack[-1]["state"] = "dirty"
            continue
        if sr.name == "meta":
            raise corpus.SvUnsupported("row named meta")
        cells = sr.cells
        app = corpus.sv_row_get(cells, "control", "appearance")
        if sr.kind in ("group", "repeat"):
            count = corpus.sv_row_get(cells, "control", "jr:count")
            if count is not None and sr.kind == "group":
                raise corpus.SvUnsupported("repeat_count on a group")
            if count is not None and not corpus.SV_RE_PLAIN_REF.match(count):
                if "${" in count and not re.fullmatch(r"(?:[^$]|\$\{[^\s{}$#]+\})*", count):
                    raise corpus.SvUnsupported("odd repeat_count")
                parent.children.append(E(f"{sr.name}_count", "count"))
            e = E(sr.name, sr.kind, srow=sr)
            e.body = "must"
            is_tl = app is not None and "table-list" in app.split()
            if "intent" in {k[0] for k in cells}:
                raise corpus.SvUnsupported("intent on a section")
            extra = {k[1]: _val(v) for k, v in cells.items()
                     if k[0] == "control" and len(k) == 2 and k[1] not in ("appearance", "jr:count")}
            if sr.kind == "group":
                if is_tl:
                    e.attrs = {"appearance": " ".join(["field-list", *[w for w in app.split() if w != "table-list"]])}
                else:
                    e.attrs = {"appearance": _val(app)}
                e.attrs.update(extra)
            else:
                e.attrs = {} if is_tl else {"appearance": _val(app)}
                e.attrs.update(extra)
                if count is None:
                    e.attrs["jr:count"] = None
                elif corpus.SV_RE_PLAIN_REF.match(count):
                    e.attrs["jr:count"] = corpus.sv_ref_regex(count)
                else:
                    e.attrs["jr:count"] = corpus.sv_ref_regex("${%s_count}" % sr.name)
            if is_tl and _has_text(cells, "label", "hint"):
                g = E(None, "tl-label", pattern=RE_TL_LABEL, optional=(sr.kind == "repeat"))
                g.body, g.tag = ("must" if sr.kind == "group" else "opt"), "input"
                e.children.append(g)
            parent.children.append(e)
            stack.append(e)
            if is_tl:
                tl_stack.append({"kind": sr.kind, "state": "fresh"})
            else:
                tl_stack.append(None)
            continue
        # question row
        e = E(sr.name, "question", srow=sr)
        spec = corpus.SV_XLSFORM_TYPES.get(sr.type) if sr.type else None
        is_select = sr.list_name is not None
        # table-list membership: 'no' | 'member' | 'free'
        membership = "no"
        if is_select:
            here = tl_stack[-1]
            if here is not None:
                if here["kind"] == "group" and here["state"] != "dirty" and sr.type in ("select_one", "select_multiple"):
                    membership = "member"
                else:
                    membership = "free"
            elif any(t is not None for t in tl_stack):
                membership = "free"
        if membership == "member":
            here = tl_stack[-1]
            if here["state"] == "fresh":
                h = E(None, "tl-header", pattern=RE_TL_HEADER)
                h.body, h.tag, h.attrs = "must", spec["control"], {"appearance": "label"}
                parent.children.append(h)
                here["state"] = "started"
        elif membership == "free":
            h = E(None, "tl-header", pattern=RE_TL_HEADER, optional=True)
            h.body = "opt"
            parent.children.append(h)
        if spec is None:
            e.body = "opt"
        else:
            labelled = _has_text(cells, "label", "hint")
            if spec["control"] is None:
                e.body = "opt" if (labelled and sr.type not in ("calculate", "hidden")) else "none"
            else:
                e.body = "must" if labelled else "opt"
                e.tag = spec["control"]
            _control_attr_expectations(sr, e, {"no": "cell", "member": "member", "free": "free"}[membership])
        parent.children.append(e)
        if sr.or_other:
            o = E(f"{sr.name}_other", "other")
            o.body, o.tag = "must", "input"
            parent.children.append(o)
    return root


def expected_meta(wb: WB):
    """Set of expected meta child names (empty set => no meta block), or None when not modelled."""
    rows = corpus.sv_survey_model(wb)
    settings = {k.strip(): v for k, v in corpus.sv_settings_record(wb).items()}
    names = set()
    if any(sr.kind == "audit" for sr in rows):
        names.add("audit")
    omit = settings.get("omit_instanceID")
    if omit is None or corpus.sv_clean_cell(omit) not in corpus.SV_YES:
        names.add("instanceID")
    if any(k.lower() == "omit_instanceid" and k != "omit_instanceID" for k in settings):
        return None
    if settings.get("instance_name"):
        names.add("instanceName")
    ent = corpus.sv_find_sheet(wb, "entities")
    if ent is not None and any(any(c not in (None, "") for c in r) for r in ent[1]):
        names.add("entity")
    return names


# ----------------------------------------------------------------------------- checking


def V(key, what):
    return {"key": f"C04:{key}", "what": what}


def _local(el):
    return XForm.local(el.tag)


def _classify(name):
    if RE_TL_LABEL.match(name) or RE_TL_HEADER.match(name):
        return "table-list-helper"
    if name.endswith("_count"):
        return "count-helper"
    if name.endswith("_other"):
        return "other-companion"
    return "node"


class Checker:
    def __init__(self, x: XForm):
        self.x = x
        self.out: list[dict] = []
        self.templates: dict[tuple, int] = {}
        self.regulars: dict[tuple, int] = {}

    # ---- instance
    def instance_children(self, el, expected: list[E], path: tuple):
        actual = [c for c in el if not (path == () and _local(c) == "meta")]
        i = 0
        where = "/" + "/".join((_local(self.x.iroot), *path))
        for exp in expected:
            if exp.kind == "repeat":
                grp = []
                while i < len(actual) and _local(actual[i]) == exp.name:
                    grp.append(actual[i])
                    i += 1
                if not grp:
                    return self._instance_mismatch(where, expected, actual, i, exp)
                tpl = [g for g in grp if JR_TEMPLATE in g.attrib]
                reg = [g for g in grp if JR_TEMPLATE not in g.attrib]
                if len(tpl) > 1 or len(reg) > 1:
                    self.out.append(V("instance:duplicate-node:repeat",
                                      f"{len(tpl)} template and {len(reg)} plain copies of repeat {exp.name} under {where}"))
                p = (*path, exp.name)
                self.templates[p] = self.templates.get(p, 0) + len(tpl)
                self.regulars[p] = self.regulars.get(p, 0) + len(reg)
                for g in grp:
                    self.instance_children(g, exp.children, p)
                continue
            if i < len(actual) and exp.matches(_local(actual[i])):
                node = actual[i]
                i += 1
                if JR_TEMPLATE in node.attrib:
                    self.out.append(V("instance:template-on-non-repeat", f"{where}/{_local(node)} carries jr:template"))
                if exp.kind == "group":
                    self.instance_children(node, exp.children, (*path, exp.name))
                elif len(node):
                    self.out.append(V(f"instance:children-under-{exp.kind}",
                                      f"{where}/{_local(node)} has child elements {[_local(c) for c in node]}"))
                continue
            if exp.optional:
                continue
            return self._instance_mismatch(where, expected, actual, i, exp)
        if i < len(actual):
            extra = _local(actual[i])
            self.out.append(V(f"instance:unexpected:{_classify(extra)}",
                              f"under {where}: node {extra!r} is not a survey row nor a documented generated node here "
                              f"(children: {[_local(c) for c in actual]})"))

    def _instance_mismatch(self, where, expected, actual, i, exp):
        act_names = [_local(c) for c in actual]
        req = [e for e in expected if not e.optional]
        found_later = any(exp.matches(n) for n in act_names)
        extras = [n for n in act_names if not any(e.matches(n) for e in expected)]
        if extras:
            self.out.append(V(f"instance:unexpected:{_classify(extras[0])}",
                              f"under {where}: node {extras[0]!r} is not a survey row nor a documented generated node "
                              f"here (children: {act_names}; expected {[e.label for e in req]})"))
        elif found_later:
            self.out.append(V("instance:order", f"under {where}: children {act_names} are not in sheet order "
                                                f"{[e.label for e in req]}"))
        else:
            self.out.append(V(f"instance:missing:{exp.kind}", f"under {where}: no node for {exp.kind} {exp.label!r} "
                                                              f"(children: {act_names})"))

    # ---- body
    def body_children(self, el, expected: list[E], path: tuple, rootname: str):
        actual = [c for c in el if c.tag not in NON_CONTROL]
        where = "/" + "/".join((rootname, *path))
        i = 0
        for exp in expected:
            if exp.body == "none":
                continue
            cand = actual[i] if i < len(actual) else None
            want_ref = None if exp.pattern is not None else where + "/" + exp.name
            ok = cand is not None and self._ref_matches(cand, exp, where, want_ref)
            if not ok:
                if exp.body == "opt":
                    continue
                return self._body_mismatch(where, expected, actual, i, exp)
            i += 1
            ref = cand.get("ref")
            if exp.kind == "repeat":
                inner = [c for c in cand if c.tag not in NON_CONTROL]
                if cand.tag != XF + "group" or len(inner) != 1 or inner[0].tag != XF + "repeat" \
                        or inner[0].get("nodeset") != ref:
                    self.out.append(V("body:repeat-not-group-plus-repeat",
                                      f"repeat {ref}: expected <group ref><repeat nodeset> wrapper, got <{_local(cand)}> with "
                                      f"{[(_local(c), c.get('nodeset') or c.get('ref')) for c in inner]}"))
                    continue
                self._attrs(inner[0], exp, ref)
                self.body_children(inner[0], exp.children, (*path, exp.name), rootname)
            elif exp.kind == "group":
                if cand.tag != XF + "group":
                    self.out.append(V("body:wrong-control:group", f"{ref}: expected <group>, got <{_local(cand)}>"))
                    continue
                self._attrs(cand, exp, ref)
                self.body_children(cand, exp.children, (*path, exp.name), rootname)
            else:
                if exp.tag is not None:
                    got = corpus.sv_qname_prefixed(cand.tag)
                    if got != exp.tag:
                        t = exp.srow.type if exp.srow is not None else exp.kind
                        self.out.append(V(f"body:wrong-control:{t}", f"{ref}: expected <{exp.tag}>, got <{got}>"))
                        continue
                self._attrs(cand, exp, ref)
                stray = [c for c in cand if c.tag in (XF + "group", XF + "repeat", XF + "input", XF + "select",
                                                      XF + "select1", XF + "upload", XF + "trigger", XF + "range")]
                if stray:
                    self.out.append(V("body:control-inside-control", f"{ref} contains {[_local(c) for c in stray]}"))
        if i < len(actual):
            c = actual[i]
            self.out.append(V("body:unexpected-control",
                              f"under {where}: <{_local(c)} ref={c.get('ref') or c.get('nodeset')!r}> does not correspond to a "
                              f"user-visible row at this place (controls here: {[x.get('ref') or x.get('nodeset') for x in actual]})"))

    def _ref_matches(self, cand, exp, where, want_ref):
        ref = cand.get("ref")
        if ref is None:
            return False
        if want_ref is not None:
            return ref == want_ref
        head, _, last = ref.rpartition("/")
        return head == where and bool(exp.pattern.match(last))

    def _body_mismatch(self, where, expected, actual, i, exp):
        refs = [c.get("ref") or c.get("nodeset") for c in actual]
        want = where + "/" + exp.label
        exp_refs = {where + "/" + e.name for e in expected if e.name and e.body != "none"}
        extras = [r for r in refs if r not in exp_refs and not (r or "").rpartition("/")[2].startswith(
            ("generated_table_list_label_", "reserved_name_for_field_list_labels_"))]
        if want in refs:
            self.out.append(V("body:order", f"under {where}: controls {refs} are not in sheet order"))
        elif extras:
            self.out.append(V("body:unexpected-control", f"under {where}: control for {extras[0]!r} is not expected here "
                                                         f"(controls: {refs})"))
        else:
            self.out.append(V(f"body:missing-control:{exp.kind}", f"no control for user-visible {exp.kind} {want} "
                                                                  f"(controls under {where}: {refs})"))

    def _attrs(self, el, exp: E, ref):
        got = {corpus.sv_qname_prefixed(k): v for k, v in el.attrib.items()}
        t = exp.srow.type if (exp.srow is not None and exp.kind == "question") else exp.kind
        for k, want in exp.attrs.items():
            have = got.get(k)
            if want is None:
                if have is not None:
                    self.out.append(V(f"body:attr-unexpected:{k}", f"{ref} ({t}): attribute {k}={have!r} has no source cell"))
            elif hasattr(want, "match"):
                if have is None or not want.match(have):
                    self.out.append(V(f"body:attr-wrong:{k}", f"{ref} ({t}): {k}={have!r} does not match the cell"))
            elif have != want:
                self.out.append(V(f"body:attr-wrong:{k}", f"{ref} ({t}): {k}={have!r}, the row's cells dictate {want!r}"))


def _collect_repeats(e: E, path=()):
    for c in e.children:
        if c.kind == "repeat":
            yield (*path, c.name)
        if c.kind in ("repeat", "group"):
            yield from _collect_repeats(c, (*path, c.name))


def check(case: Case, res: Result, ctx: dict) -> list[dict]:
    if not res.ok or res.xform is None:
        return []
    wb = corpus.sv_case_wb(case)
    if wb is None:
        return []
    try:
        root = expected_tree(wb)
        meta = expected_meta(wb)
    except corpus.SvUnsupported:
        return []
    x, err = corpus.parse_ok(res.xform)
    if x is None or x.iroot is None or x.body is None:
        return []
    ck = Checker(x)
    rootname = _local(x.iroot)
    ck.instance_children(x.iroot, root.children, ())
    for p in _collect_repeats(root):
        path = "/" + "/".join((rootname, *p))
        if p in ck.templates or p in ck.regulars:
            if ck.templates.get(p, 0) == 0:
                nest = "nested" if any(q != p and p[:len(q)] == q for q in _collect_repeats(root)) else "top-level"
                ck.out.append(V(f"instance:missing:repeat-template:{nest}", f"repeat {path} has no jr:template copy anywhere "
                                                                            f"in the primary instance"))
            if ck.regulars.get(p, 0) == 0:
                ck.out.append(V("instance:missing:repeat-plain-copy", f"repeat {path} has only jr:template copies"))
    if meta is not None:
        metas = [c for c in x.iroot if _local(c) == "meta"]
        if not meta and metas:
            ck.out.append(V("instance:unexpected:meta", f"meta block {[_local(c) for c in metas[0]]} without any source"))
        elif meta:
            if len(metas) != 1:
                ck.out.append(V("instance:missing:meta", f"{len(metas)} meta blocks, expected one with {sorted(meta)}"))
            else:
                got = [_local(c) for c in metas[0]]
                if sorted(got) != sorted(meta):
                    ck.out.append(V("instance:meta-children", f"meta children {got}, expected {sorted(meta)}"))
    ck.body_children(x.body, root.children, (), rootname)
    seen, out = set(), []
    for v in ck.out:
        if v["key"] not in seen:
            seen.add(v["key"])
            out.append(v)
    return out


# ----------------------------------------------------------------------------- cases

CHOICES = (["list_name", "name", "label"], [["l1", "a", "A"], ["l1", "b", "B"], ["l2", "x", "X"], ["l2", "y", "Y"]])
HEAD = ["type", "name", "label", "hint", "appearance", "parameters", "repeat_count", "calculation", "disabled",
        "relevant", "body::accuracyThreshold", "trigger"]


def _wb(rows, settings=None, header=None, entities=None):
    header = list(header or HEAD)
    for r in rows:
        for k in r:
            if k not in header:
                header.append(k)
    wb = WB()
    wb["survey"] = (header, [[r.get(h) for h in header] for r in rows])
    wb["choices"] = ([*CHOICES[0]], [list(r) for r in CHOICES[1]])
    if settings:
        wb["settings"] = (list(settings), [list(settings.values())])
    if entities:
        wb["entities"] = (list(entities), [list(entities.values())])
    return wb


def q(t, n, label="L", **kw):
    d = {"type": t, "name": n}
    if label is not None:
        d["label"] = f"{label} {n}"
    d.update(kw)
    return d


def begin(kind, n, label="S", us=False, **kw):
    d = {"type": f"begin_{kind}" if us else f"begin {kind}", "name": n}
    if label is not None:
        d["label"] = f"{label} {n}"
    d.update(kw)
    return d


def end(kind, us=False, **kw):
    return {"type": f"end_{kind}" if us else f"end {kind}", **kw}


# Every question type of the table with the cells that make it convertible.
TYPE_ROWS = [
    q("text", "t_text"), q("text", "t_text_rows", parameters="rows=4"), q("text", "t_text_ml", appearance="multiline"),
    q("integer", "t_int"), q("decimal", "t_dec", appearance="bearing"),
    q("range", "t_range"), q("range", "t_range_p", parameters="start=2 end=8 step=2", appearance="picker"),
    q("range", "t_range_d", parameters="start=0.5;end=2.5;step=0.5"),
    q("note", "t_note"), q("date", "t_date", appearance="month-year"), q("time", "t_time"), q("dateTime", "t_dt"),
    q("geopoint", "t_gp", parameters="capture-accuracy=10 warning-accuracy=50", appearance="maps"),
    q("geopoint", "t_gp2", parameters="allow-mock-accuracy=true"), q("geotrace", "t_gt"), q("geoshape", "t_gs"),
    q("barcode", "t_bc"), q("image", "t_img", parameters="max-pixels=640"),
    q("image", "t_img_app", parameters="max-pixels=640 app=com.example.cam"),
    q("image", "t_img_ann", parameters="app=com.example.cam", appearance="annotate"),
    q("image", "t_img_sig", parameters="app=com.example.cam", appearance="signature"),
    q("audio", "t_audio", parameters="quality=low"), q("video", "t_video"), q("file", "t_file"),
    q("acknowledge", "t_ack"),
    q("calculate", "t_calc", label=None, calculation="1 + 1"), q("hidden", "t_hidden", label=None),
    q("select_one l1", "t_s1", appearance="minimal"), q("select_multiple l2", "t_sm"),
    q("select_one l1 or_other", "t_s1o"), q("select_multiple l2 or_other", "t_smo", appearance="columns"),
    q("rank l1", "t_rank"), q("select_one_from_file f.csv", "t_sff"), q("select_multiple_from_file g.xml", "t_smf"),
    q("start", "t_start", label=None), q("end", "t_end", label=None), q("today", "t_today", label=None),
    q("deviceid", "t_dev", label=None), q("username", "t_user", label=None), q("email", "t_email", label=None),
    q("phonenumber", "t_phone", label=None), q("start-geopoint", "t_sgp", label=None),
    q("background-audio", "t_bga", label=None),
    q("xml-external", "t_xmlext", label=None), q("csv-external", "t_csvext", label=None),
    {"type": "audit"},
]


def _shapes():
    """Small-scope exhaustive nesting shapes: every sequence over {Q, G(...), R(...)} up to a size bound.
    A shape is a nested tuple; 'q' question, ('g', children), ('r', children)."""
    def gen(depth, budget):
        # lists of items using exactly <= budget items in total
        if budget == 0:
            yield []
            return
        yield []
        for first in items(depth, budget):
            used = size(first)
            for rest in gen(depth, budget - used):
                yield [first, *rest]

    def items(depth, budget):
        yield "q"
        if depth > 0 and budget >= 2:
            for kind in "gr":
                for inner in gen(depth - 1, budget - 1):
                    if inner:
                        yield (kind, inner)

    def size(it):
        return 1 if it == "q" else 1 + sum(size(c) for c in it[1])

    return gen


def _render_shape(shape, rnd: random.Random | None = None, variant=0):
    rows, counter = [], [0]

    def nm(p):
        counter[0] += 1
        return f"{p}{counter[0]}"

    def walk(items_, depth):
        for it in items_:
            if it == "q":
                n = nm("q")
                rows.append(q("text" if variant == 0 else ["integer", "select_one l1", "note", "image"][counter[0] % 4], n))
            else:
                kind = {"g": "group", "r": "repeat"}[it[0]]
                n = nm(it[0])
                kw = {}
                if kind == "repeat" and variant == 1 and counter[0] % 2:
                    kw["repeat_count"] = "2 + 1"
                if kind == "group" and variant == 1 and counter[0] % 3 == 0:
                    kw["appearance"] = "field-list"
                rows.append(begin(kind, n, us=(variant == 1 and counter[0] % 2 == 0),
                                  label=(None if variant == 1 and counter[0] % 5 == 0 and kind == "repeat" else "S"), **kw))
                walk(it[1], depth + 1)
                rows.append(end(kind, us=(variant == 1 and counter[0] % 3 == 0)))

    walk(shape, 0)
    return rows


def cases(tier: str, seed: int) -> list[Case]:
    rnd = random.Random(seed * 7919 + 4)
    out: list[Case] = []

    def add(name, rows, **kw):
        if not any(r.get("name") and not r["type"].startswith(("begin", "end")) for r in rows):
            rows = [*rows, q("text", "tail_q")]
        out.append(Case(f"C04-{name}", wb=_wb(rows, **kw), origin="C04"))

    # 1. every type, flat / inside group / inside repeat / inside repeat>group>repeat
    add("types-flat", TYPE_ROWS)
    no_audit = [r for r in TYPE_ROWS if r["type"] != "audit"]
    add("types-in-group", [begin("group", "g"), *no_audit, end("group")])
    # (external-instance rows are kept out of repeats: the converter cannot build a template around them)
    no_ext = [r for r in no_audit if not r["type"].endswith("-external")]
    add("types-in-repeat", [begin("repeat", "r"), *no_ext, end("repeat"), {"type": "audit"}])
    add("types-deep", [begin("repeat", "r"), begin("group", "g"), begin("repeat", "rr"), *no_ext, end("repeat"),
                       end("group"), end("repeat")])
    for i, r in enumerate(no_audit):
        add(f"type-alone-{i}", [q("text", "first"), r, q("integer", "last")])

    # 2. small-scope exhaustive nesting shapes
    gen = _shapes()
    bound = {"quick": (3, 6), "thorough": (4, 7)}[tier]
    shapes = [s for s in gen(bound[0], bound[1]) if s]
    for i, s in enumerate(shapes):
        add(f"shape-{i}", _render_shape(s, variant=0))
        if i % 3 == 0:
            add(f"shape-v-{i}", _render_shape(s, variant=1))

    # 3. targeted interleavings: repeat directly after a nested group, count helper inside a group, or_other last,
    #    repeat > group > repeat (and deeper chains), sibling repeats inside groups inside repeats
    chains = [["r", "g", "r"], ["r", "g", "g", "r"], ["r", "r", "g", "r"], ["g", "r", "g", "r"], ["r", "g", "r", "g", "r"],
              ["r", "r"], ["r", "r", "r"], ["g", "g", "r"], ["g", "r", "r"], ["r", "g", "g", "g", "r"]]
    for ci, chain in enumerate(chains):
        for leaf_first in (False, True):
            rows = []
            for d, k in enumerate(chain):
                kind = {"g": "group", "r": "repeat"}[k]
                rows.append(begin(kind, f"{k}{d}"))
                if leaf_first:
                    rows.append(q("text", f"q{d}"))
            rows.append(q("integer", "leaf"))
            for d, k in reversed(list(enumerate(chain))):
                if not leaf_first:
                    rows.append(q("text", f"p{d}"))
                rows.append(end({"g": "group", "r": "repeat"}[k]))
            add(f"chain-{ci}-{int(leaf_first)}", rows)
    add("rep-after-nested-group", [begin("group", "g1"), begin("group", "g2"), q("text", "a"), end("group"),
                                   begin("repeat", "r1"), q("text", "b"), end("repeat"), end("group"), q("text", "c")])
    add("count-in-group", [q("integer", "n"), begin("group", "g"), begin("repeat", "r", repeat_count="${n} + 1"),
                           q("text", "a"), end("repeat"), q("text", "z"), end("group")])
    add("count-plain-ref", [q("integer", "n"), begin("repeat", "r", repeat_count="${n}"), q("text", "a"), end("repeat")])
    add("count-literal", [begin("repeat", "r", repeat_count="3"), q("text", "a"), end("repeat")])
    add("count-nested", [q("integer", "n"), begin("repeat", "r", repeat_count="${n}*2"), q("integer", "m"),
                         begin("group", "g"), begin("repeat", "rr", repeat_count="${m} + 0"), q("text", "a"), end("repeat"),
                         end("group"), end("repeat")])
    add("other-last-in-group", [begin("group", "g"), q("text", "a"), q("select_one l1 or_other", "s"), end("group"),
                                q("text", "b")])
    add("other-last-in-repeat-last-row", [q("text", "a"), begin("repeat", "r"), q("select_multiple l1 or other", "s"),
                                          end("repeat")])
    add("other-specify", [q("select_one l2 or specify other", "s"), q("text", "a")])
    add("two-sibling-repeats-in-rgr", [begin("repeat", "r"), begin("group", "g"), begin("repeat", "x"), q("text", "a"),
                                       end("repeat"), begin("repeat", "y"), q("text", "b"), end("repeat"), end("group"),
                                       begin("repeat", "z"), q("text", "c"), end("repeat"), end("repeat")])
    add("names-prefix-of-each-other", [begin("repeat", "r"), q("text", "a"), end("repeat"), begin("repeat", "r2"),
                                       q("text", "a2"), begin("group", "r2g"), begin("repeat", "r2gr"), q("text", "a3"),
                                       end("repeat"), end("group"), end("repeat"), q("text", "r_count"),
                                       q("text", "a_other")])

    # 4. disabled / comment / empty rows everywhere
    add("disabled", [q("text", "a"), q("text", "b", disabled="yes"), q("text", "c", disabled="no"),
                     q("select_one l1 or_other", "d", disabled="TRUE"), q("integer", "e", disabled="true"),
                     begin("group", "g", disabled="no"), q("text", "f", disabled="Yes"), q("text", "h"), end("group")])
    add("disabled-section", [q("text", "a"), begin("repeat", "r", disabled="yes"), q("text", "b", disabled="yes"),
                             end("repeat", disabled="yes"), q("text", "c")])
    add("comment-rows", [q("text", "a"), {"hint": "just a comment"}, {}, begin("group", "g"), {"relevant": "note to self"},
                         q("text", "b"), {}, end("group"), {"appearance": "x"}, q("text", "c")])

    # 5. table-list: group (members, or_other, no label), state must not leak past the section that set it
    for kind in ("group", "repeat"):
        laters = {"s1min": [q("select_one l1", "after1", appearance="minimal"), q("select_one l1", "after2")],
                  "sm": [q("select_multiple l1", "after1"), q("text", "between"), q("select_multiple l1", "after2",
                                                                                      appearance="minimal")],
                  "other-list": [q("select_one l2", "after1", appearance="minimal")],
                  "mixed-lists": [q("select_one l1", "after1"), q("select_one l2", "after2")],
                  "rank": [q("text", "between"), q("rank l1", "after1")]}
        for ln, later in laters.items():
            add(f"table-list-{kind}-then-{ln}",
                [begin("group", "outer"), begin(kind, "tl", appearance="table-list"), q("select_one l1", "m1"),
                 q("select_one l1", "m2"), end(kind), *later, end("group"), q("select_one l1", "top")])
            add(f"table-list-{kind}-toplevel-then-{ln}",
                [begin(kind, "tl", appearance="table-list"), q("select_one l1", "m1"), end(kind), *later])
            add(f"table-list-{kind}-nolabel-deep-then-{ln}",
                [begin("repeat", "r0"), begin("group", "g0"), begin(kind, "tl", label=None, appearance="table-list"),
                 q("select_multiple l1", "m1"), end(kind), q("note", "n"), *later, end("group"), *[
                    {**r, "name": r["name"] + "_b"} for r in later], end("repeat")])
    add("table-list-nolabel", [begin("group", "tl", label=None, appearance="table-list"), q("select_multiple l1", "m1"),
                               q("select_multiple l1", "m2", appearance="minimal"), end("group")])
    add("table-list-hint-only", [begin("group", "tl", label=None, hint="H", appearance="table-list minimal"),
                                 q("text", "t0"), q("select_one l2", "m1"), q("select_one l2 or_other", "m2"),
                                 q("note", "n1"), end("group"), q("select_one l1", "z")])
    add("table-list-in-repeat", [begin("repeat", "r"), begin("group", "tl", appearance="table-list"),
                                 q("select_one l1", "m1"), q("select_one l1", "m2"), end("group"), q("select_one l2", "z"),
                                 end("repeat"), q("select_one l2", "zz", appearance="likert")])
    add("table-list-empty-then-select", [begin("group", "tl", appearance="table-list"), q("text", "t0"), end("group"),
                                         q("select_one l1", "z", appearance="quick")])
    add("field-list-not-table", [begin("group", "fl", appearance="field-list"), q("select_one l1", "m1"),
                                 q("select_one l1", "m2", appearance="label"), end("group")])

    # 6. settings / meta interplay
    add("omit-instanceid", [q("text", "a")], settings={"omit_instanceID": "yes"})
    add("omit-instanceid-audit", [q("text", "a"), {"type": "audit"}], settings={"omit_instanceID": "true"})
    add("instance-name", [q("text", "a")], settings={"instance_name": "concat(${a}, '-x')", "omit_instanceID": "no"})
    add("name-setting", [begin("repeat", "r"), q("text", "a"), end("repeat")], settings={"name": "myroot", "form_id": "f"})
    add("entities", [q("text", "a")], entities={"dataset": "trees", "label": "a"})
    add("instance-xmlns", [begin("repeat", "r"), q("text", "a"), end("repeat")], settings={"instance_xmlns": "http://ex.org/x"})

    # 7. random rich forms: all types, deep nesting, helpers anywhere
    n_rand = {"quick": 400, "thorough": 4000}[tier]
    for i in range(n_rand):
        out.append(_random_case(rnd, i))
    return out


def _random_case(rnd: random.Random, i: int) -> Case:
    rows, stack, used = [], [], set()
    pool_all = [r for r in TYPE_ROWS if r["type"] != "audit"]
    pool_rep = [r for r in pool_all if not r["type"].endswith("-external")]

    def pool_now():
        return pool_rep if "repeat" in stack else pool_all

    def fresh(prefix):
        while True:
            n = f"{prefix}{rnd.randint(1, 60)}"
            if n.lower() not in used and f"{n}_other".lower() not in used:
                used.add(n.lower())
                used.add(f"{n}_other".lower())
                used.add(f"{n}_count".lower())
                return n

    in_tl = []
    for _ in range(rnd.randint(3, 14)):
        x = rnd.random()
        if x < 0.28 and len(stack) < 5:
            kind = rnd.choice(["group", "repeat", "repeat"])
            kw = {}
            if kind == "repeat" and rnd.random() < 0.3:
                kw["repeat_count"] = rnd.choice(["3", "1 + 1", "${first} + 1", "${first}"])
            if rnd.random() < 0.2:
                kw["appearance"] = rnd.choice(["field-list", "table-list", "compact"])
            if rnd.random() < 0.2:
                kw["relevant"] = "${first} > 0"
            rows.append(begin(kind, fresh(kind[0]), us=rnd.random() < 0.3,
                              label=None if (kind == "repeat" or kw.get("appearance") == "field-list") and rnd.random() < 0.3
                              else "S", **kw))
            stack.append(kind)
            in_tl.append(kw.get("appearance") == "table-list")
            tmpl = rnd.choice(pool_now())
            if in_tl[-1]:
                tmpl = q("select_one l1", "x")
            rows.append({**tmpl, "name": fresh("q")})
        elif x < 0.45 and stack:
            rows.append(end(stack.pop(), us=rnd.random() < 0.3))
            in_tl.pop()
        elif x < 0.5:
            rows.append(rnd.choice([{}, {"hint": "comment"}, {**rnd.choice(pool_now()), "name": fresh("d"), "disabled": "yes"}]))
        else:
            tmpl = rnd.choice(pool_now())
            if in_tl and in_tl[-1]:
                tmpl = rnd.choice([q("select_one l1", "x"), q("select_one l1", "x", appearance="minimal"), q("note", "x")])
            rows.append({**tmpl, "name": fresh("q")})
    while stack:
        rows.append(end(stack.pop()))
        if rnd.random() < 0.3:
            rows.append({**rnd.choice(pool_now()), "name": fresh("q")})
    rows.insert(0, q("integer", "first"))
    if rnd.random() < 0.2:
        rows.append({"type": "audit"})
    header = list(HEAD)
    if rnd.random() < 0.4:
        rnd.shuffle(header)
    settings = None
    if rnd.random() < 0.3:
        settings = rnd.choice([{"omit_instanceID": "yes"}, {"instance_name": "${first}"}, {"name": "root_x"},
                               {"form_id": "abc", "version": "3"}])
    return Case(f"C04-rand-{i}", wb=_wb(rows, settings=settings, header=header), origin="C04")
