"""C12 (bounded e2e): container format and delivery channel do not matter.

Statement checked.  The *content* of a workbook is an abstract table of canonical cell texts
(corpus.WB after `canon_wb`: text trimmed, nbsp -> space, empty -> no cell).  That one content is
rendered as

    dict   the equivalent dict a reader would hand to convert()      (the reference rendering)
    md     Markdown table text
    csv    XLSForm CSV text
    xlsx   an OOXML workbook written with openpyxl (also delivered as .xlsm), plain strings or
           *typed* cells (int / integral float / decimal float / bool / padded text / nbsp) whose
           canonical reading - as the property spells it - is the same text
    xls    only via the fixtures of corpus.REPO/tests (no XLS writer exists): an independent xlrd
           based reading of the fixture gives the content

and delivered as path (str and PathLike, in a private temp dir; suffix .xlsx/.xlsm/.XLSX/.md/.csv/
other), bytes, BytesIO, open binary file and (text formats) str, with explicit and implicit
`file_type`.  Every delivery must give the same accepted/rejected status and, when accepted, the
same `xform`, `warnings` and `itemsets` as the dict rendering; a path additionally supplies the
default form id = file stem (reference: dict + fallback_form_name=stem, plus a direct check of the
XForm's instance id).  Empty-run shapes: trailing empty rows/columns of any length and interior runs
of <= 60 empty rows / <= 20 empty columns must not change the result; for longer interior runs the
property demands nothing about the content, only that the channels agree with each other.  Within the
limits the same empty header cells / empty rows are also rendered as Markdown and CSV text.

"A binary stream" is quantified over the *state* of the stream object as well (stream_deliveries /
check_streams): a BytesIO holds the workbook whatever its cursor position (just written and not
rewound, partly read by the caller, at or beyond the end) and however often the same object has
already been converted (with the same, another, no or a wrong file_type); other binary streams are
delivered at their start only (fresh, or rewound by the caller between conversions) but in every
class: buffered, raw, read-write, temporary, spooled, wrapping another stream, not seekable.  The
exhaustive product runs on the c12-streams family and on the xls fixtures, a sample on every form.

Nothing here calls a pyxform reader to compute an expectation: expectations come from the abstract
content (dict rendering) and from independent xlrd / openpyxl / csv / Markdown readings of fixtures.
"""
from __future__ import annotations

import csv
import datetime
import glob
import io
import os
import random
import re
import shutil
import tempfile
import zlib
from pathlib import Path

from bounded import corpus
from bounded.corpus import WB, Case

USES_DEFAULT_CORPUS = True
N_GENERATED = {"quick": 60, "thorough": 700}
TIME_BUDGET_S = {"quick": 75, "thorough": 900}

NBSP = " "
# sheet names an XLSForm workbook gives meaning to (XLSForm docs); all other sheets are ignored
SUPPORTED_SHEETS = {"survey", "choices", "settings", "external_choices", "osm", "entities"}
_ILLEGAL_XLSX = re.compile(r"[\000-\010]|[\013-\014]|[\016-\037]")
MAX_ROWS_RUN, MAX_COLS_RUN = 60, 20

# ----------------------------------------------------------------------------- canonical content


def canon_text(v):
    """Canonical cell text as the property spells it (None = empty)."""
    if v is None:
        return None
    if v is True:
        return "TRUE"
    if v is False:
        return "FALSE"
    if isinstance(v, int):
        return str(v)
    if isinstance(v, float):
        if v.is_integer():
            return str(int(v))
        return repr(v)  # shortest decimal form that reads back as the same number
    s = str(v).replace(NBSP, " ").strip()
    return s or None


def canon_wb(wb: WB) -> WB:
    out = WB()
    for name, (headers, rows) in wb.items():
        hs = [canon_text(h) for h in headers]
        rs = []
        for row in rows:
            r = [canon_text(c) for c in row][: len(hs)]
            r += [None] * (len(hs) - len(r))
            rs.append(r)
        out[name] = (hs, rs)
    return out


def strip_trailing(wb: WB) -> WB:
    """Drop trailing empty rows / trailing header-less empty columns (they carry no content)."""
    out = WB()
    for name, (headers, rows) in wb.items():
        hs = list(headers)
        while hs and hs[-1] is None:
            hs.pop()
        rs = [list(r[: len(hs)]) for r in rows]
        while rs and not any(c is not None for c in rs[-1]):
            rs.pop()
        out[name] = (hs, rs)
    return out


def drop_blank_rows(wb: WB) -> WB:
    return WB({n: (list(h), [list(r) for r in rows if any(c is not None for c in r)]) for n, (h, rows) in wb.items()})


def has_blank_rows(wb: WB) -> bool:
    return any(not any(c is not None for c in r) for _, (_, rows) in wb.items() for r in rows)


def well_defined(wb: WB) -> str | None:
    """None if the content means the same thing in every container, else why not."""
    names = [n.lower() for n in wb]
    if len(set(names)) != len(names):
        return "duplicate sheet names"
    if len(wb) == 1 and names[0] not in SUPPORTED_SHEETS:
        return "single sheet with an unsupported name"
    if "survey" not in names:
        return "no survey sheet"
    for name, (headers, rows) in wb.items():
        real = [h for h in headers if h is not None]
        if len(set(real)) != len(real):
            return "duplicate column headers"
        if name.lower() in SUPPORTED_SHEETS and not real:
            return "sheet without headers"
        if name.strip() != name or not name:
            return "padded sheet name"
        for row in rows:
            for h, c in zip(headers, row):
                if h is None and c is not None:
                    return "data under an empty header"
    return None


def wb_dict(wb: WB, stem: str | None = None) -> dict:
    """The equivalent dict (fresh objects every call: convert() mutates its input)."""
    out: dict = {"sheet_names": list(wb.keys())}
    for name, (headers, rows) in wb.items():
        key = name.lower()
        if key not in SUPPORTED_SHEETS:
            continue
        out[key] = [{h: c for h, c in zip(headers, row) if h is not None and c is not None} for row in rows]
        out[f"{key}_header"] = [{h: None for h in headers if h is not None}] if any(h is not None for h in headers) else []
    if stem is not None:
        out["fallback_form_name"] = stem
    return out


# ----------------------------------------------------------------------------- renderers

_INT = re.compile(r"-?(0|[1-9]\d{0,14})\Z")
_DEC = re.compile(r"-?\d+\.\d+\Z")

TYPING_MODES = ["plain", "int", "intfloat", "decimal", "bool", "pad-space", "pad-tabnl", "pad-nbsp",
                "nbsp-inside", "header-nbsp-inside", "mixed"]
_MIXABLE = ["plain", "int", "intfloat", "decimal", "bool", "pad-space", "pad-tabnl", "pad-nbsp", "nbsp-inside"]


def typed_value(text: str, mode: str, rnd: random.Random, header=False):
    """A spreadsheet cell value whose canonical reading (canon_text) is `text`."""
    if mode == "mixed":
        mode = rnd.choice(_MIXABLE)
    if mode == "natural" and not header:
        # what a spreadsheet application makes of typed-in text: every cell gets its own natural type
        # (so one column can hold boolean, integer and decimal cells next to each other)
        mode = "bool" if text in ("TRUE", "FALSE") else "int" if _INT.match(text) else "decimal"
    if header:
        # header cells: padding only; nbsp inside a header is its own mode (own key)
        mode = {"header-nbsp-inside": "nbsp-inside"}.get(mode, mode if mode.startswith("pad-") else "plain")
    elif mode == "header-nbsp-inside":
        mode = "plain"
    if mode == "int" and _INT.match(text) and text != "-0":
        return int(text)
    if mode == "intfloat" and _INT.match(text) and text != "-0" and float(int(text)) == int(text):
        return float(int(text))
    if mode == "decimal" and _DEC.match(text):
        f = float(text)
        if not f.is_integer() and repr(f) == text:
            return f
    if mode == "bool" and text in ("TRUE", "FALSE"):
        return text == "TRUE"
    if mode == "pad-space":
        return rnd.choice([" ", "  ", ""]) + text + rnd.choice([" ", "   "])
    if mode == "pad-tabnl":
        return rnd.choice(["\t", "\n", " \n"]) + text + rnd.choice(["\n", "\t ", "\r\n"])
    if mode == "pad-nbsp":
        return rnd.choice([NBSP, NBSP + " ", ""]) + text + rnd.choice([NBSP, " " + NBSP])
    if mode == "nbsp-inside" and " " in text:
        return text.replace(" ", NBSP)
    return text


def xlsx_ok(wb: WB) -> bool:
    for name, (headers, rows) in wb.items():
        if len(name) > 31 or re.search(r"[\\/*?:\[\]]", name):
            return False
        for c in [*headers, *[c for r in rows for c in r]]:
            if c is not None and (_ILLEGAL_XLSX.search(c) or len(c) > 32000 or c.startswith("=")):
                return False
    return True


def wb_xlsx(wb: WB, mode="plain", rnd=None, empty=None, far_cell=None) -> bytes:
    """Write the content as OOXML.  `empty`: None = empty cells are absent; a whitespace string =
    every empty cell inside each sheet's bounding box physically holds that string.  `far_cell`:
    (row, col) of a value-less styled cell (extends the sheet dimension only)."""
    from openpyxl import Workbook
    from openpyxl.styles import Font

    rnd = rnd or random.Random(0)
    book = Workbook()
    book.remove(book.active)
    for name, (headers, rows) in wb.items():
        ws = book.create_sheet(title=name)
        for ci, h in enumerate(headers, start=1):
            if h is not None:
                ws.cell(row=1, column=ci, value=typed_value(h, mode, rnd, header=True))
            elif empty is not None:
                ws.cell(row=1, column=ci, value=empty)
        for ri, row in enumerate(rows, start=2):
            for ci in range(1, len(headers) + 1):
                c = row[ci - 1] if ci - 1 < len(row) else None
                if c is not None:
                    ws.cell(row=ri, column=ci, value=typed_value(c, mode, rnd))
                elif empty is not None:
                    ws.cell(row=ri, column=ci, value=empty)
        if far_cell:
            ws.cell(row=far_cell[0], column=far_cell[1]).font = Font(bold=True)
    buf = io.BytesIO()
    book.save(buf)
    return buf.getvalue()


def csv_ok(wb: WB) -> bool:
    return all(any(h is not None for h in hs) for _, (hs, _) in wb.items())


# ----------------------------------------------------------------------------- conversion + comparison


def conv(src, **kw):
    from pyxform.errors import PyXFormError
    from pyxform.xls2xform import convert

    try:
        r = convert(xlsform=src, **kw)
        return {"ok": True, "xform": r.xform, "warnings": list(r.warnings), "itemsets": r.itemsets}
    except Exception as e:  # noqa: BLE001
        return {"ok": False, "etype": type(e).__name__, "msg": str(e), "own": isinstance(e, PyXFormError)}


def differ(ref, got):
    """First differing aspect (None if equivalent)."""
    if ref["ok"] != got["ok"]:
        return "rejected-but-reference-converts" if ref["ok"] else "converts-but-reference-rejected"
    if not ref["ok"]:
        return None
    for k in ("xform", "warnings", "itemsets"):
        if ref[k] != got[k]:
            return k
    return None


def _short(r):
    if not r["ok"]:
        return f"{r['etype']}: {r['msg'][:160]}"
    return f"ok, {len(r['xform'])} chars, warnings={r['warnings'][:3]!r}"[:260]


def _first_diff(a: str, b: str) -> str:
    i = next((k for k, (x, y) in enumerate(zip(a, b)) if x != y), min(len(a), len(b)))
    return f"...{a[max(0, i - 60):i + 80]!r} vs ...{b[max(0, i - 60):i + 80]!r}"


def describe(aspect, ref, got):
    if aspect in ("xform",):
        return _first_diff(ref["xform"], got["xform"])
    if aspect == "warnings":
        return f"reference {ref['warnings'][:4]!r} vs {got['warnings'][:4]!r}"
    if aspect == "itemsets":
        return f"reference {str(ref['itemsets'])[:150]!r} vs {str(got['itemsets'])[:150]!r}"
    return f"reference: {_short(ref)}; this rendering: {_short(got)}"


def instance_id(xform: str):
    x, err = corpus.parse_ok(xform)
    if x is None or x.iroot is None:
        return None
    return x.iroot.get("id")


# ----------------------------------------------------------------------------- deliveries


class Tmp:
    """Private temp dir (0700), one sub-directory per written file."""

    def __init__(self):
        self.root = tempfile.mkdtemp(prefix="c12-")
        self.n = 0

    def write(self, filename: str, data: bytes) -> str:
        self.n += 1
        d = os.path.join(self.root, f"d{self.n}")
        os.mkdir(d, 0o700)
        p = os.path.join(d, filename)
        with open(p, "wb") as f:
            f.write(data)
        return p

    def clean(self):
        shutil.rmtree(self.root, ignore_errors=True)
        os.mkdir(self.root, 0o700)

    def close(self):
        shutil.rmtree(self.root, ignore_errors=True)


def _tmp(ctx) -> Tmp:
    t = ctx.get("c12_tmp")
    if t is None:
        import atexit

        t = ctx["c12_tmp"] = Tmp()
        atexit.register(t.close)
    return t


STEMS = ["c12form", "Form-2.v1", "x"]


def deliveries(fmt: str, data: bytes, tmp: Tmp, stem: str):
    """[(label, channel, explicit, stem-or-None, thunk)] for one rendering."""
    out = []
    text_fmt = fmt in ("md", "csv")
    ext = "." + fmt
    exts = [ext] if text_fmt else ([".xlsx", ".xlsm"] if fmt == "xlsx" else [ext])

    def mem(kind, ft):
        def run():
            if kind == "bytes":
                return conv(data, file_type=ft)
            if kind == "BytesIO":
                return conv(io.BytesIO(data), file_type=ft)
            if kind == "str":
                return conv(data.decode("utf-8"), file_type=ft)
            p = tmp.write("upload.bin", data)
            with open(p, "rb") as f:
                return conv(f, file_type=ft)
        return run

    kinds = ["bytes", "BytesIO", "file"] + (["str"] if text_fmt else [])
    for kind in kinds:
        out.append((f"{fmt} as {kind}, file_type omitted", "memory", False, None, mem(kind, None)))
        for e in exts:
            out.append((f"{fmt} as {kind}, file_type={e!r}", "memory", True, None, mem(kind, e)))

    def path(suffix, ft, aspath):
        def run():
            p = tmp.write(stem + suffix, data)
            return conv(Path(p) if aspath else p, file_type=ft)
        return run

    suffixes = [*exts, ext.upper(), ".dat", ""]
    for i, sfx in enumerate(suffixes):
        implied = sfx in exts
        real_stem = Path(stem + sfx).stem
        out.append((f"{fmt} as path str with suffix {sfx!r}, file_type omitted", "path", implied, real_stem,
                    path(sfx, None, False)))
        if i == 0:
            out.append((f"{fmt} as PathLike with suffix {sfx!r}, file_type omitted", "path", True, real_stem,
                        path(sfx, None, True)))
        if not implied or i == 0:
            out.append((f"{fmt} as path str with suffix {sfx!r}, file_type={exts[0]!r}", "path", True, real_stem,
                        path(sfx, exts[0], False)))
    return out


def _key(fmt, aspect, fails, total):
    """Stable key: format + differing aspect + which class of channels is affected."""
    if len(fails) == len(total):
        return f"C12:{fmt}:{aspect}"
    f_imp = [f for f in fails if not f[2]]
    t_imp = [t for t in total if not t[2]]
    if len(f_imp) == len(fails) and fails:
        scope = "implicit-file_type" if len(f_imp) == len(t_imp) else "some-implicit-file_type"
        if all(f[1] == "memory" for f in fails):
            scope += "-in-memory"
    elif all(f[1] == "path" for f in fails):
        scope = "path"
    elif all(f[1] == "memory" for f in fails):
        scope = "in-memory"
    else:
        scope = "some-channels"
    return f"C12:{fmt}:{aspect}:only-{scope}"


def check_rendering(fmt_label, fmt, data, wb, ctx, stem, sample=None, rnd=None, refs=None, note=""):
    """Run the deliveries of one rendering against the dict reference; group failures into keys."""
    tmp = _tmp(ctx)
    refs = refs if refs is not None else {}
    dl = deliveries(fmt, data, tmp, stem)
    if sample is not None and sample < len(dl):
        dl = rnd.sample(dl, sample)
    results = []
    for label, channel, explicit, rstem, thunk in dl:
        if rstem not in refs:
            refs[rstem] = conv(wb_dict(wb, rstem))
        got = thunk()
        ctx["c12_n"] = ctx.get("c12_n", 0) + 1
        aspect = differ(refs[rstem], got)
        if aspect is None and got["ok"] and rstem is not None and "settings" not in [n.lower() for n in wb]:
            # direct statement: a path supplies the default form id from its stem
            iid = instance_id(got["xform"])
            if iid != rstem:
                aspect = "form-id-not-stem"
                got = dict(got, note=f"instance id {iid!r}, file stem {rstem!r}")
        results.append((label, channel, explicit, rstem, aspect, got))
    tmp.clean()
    out = []
    by_aspect = {}
    for r in results:
        if r[4] is not None:
            by_aspect.setdefault(r[4], []).append(r)
    for aspect, fails in by_aspect.items():
        label, channel, explicit, rstem, _, got = fails[0]
        detail = got.get("note") or describe(aspect, refs[rstem], got)
        out.append({
            "fmt": fmt, "fmt_label": fmt_label, "aspect": aspect, "fails": fails, "total": results,
            "key": _key(fmt_label, aspect, fails, results),
            "what": f"{note}{label} ({len(fails)}/{len(results)} deliveries of this rendering differ from the dict "
                    f"rendering in {aspect}): {detail}",
        })
    return out


# ----------------------------------------------------------------------------- stream objects: state, reuse, class
#
# "Delivered as ... a binary stream": the quantifier element BytesIO / open binary file is not one
# object state.  A BytesIO is an in-memory buffer *holding* the workbook; where its cursor happens to be
# (just written and not rewound, sniffed by the caller, already converted once, ...) is not part of the
# workbook content, so every such delivery must convert like the dict rendering - including each of
# several conversions of one and the same object.  For other binary streams only states whose content
# is unambiguous are used: positioned at the start (fresh, or rewound by the caller before every
# delivery), whatever the class of the stream (buffered / raw / read-write / spooled / wrapping
# another stream / not seekable).  Nothing is demanded of a non-BytesIO stream that is not at its start.


class _Buf(io.BytesIO):
    """A BytesIO by inheritance (uploaded-file wrappers of web frameworks look like this)."""


class _OneWay(io.RawIOBase):
    """A readable binary stream that cannot seek (pipe / socket / stdin like)."""

    def __init__(self, data: bytes):
        self._src = io.BytesIO(data)

    def readable(self):
        return True

    def seekable(self):
        return False

    def readinto(self, b):
        return self._src.readinto(b)


def _wrong_type(fmt):
    return {"md": ".xlsx", "csv": ".xls", "xlsx": ".csv", "xls": ".md"}[fmt]


def stream_deliveries(fmt: str, data: bytes, tmp: Tmp):
    """[(label, class, run)] - run() returns [(step label, file_type, result)], each result of which
    must equal the reference.  class: 'position' (BytesIO cursor not at 0), 'reuse' (one object delivered more than
    once), 'kind' (other stream classes, at their start)."""
    exts = [".xlsx", ".xlsm"] if fmt == "xlsx" else ["." + fmt]
    n = len(data)
    out = []

    # -- BytesIO holding the content, cursor anywhere
    def written(cls=io.BytesIO, chunks=1):
        b = cls()
        step = max(1, -(-n // chunks))
        for i in range(0, n, step):
            b.write(data[i:i + step])
        return b

    def after(op):
        def make():
            b = io.BytesIO(data)
            op(b)
            return b
        return make

    states = [
        ("BytesIO just written, not rewound", written),
        ("BytesIO written in 3 chunks, not rewound", lambda: written(chunks=3)),
        ("BytesIO subclass just written, not rewound", lambda: written(cls=_Buf)),
        ("BytesIO after the caller read 4 bytes", after(lambda b: b.read(4))),
        ("BytesIO after the caller read one line", after(lambda b: b.readline())),
        ("BytesIO after the caller read it to the end", after(lambda b: b.read())),
        ("BytesIO at seek(1)", after(lambda b: b.seek(1))),
        (f"BytesIO at seek({n // 2}) of {n}", after(lambda b: b.seek(n // 2))),
        (f"BytesIO at seek({n - 1}) of {n}", after(lambda b: b.seek(max(0, n - 1)))),
        ("BytesIO at seek(0, SEEK_END)", after(lambda b: b.seek(0, os.SEEK_END))),
        ("BytesIO at a position beyond its end", after(lambda b: b.seek(n + 7))),
    ]

    def once(make, ft):
        return lambda: [("", ft, conv(make(), file_type=ft))]

    for label, make in states:
        for ft in (None, *exts):
            out.append((f"{fmt} as {label}, file_type={ft!r}", "position", once(make, ft)))

    # -- one object delivered several times
    def again(make, fts, rewind=False):
        def run():
            obj, res = make(), []
            if not isinstance(obj, io.IOBase):
                return res  # this interpreter's class is not a binary stream in the io sense: nothing to check
            try:
                for i, ft in enumerate(fts):
                    if rewind:
                        try:
                            obj.seek(0)
                        except Exception as e:  # noqa: BLE001
                            res.append((f"delivery {i + 1}", ft, {"ok": False, "etype": type(e).__name__, "own": False,
                                                               "msg": f"stream unusable after the previous conversion: {e}"}))
                            break
                    step = f"delivery {i + 1} of the same object (file_type={ft!r})" if len(fts) > 1 else ""
                    res.append((step, ft, conv(obj, file_type=ft)))
            finally:
                try:
                    obj.close()
                except Exception:  # noqa: BLE001
                    pass
            return res
        return run

    def conv_wrong_then(make, fts):
        # first delivery names a type the data is not (its outcome is not compared), then the real one
        def run():
            obj = make()
            conv(obj, file_type=_wrong_type(fmt))
            return [(f"delivery {i + 2} of the same object (file_type={ft!r}) after one with file_type="
                     f"{_wrong_type(fmt)!r}", ft, conv(obj, file_type=ft)) for i, ft in enumerate(fts)]
        return run

    e0, e1 = exts[0], exts[-1]
    fresh = lambda: io.BytesIO(data)  # noqa: E731
    for fts in ((None, None), (e0, e1), (None, e0), (e0, None), (e0, e0, None, None)):
        out.append((f"{fmt} as one BytesIO converted {len(fts)} times, file_type={fts!r}", "reuse", again(fresh, fts)))
    out.append((f"{fmt} as one just-written BytesIO converted twice", "reuse", again(written, (None, e0))))
    out.append((f"{fmt} as one BytesIO, retried after a wrong file_type", "reuse", conv_wrong_then(fresh, (None, e0))))

    def opened(mode="rb", **kw):
        def make():
            p = tmp.write("upload.bin", data)
            return open(p, mode, **kw)
        return make

    for fts in ((e0, None), (None, e1, e0)):
        out.append((f"{fmt} as one open binary file, rewound by the caller before each of {len(fts)} conversions, "
                    f"file_type={fts!r}", "reuse", again(opened(), fts, rewind=True)))

    # -- other classes of binary stream, positioned at their start
    def rw_file():
        p = tmp.write("upload.bin", b"")
        f = open(p, "w+b")
        f.write(data)
        f.seek(0)
        return f

    def spooled(max_size):
        def make():
            f = tempfile.SpooledTemporaryFile(max_size=max_size, dir=tmp.root)
            f.write(data)
            f.seek(0)
            return f
        return make

    def tmpfile():
        f = tempfile.TemporaryFile(dir=tmp.root)
        f.write(data)
        f.seek(0)
        return f

    kinds = [
        ("unbuffered (raw) binary file", opened(buffering=0)),
        ("read-write binary file written then rewound", rw_file),
        ("TemporaryFile written then rewound", tmpfile),
        ("BufferedReader over a BytesIO", lambda: io.BufferedReader(io.BytesIO(data))),
        ("non-seekable buffered binary stream", lambda: io.BufferedReader(_OneWay(data))),
        ("SpooledTemporaryFile in memory, rewound", spooled(n + 1000)),
        ("SpooledTemporaryFile rolled to disk, rewound", spooled(16)),
    ]
    for label, make in kinds:
        for ft in (None, e0):
            out.append((f"{fmt} as {label}, file_type={ft!r}", "kind", again(make, (ft,))))
    return out


def check_streams(fmt, data, wb, ctx, k=None, rnd=None, ref=None, note=""):
    """The stateful stream deliveries of one rendering (all, or `k` of them drawn with `rnd`)
    against the dict reference (no path involved: no default form id)."""
    tmp = _tmp(ctx)
    dl = stream_deliveries(fmt, data, tmp)
    if k is not None and k < len(dl):
        dl = rnd.sample(dl, k)
    out, seen = [], set()
    for label, cls, run in dl:
        for step, ft, got in run():
            ctx["c12_n"] = ctx.get("c12_n", 0) + 1
            if ref is None:
                ref = conv(wb_dict(wb))
            aspect = differ(ref, got)
            if aspect is None:
                continue
            key = f"C12:{fmt}:stream-{cls}:{aspect}"
            if key in seen:
                continue
            # control: the same bytes as a fresh BytesIO, converted once with the same file_type.  When
            # that differs from the reference too, the rendering or the type detection is at fault
            # (reported by check_rendering), not the state / reuse / class of the stream object.
            ctl = conv(io.BytesIO(data), file_type=ft)
            if differ(ref, ctl) == aspect:
                continue
            seen.add(key)
            out.append({"key": key, "what": f"{note}{label}{': ' + step if step else ''} differs from the dict rendering "
                                            f"of the same content in {aspect} (a fresh BytesIO of the same bytes "
                                            f"does not): {describe(aspect, ref, got)}"})
    tmp.clean()
    return out


# ----------------------------------------------------------------------------- documented defects (labelling only)


def relabel(v, wb, data, ctx, stem):
    """Give the documented genuine defects (FINDINGS_C12.md) their own keys.  The label is derived
    from independent facts about the input plus a confirming experiment; anything else keeps the
    generic key, so a new bug cannot hide behind a known one."""
    fmt, aspect, fails = v["fmt"], v["aspect"], v["fails"]
    names = [n.lower() for n in wb]
    extra = [n for n in names if n not in SUPPORTED_SHEETS]
    if fmt == "csv" and extra and len(fails) == len(v["total"]) and all(
            not f[5]["ok"] and f[5]["etype"] == "TypeError"
            and any(f[5]["msg"].endswith(f"unexpected keyword argument '{n}'") for n in extra) for f in fails):
        v["key"] = "C12:csv-unsupported-sheet-crash"
        return v
    if fmt == "csv" and data.decode("utf-8")[:5000].count("|") >= 5 and fails \
            and all(not f[2] for f in fails) and not any((not t[2]) and t[4] is None for t in v["total"]) \
            and all(not f[5]["ok"] for f in fails):
        v["key"] = "C12:csv-with-pipes-sniffed-as-markdown"
        return v
    if fmt == "md" and len(fails) == len(v["total"]) and _md_has_empty_header_cell(data.decode("utf-8")):
        # confirm: the same table without the empty header cells (they head no data) is fine
        wb2 = WB({n: ([x for x in h if x is not None], [[c for x, c in zip(h, r) if x is not None] for r in rows])
                  for n, (h, rows) in wb.items()})
        if corpus.md_safe(wb2) and all(
                differ(f[5], conv(corpus.wb_to_md(wb2), file_type=".md")) is not None
                and differ(conv(wb_dict(wb, None)), conv(corpus.wb_to_md(wb2), file_type=".md")) is None for f in fails[:1]):
            v["key"] = "C12:md-empty-header-cell-becomes-column-None"
            return v
    if fmt == "csv" and len(fails) == len(v["total"]) and _csv_has_empty_header_cell(data.decode("utf-8")):
        wb2 = WB({n: ([x for x in h if x is not None], [[c for x, c in zip(h, r) if x is not None] for r in rows])
                  for n, (h, rows) in wb.items()})
        if csv_ok(wb2) and differ(fails[0][5], conv(corpus.wb_to_csv(wb2), file_type=".csv")) is not None \
                and differ(conv(wb_dict(wb, None)), conv(corpus.wb_to_csv(wb2), file_type=".csv")) is None:
            v["key"] = "C12:csv-empty-header-cell-becomes-column"
            return v
    if fmt in ("md", "csv") and has_blank_rows(wb) and len(fails) == len(v["total"]):
        wb2 = drop_blank_rows(wb)
        ok = True
        for f in fails:
            if differ(conv(wb_dict(wb2, f[3])), f[5]) is not None:
                ok = False
        if ok:
            v["key"] = f"C12:{fmt}-blank-rows-not-counted"
            return v
    return v


def _md_has_empty_header_cell(md: str) -> bool:
    """True if some header row (first row with cells after a sheet-name line) has an empty cell."""
    expect_header = False
    for line in md.split("\n"):
        line = line.strip()
        if not (line.startswith("|") and line.endswith("|")) or re.fullmatch(r"[|\-]+", line[1:-1] or "-"):
            continue
        cells = [c.strip() for c in line[1:-1].split("|")]
        if cells[0]:
            expect_header = True
        if expect_header and any(cells[1:]):
            if any(not c for c in cells[1:]):
                return True
            expect_header = False
    return False


def _csv_has_empty_header_cell(text: str) -> bool:
    expect_header = False
    for row in csv.reader(io.StringIO(text, newline="")):
        if not row:
            continue
        if row[0].strip():
            expect_header = True
        cells = [c.strip() for c in row[1:]]
        if expect_header and any(cells):
            if any(not c for c in cells):
                return True
            expect_header = False
    return False


# ----------------------------------------------------------------------------- independent Markdown reading


def md_to_wb(md: str) -> WB | None:
    """Plain Markdown tables only (no comments, no escapes); None when the text uses more."""
    if "#" in md or "\\" in md:
        return None
    wb = WB()
    cur = None
    for line in md.split("\n"):
        line = line.strip()
        if not line:
            continue
        if not (line.startswith("|") and line.endswith("|") and len(line) >= 2):
            return None
        inner = line[1:-1]
        if re.fullmatch(r"[|\-]+", inner):
            continue
        cells = [canon_text(c) for c in inner.split("|")]
        first, rest = cells[0], cells[1:]
        if first is not None:
            if first in wb:
                return None
            cur = first
            wb[cur] = ([], [])
        if cur is None:
            return None
        headers, rows = wb[cur]
        if not headers:
            if not any(c is not None for c in rest):
                continue  # the sheet-name line, or padding before the header row
            while rest and rest[-1] is None:
                rest.pop()
            headers.extend(rest)
        elif first is not None and not any(c is not None for c in rest):
            return None
        else:
            while rest and rest[-1] is None:
                rest.pop()
            if len(rest) > len(headers):
                return None
            rows.append(rest + [None] * (len(headers) - len(rest)))
    return wb


# ----------------------------------------------------------------------------- per-case check


def check(case: Case, res, ctx):
    rnd = random.Random(zlib.crc32(case.name.encode()) ^ ctx.get("seed", 0))
    full = "c12-full" in case.tags
    out = []
    shape = getattr(case, "c12_shape", None)
    if shape:
        return check_shape(case, canon_wb(case.wb), shape, ctx, rnd)
    if "c12-streams" in case.tags:
        return check_stream_case(case, ctx)
    if case.wb is not None:
        raw = case.wb
    else:
        raw = md_to_wb(case.md)
        if raw is None:
            return _channels_only(case, res, ctx, rnd)
    wb = canon_wb(raw)
    why = well_defined(wb)
    if why:
        return []
    stem = rnd.choice(STEMS)
    refs = {}
    vs = []
    spec = case.tags  # families carry rendering instructions in tags
    plain = strip_trailing(wb)
    if case.md is not None:
        # the harvested Markdown itself is one rendering of the content read independently above
        ref = refs.setdefault(None, conv(wb_dict(plain)))
        got = {"ok": res.ok, "xform": res.xform, "warnings": res.warnings, "itemsets": res.itemsets,
               "etype": type(res.error).__name__, "msg": str(res.error)}
        aspect = differ(ref, got)
        if aspect:
            v = {"fmt": "md", "fmt_label": "md", "aspect": aspect, "fails": [("md str", "memory", True, None, aspect, got)],
                 "total": [("md str", "memory", True, None, aspect, got)], "key": f"C12:md:{aspect}",
                 "what": f"test-suite Markdown vs dict rendering of the same table differ in {aspect}: "
                         f"{describe(aspect, ref, got)}"}
            vs.append((v, case.md.encode("utf-8")))
    half = "c12-half" in case.tags
    n = None if full else (6 if half else 1)
    # stream objects in other states than "fresh, used once" (own random stream: the sampling of the
    # plain deliveries above is not disturbed).  Every form gets some; the exhaustive product is the
    # c12-streams family.
    rnd_s = random.Random(zlib.crc32(("streams:" + case.name).encode()) ^ ctx.get("seed", 0))
    quick = ctx.get("tier", "quick") == "quick"
    k_s = (2 if quick else 6) if full else (2 if half else 1)

    def streams(fmt, data):
        if not (full or half) and quick and rnd_s.random() >= 0.15:
            return
        if None not in refs:
            refs[None] = conv(wb_dict(plain))
        out.extend(check_streams(fmt, data, plain, ctx, k_s, rnd_s, refs[None]))

    if corpus.md_safe(plain) and "no-md" not in spec:
        data = corpus.wb_to_md(plain).encode("utf-8")
        for v in check_rendering("md", "md", data, plain, ctx, stem, n, rnd, refs):
            vs.append((v, data))
        streams("md", data)
    if csv_ok(plain) and "no-csv" not in spec:
        data = corpus.wb_to_csv(plain).encode("utf-8")
        for v in check_rendering("csv", "csv", data, plain, ctx, stem, n, rnd, refs):
            vs.append((v, data))
        streams("csv", data)
    if xlsx_ok(plain):
        data = wb_xlsx(plain)
        for v in check_rendering("xlsx", "xlsx", data, plain, ctx, stem, n, rnd, refs):
            vs.append((v, data))
        streams("xlsx", data)
        modes = TYPING_MODES[1:] if full else rnd.sample(TYPING_MODES[1:], 3 if half else 1)
        if full:
            modes = [*modes, "natural"]
        for mode in modes:
            for rep in range(3 if (full and mode == "mixed") else 1):
                data = wb_xlsx(plain, mode=mode, rnd=random.Random(rnd.random()))
                for v in check_rendering(f"xlsx-typed-{mode}", "xlsx", data, plain, ctx, stem, 2 if full else 1,
                                         rnd, refs, note=f"typed cells ({mode}): "):
                    vs.append((v, data))
    for v, data in vs:
        v = relabel(v, plain, data, ctx, stem)
        out.append({"key": v["key"], "what": v["what"]})
    return out


def check_stream_case(case, ctx):
    """c12-streams family: every stateful stream delivery of every rendering of the content."""
    wb = strip_trailing(canon_wb(case.wb))
    ref = conv(wb_dict(wb))
    out = []
    if corpus.md_safe(wb):
        out += check_streams("md", corpus.wb_to_md(wb).encode("utf-8"), wb, ctx, ref=ref)
    if csv_ok(wb):
        out += check_streams("csv", corpus.wb_to_csv(wb).encode("utf-8"), wb, ctx, ref=ref)
    if xlsx_ok(wb):
        out += check_streams("xlsx", wb_xlsx(wb), wb, ctx, ref=ref)
    return out


def _channels_only(case, res, ctx, rnd):
    """Markdown the independent reader does not cover (comments, escapes): the text itself through
    every channel must behave like the str + explicit file_type delivery."""
    data = case.md.encode("utf-8")
    ref = {"ok": res.ok, "xform": res.xform, "warnings": res.warnings, "itemsets": res.itemsets,
           "etype": type(res.error).__name__, "msg": str(res.error)}
    if data.count(b"|") < 5:
        return []
    tmp = _tmp(ctx)
    out = []
    dl = [d for d in deliveries("md", data, tmp, "c12form") if d[3] is None]
    for label, channel, explicit, rstem, thunk in rnd.sample(dl, 2):
        got = thunk()
        ctx["c12_n"] = ctx.get("c12_n", 0) + 1
        aspect = differ(ref, got)
        if aspect:
            out.append({"key": f"C12:md-channel:{aspect}:{'explicit' if explicit else 'implicit'}-file_type",
                        "what": f"{label} vs str with file_type='.md': {describe(aspect, ref, got)}"})
    tmp.clean()
    return out


# ----------------------------------------------------------------------------- shapes


def insert_rows(wb: WB, sheet: str, at: int, n: int) -> WB:
    w = wb.copy()
    h, rows = w[sheet]
    w[sheet] = (h, rows[:at] + [[None] * len(h) for _ in range(n)] + rows[at:])
    return w


def insert_cols(wb: WB, sheet: str, at: int, n: int) -> WB:
    w = wb.copy()
    h, rows = w[sheet]
    w[sheet] = (h[:at] + [None] * n + h[at:], [r[:at] + [None] * n + r[at:] for r in rows])
    return w


def check_shape(case, wb, shape, ctx, rnd):
    """shape = {"demand": bool, "class": str, "empty": None|str, "far": None|(r,c), "ref": WB}
    `wb` is the content *with* the empty runs; `ref` the content the property says it equals."""
    out = []
    refwb = shape["ref"]
    if shape["demand"] and not shape.get("far"):
        # "never truncate a sheet" is not a statement about spreadsheets only: the same table with
        # the same empty header cells / empty rows as Markdown and CSV text
        ref0 = conv(wb_dict(refwb))
        texts = []
        if corpus.md_safe(wb):
            texts.append(("md", corpus.wb_to_md(wb)))
        if csv_ok(strip_trailing(wb)):
            texts.append(("csv", corpus.wb_to_csv(wb)))
        for fmt, text in texts:
            got = conv(text, file_type="." + fmt)
            ctx["c12_n"] = ctx.get("c12_n", 0) + 1
            aspect = differ(ref0, got)
            if aspect:
                out.append({"key": f"C12:{fmt}-{shape['class']}:{aspect}",
                            "what": f"{shape['descr']} ({fmt} text, file_type given): {describe(aspect, ref0, got)}"})
    for empty in shape["empties"]:
        for mode in shape.get("modes", ["plain"]):
            data = wb_xlsx(wb, mode=mode, rnd=random.Random(7), empty=empty, far_cell=shape.get("far"))
            tmp = _tmp(ctx)
            dl = deliveries("xlsx", data, tmp, "shape")
            wanted = ["xlsx as bytes, file_type omitted", "xlsx as path str with suffix '.xlsx', file_type omitted"]
            if shape.get("rich") or not shape["demand"]:
                wanted += ["xlsx as BytesIO, file_type='.xlsx'", "xlsx as file, file_type='.xlsm'",
                           "xlsx as path str with suffix '.xlsm', file_type omitted"]
            pick = [d for d in dl if d[0] in wanted]
            results = []
            for label, channel, explicit, rstem, thunk in pick:
                got = thunk()
                ctx["c12_n"] = ctx.get("c12_n", 0) + 1
                results.append((label, rstem, got))
            tmp.clean()
            how = f"empty cells {'absent' if empty is None else repr(empty)}, cells {mode}"
            if shape["demand"]:
                refs = {}
                for label, rstem, got in results:
                    if rstem not in refs:
                        refs[rstem] = conv(wb_dict(refwb, rstem))
                    aspect = differ(refs[rstem], got)
                    if aspect:
                        out.append({"key": f"C12:xlsx-{shape['class']}:{aspect}",
                                    "what": f"{shape['descr']} ({how}); {label}: {describe(aspect, refs[rstem], got)}"})
                        break
            else:
                # nothing demanded about the content; the channels must still agree with each other
                # (paths differ from in-memory deliveries by the default form id only)
                groups = {}
                for label, rstem, got in results:
                    groups.setdefault(rstem, []).append((label, got))
                for rstem, g in groups.items():
                    for label, got in g[1:]:
                        aspect = differ(g[0][1], got)
                        if aspect:
                            out.append({"key": f"C12:xlsx-{shape['class']}:channels-disagree:{aspect}",
                                        "what": f"{shape['descr']} ({how}); {g[0][0]} vs {label}: "
                                                f"{describe(aspect, g[0][1], got)}"})
                            break
    return out


# ----------------------------------------------------------------------------- case families


def _full(name, wb, **extra):
    c = Case(name, wb=wb, origin="C12-family", tags={"c12-full", *extra.pop("tags", ())})
    for k, v in extra.items():
        setattr(c, k, v)
    return c


def base_forms() -> dict[str, WB]:
    """Small forms whose cells exercise ints, decimals, booleans, padded and spaced text."""
    forms = {}
    forms["typed"] = WB({
        "survey": (["type", "name", "label", "required", "readonly", "default", "constraint", "relevant", "repeat_count", "hint"], [
            ["integer", "n", "How many", "TRUE", "FALSE", "5", ". > 0", None, None, "A number between 1 and 10"],
            ["decimal", "d", "Weight in kg", "FALSE", None, "1.5", ". < 300.25", None, None, None],
            ["integer", "neg", "Offset", None, None, "-3", None, "${n} > 2", None, None],
            ["select_one yn", "s", "Yes or no", "TRUE", None, "1", None, None, None, "pick one"],
            ["select_multiple nums", "m", "Numbers", None, None, None, None, "${s} = 1", None, None],
            ["begin repeat", "r", "Repeat", None, None, None, None, None, "3", None],
            ["text", "t", "Text in repeat", None, "TRUE", "007", None, None, None, "0.50 stays text"],
            ["decimal", "d2", "Small", None, None, "0.125", None, None, None, None],
            ["end repeat", None, None, None, None, None, None, None, None, None],
            ["range", "rg", "Range", None, None, "2", None, None, None, None],
        ]),
        "choices": (["list_name", "name", "label", "weight"], [
            ["yn", "1", "Yes", "1.5"],
            ["yn", "0", "No", "2"],
            ["nums", "10", "Ten", "10"],
            ["nums", "20", "Twenty or more", "20.25"],
            ["nums", "-1", "Do not know", "0"],
        ]),
        "settings": (["form_title", "form_id", "version"], [["Typed cells", "typed_1", "2024"]]),
    })
    forms["lang_media"] = WB({
        "survey": (["type", "name", "label::English (en)", "label::French (fr)", "hint::English (en)", "media::image", "choice_filter"], [
            ["select_one towns", "town", "Which town", "Quelle ville", "Pick the town, not the village", "town.png", "pop > 1000"],
            ["text", "why", "Why there", "Pourquoi", None, None, None],
            ["note", "bye", "Thanks ${why}", "Merci ${why}", None, None, None],
        ]),
        "choices": (["list_name", "name", "label::English (en)", "label::French (fr)", "pop"], [
            ["towns", "a", "Town A", "Ville A", "5000"],
            ["towns", "b", "Town B", "Ville B", "250"],
            ["towns", "c", "Town C", "Ville C", "1000.5"],
        ]),
    })
    forms["external"] = WB({
        "survey": (["type", "name", "label", "choice_filter"], [
            ["select_one states", "state", "State", None],
            ["select_one_external cities", "city", "City", "state=${state}"],
            ["select_one_external wards", "ward", "Ward", "state=${state} and city=${city}"],
        ]),
        "choices": (["list_name", "name", "label"], [["states", "1", "One"], ["states", "2", "Two"]]),
        "external_choices": (["list_name", "name", "label", "state", "city"], [
            ["cities", "11", "City 11", "1", None],
            ["cities", "21", "City 21", "2", None],
            ["wards", "111", "Ward 111", "1", "11"],
            ["wards", "211", "Ward 2.5", "2", "21"],
        ]),
        "settings": (["form_id"], [["ext_form"]]),
    })
    # booleans and numbers of equal value (TRUE/1, FALSE/0) side by side in one column, either first
    forms["bool_beside_number"] = WB({
        "survey": (["type", "name", "label", "default", "required"], [
            ["select_one tf", "agree", "Do you agree", "TRUE", "TRUE"],
            ["select_one stars", "rating", "Stars", "1", "FALSE"],
            ["integer", "zero", "Count", "0", None],
            ["select_one tf", "again", "Still", "FALSE", "TRUE"],
            ["decimal", "one", "Factor", "1.5", None],
        ]),
        "choices": (["list_name", "name", "label", "weight"], [
            ["tf", "TRUE", "Yes", "1"], ["tf", "FALSE", "No", "0"],
            ["stars", "0", "None", "FALSE"], ["stars", "1", "One", "TRUE"], ["stars", "2", "Two", "2.5"],
        ]),
        "settings": (["form_id"], [["tf_num"]]),
    })
    forms["no_settings_warn"] = WB({
        "survey": (["type", "name", "label", "hint"], [
            ["text", "a", "A", None],
            ["note", "nolabel", None, None],
            ["integer", "b", None, "hint only"],
            ["begin group", "g", None, None],
            ["text", "c", "C", None],
            ["end group", None, None, None],
        ]),
    })
    forms["entities"] = WB({
        "survey": (["type", "name", "label", "save_to"], [["text", "tree", "Tree name", "species"], ["integer", "h", "Height", "height"]]),
        "entities": (["dataset", "label"], [["trees", "${tree}"]]),
        "settings": (["form_id", "version"], [["ent", "3"]]),
    })
    return forms


def punctuation_forms() -> dict[str, WB]:
    """Text with many commas and/or pipes (format sniffing)."""
    out = {}
    texts = {
        "commas3": "a, b, c, d",
        "commas4": "a, b, c, d, e",
        "commas_many": "one, two, three, four, five, six, seven, eight",
        "pipes4": "a | b | c | d | e",
        "pipes_many": "a | b | c | d | e | f | g | h",
        "both": "x, y | z, w | u, v | t, s | r, q | p",
        "calc": "if(${a} = 'x', concat('a', ',', 'b'), coalesce(${a}, 'n, m'))",
    }
    for k, t in texts.items():
        out[f"punct_{k}"] = WB({"survey": (["type", "name", "label", "hint"], [
            ["text", "a", "First", None], ["text", "b", t, t if k != "calc" else None]])})
    out["punct_choices"] = WB({
        "survey": (["type", "name", "label"], [["select_one l", "q", "Pick, choose, or select; then go on, please"]]),
        "choices": (["list_name", "name", "label"], [["l", "a", "A, a | alpha"], ["l", "b", "B, b | beta"], ["l", "c", "C | c | gamma"]]),
    })
    out["punct_none"] = WB({"survey": (["type", "name"], [["text", "a"]])})
    return out


def sheet_forms() -> dict[str, WB]:
    base = (["type", "name", "label"], [["text", "a", "A"], ["integer", "b", "B"]])
    return {
        "sheets_extra": WB({"survey": base, "notes": (["x", "y"], [["free text", "more"], ["1", "2"]])}),
        "sheets_underscore": WB({"_meta": (["k"], [["v"]]), "survey": base, "choices": (["list_name", "name", "label"], [["l", "x", "X"]])}),
        "sheets_case": WB({"Survey": base, "CHOICES": (["list_name", "name", "label"], [["l", "x", "X"]]),
                           "Settings": (["form_id"], [["cased"]])}),
        "sheets_order": WB({"settings": (["form_id", "form_title"], [["ord", "Order"]]),
                            "choices": (["list_name", "name", "label"], [["l", "x", "X"], ["l", "y", "Y"]]),
                            "survey": (["type", "name", "label"], [["select_one l", "q", "Q"]])}),
        "sheets_misspelt": WB({"survey": base, "setings": (["form_id"], [["zz"]]), "chioces": (["list_name"], [["l"]])}),
    }


def shape_cases(tier) -> list[Case]:
    out = []
    survey = (["type", "name", "label", "hint"], [
        ["text", "q1", "Q1", None], ["select_one l", "q2", "Q2", "h2"], ["integer", "q3", None, "only a hint"],
        ["note", "q4", "N ${q1}", None]])
    choices = (["list_name", "name", "label", "extra"], [["l", "a", "A", "1"], ["l", "b", "B", None], ["l", "c", "C", "3"], ["m", "x", "X", None]])
    base = WB({"survey": survey, "choices": choices})
    empties_all = [None, " ", NBSP + " "]

    def add(name, wb, demand, cls, descr, ref, empties=None, far=None, modes=None):
        c = Case(name, wb=wb, origin="C12-shape", tags={"c12-shape"})
        c.c12_shape = {"demand": demand, "class": cls, "descr": descr, "ref": ref, "empties": empties or [None],
                       "far": far, "modes": modes or ["plain"], "rich": bool(re.search(r"run(60|20)$|limits|two_runs", name))}
        out.append(c)

    thorough = tier == "thorough"
    row_runs_ok = [1, 2, 30, 59, 60] if thorough else [1, 59, 60]
    row_runs_over = [61, 62, 100] if thorough else [61, 100]
    for sheet, nrows in (("survey", 4), ("choices", 4)):
        for at in ([0, 1, 2, nrows - 1] if sheet == "survey" else [0, 2, 3])[: None if thorough else 3]:
            for n in row_runs_ok:
                w = insert_rows(base, sheet, at, n)
                add(f"rows_{sheet}_at{at}_run{n}", w, True, "interior-empty-rows-upto-60",
                    f"{n} empty rows before data row {at + 1} of {sheet}", w,
                    empties=empties_all if n in (1, 59, 60) else [None])
            for n in row_runs_over:
                w = insert_rows(base, sheet, at, n)
                add(f"rows_{sheet}_at{at}_run{n}", w, False, "interior-empty-rows-over-60",
                    f"{n} empty rows before data row {at + 1} of {sheet}", w)
    # two runs of 60 separated by one data row; 60 then 59
    w = insert_rows(insert_rows(base, "survey", 2, 60), "survey", 1, 60)
    add("rows_survey_two_runs_60", w, True, "interior-empty-rows-upto-60", "two runs of 60 empty rows in survey", w, empties=[None, " "])
    w = insert_rows(insert_rows(base, "choices", 3, 59), "choices", 1, 60)
    add("rows_choices_runs_60_59", w, True, "interior-empty-rows-upto-60", "runs of 60 and 59 empty rows in choices", w)
    # trailing rows (physically present whitespace cells, or a far styled cell)
    for n in ([1, 59, 60, 61, 62, 130, 500] if thorough else [1, 60, 61, 130]):
        for sheet in ("survey", "choices"):
            w = base.copy()
            h, rows = w[sheet]
            w[sheet] = (h, rows + [[None] * len(h) for _ in range(n)])
            add(f"rows_{sheet}_trailing{n}", w, True, "trailing-empty-rows", f"{n} trailing empty rows in {sheet}", base,
                empties=[" ", "\n"])
    add("rows_far_styled_cell", base, True, "trailing-empty-rows", "value-less styled cell at row 400", base, far=(400, 2))
    add("cols_far_styled_cell", base, True, "trailing-empty-cols", "value-less styled cell at column 90", base, far=(3, 90))
    add("both_far_styled_cell", base, True, "trailing-empty-cols", "value-less styled cell at row 2000 column 200", base, far=(2000, 200))
    # interior column runs
    for sheet, ncols in (("survey", 4), ("choices", 4)):
        for at in [1, 2, ncols - 1]:
            for n in ([1, 2, 19, 20] if thorough else [1, 19, 20]):
                w = insert_cols(base, sheet, at, n)
                add(f"cols_{sheet}_at{at}_run{n}", w, True, "interior-empty-cols-upto-20",
                    f"{n} empty columns before column {at + 1} of {sheet}", w,
                    empties=empties_all if n in (1, 19, 20) else [None])
            for n in ([21, 22, 40] if thorough else [21, 40]):
                w = insert_cols(base, sheet, at, n)
                add(f"cols_{sheet}_at{at}_run{n}", w, False, "interior-empty-cols-over-20",
                    f"{n} empty columns before column {at + 1} of {sheet}", w)
    w = insert_cols(insert_cols(base, "survey", 3, 20), "survey", 1, 20)
    add("cols_survey_two_runs_20", w, True, "interior-empty-cols-upto-20", "two runs of 20 empty columns in survey", w, empties=[None, " "])
    for n in ([1, 19, 20, 21, 22, 45] if thorough else [1, 20, 21, 45]):
        for sheet in ("survey", "choices"):
            w = base.copy()
            h, rows = w[sheet]
            w[sheet] = (h + [None] * n, [r + [None] * n for r in rows])
            add(f"cols_{sheet}_trailing{n}", w, True, "trailing-empty-cols", f"{n} trailing empty columns in {sheet}", base,
                empties=[" ", NBSP])
    # both at the limit, typed cells too
    w = insert_rows(insert_cols(base, "choices", 2, 20), "choices", 2, 60)
    w = insert_rows(insert_cols(w, "survey", 2, 20), "survey", 1, 60)
    add("both_limits", w, True, "interior-empty-rows-and-cols-at-limit", "20 empty columns and 60 empty rows in both sheets", w,
        empties=[None, " "], modes=["plain", "mixed"])
    return out


def stream_cases(tier) -> list[Case]:
    """Contents for the exhaustive stream state / reuse / class product: settings + several sheets,
    warnings + default form id, itemsets; thorough adds texts that matter for format sniffing."""
    forms = {**base_forms(), **punctuation_forms(), **sheet_forms()}
    names = ["lang_media", "external"]
    if tier == "thorough":
        names += ["typed", "entities", "punct_commas4", "punct_commas_many", "punct_pipes4", "punct_pipes_many", "punct_both",
                  "punct_choices", "sheets_extra", "sheets_case", "sheets_misspelt"]
    return [Case("streams_" + n, wb=forms[n], origin="C12-streams", tags={"c12-streams"}) for n in names]


def cases(tier: str, seed: int) -> list[Case]:
    out = stream_cases(tier)
    for fam in (base_forms(), punctuation_forms(), sheet_forms()):
        for name, wb in fam.items():
            out.append(_full(name, wb))
    # blank rows inside the data, with a warning that quotes a later row (all formats)
    b = WB({"survey": (["type", "name", "label"], [["text", "a", "A"], [None, None, None], ["image", "n1", "Photo"],
                                                    [None, None, None], [None, None, None], ["image", "b", "Other"]])})
    out.append(_full("blank_rows_then_warning", b))
    b2 = WB({"survey": (["type", "name", "label"], [["select_one l", "q", "Q"]]),
             "choices": (["list_name", "name", "label"], [["l", "a", "A"], [None, None, None], ["l", "a", "A again"], ["l", "b", "B"]]),
             "settings": (["allow_choice_duplicates"], [["yes"]])})
    out.append(_full("blank_rows_in_choices", b2))
    out.extend(shape_cases(tier))
    # generated forms with every rendering (the default corpus gets a sample of renderings only)
    n = 12 if tier == "quick" else 150
    for c in corpus.generated(seed + 1212, n):
        out.append(Case("c12half_" + c.name, wb=c.wb, origin="C12-generated", tags={"c12-half"}))
    return out


# ----------------------------------------------------------------------------- fixtures (xls and multi-format)


def _trim_table(table):
    """table: list of rows of canonical texts -> (headers, rows) or None when outside the property
    (interior runs above the limits, data under empty headers are ignored like a header-less column)."""
    if not table:
        return [], []
    headers = list(table[0])
    while headers and headers[-1] is None:
        headers.pop()
    run = 0
    for h in headers:
        run = run + 1 if h is None else 0
        if run > MAX_COLS_RUN:
            return None
    rows = []
    for r in table[1:]:
        r = list(r[: len(headers)]) + [None] * (len(headers) - len(r))
        rows.append([c if headers[i] is not None else None for i, c in enumerate(r)])
    while rows and not any(c is not None for c in rows[-1]):
        rows.pop()
    run = 0
    for r in rows:
        run = run + 1 if not any(c is not None for c in r) else 0
        if run > MAX_ROWS_RUN:
            return None
    return headers, rows


MAX_FIXTURE_CELLS = {"quick": 60_000, "thorough": 30_000_000}
_tier = ["quick"]


def read_xls(path) -> WB | None:
    import xlrd

    book = xlrd.open_workbook(path)
    wb = WB()
    for s in book.sheets():
        if s.nrows * s.ncols > MAX_FIXTURE_CELLS[_tier[0]]:
            return None
        table = []
        for r in range(s.nrows):
            row = []
            for c in range(s.ncols):
                cell = s.cell(r, c)
                if cell.ctype == xlrd.XL_CELL_DATE or cell.ctype == xlrd.XL_CELL_ERROR:
                    return None  # dates are outside the property text
                if cell.ctype == xlrd.XL_CELL_BOOLEAN:
                    row.append(canon_text(bool(cell.value)))
                elif cell.ctype == xlrd.XL_CELL_NUMBER:
                    t = canon_text(float(cell.value))
                    if "e" in t or "inf" in t or "nan" in t:
                        return None
                    row.append(t)
                elif cell.ctype in (xlrd.XL_CELL_EMPTY, xlrd.XL_CELL_BLANK):
                    row.append(None)
                else:
                    row.append(canon_text(cell.value))
            table.append(row)
        t = _trim_table(table)
        if t is None:
            return None
        wb[s.name] = t
    return wb


def read_xlsx(path) -> WB | None:
    from openpyxl import load_workbook

    book = load_workbook(path, data_only=True, read_only=True)
    wb = WB()
    for ws in book.worksheets:
        if (ws.max_row or 0) * (ws.max_column or 0) > MAX_FIXTURE_CELLS[_tier[0]]:
            return None
        table = []
        for row in ws.iter_rows(values_only=True):
            out = []
            for v in row:
                if isinstance(v, (datetime.datetime, datetime.date, datetime.time)):
                    return None
                t = canon_text(v)
                if isinstance(v, float) and t and ("e" in t or "inf" in t or "nan" in t):
                    return None
                out.append(t)
            table.append(out)
        t = _trim_table(table)
        if t is None:
            return None
        wb[ws.title] = t
    return wb


def read_csv(path) -> WB | None:
    wb = WB()
    cur = None
    with open(path, encoding="utf-8", newline="") as f:
        for row in csv.reader(f):
            if not row:
                continue
            first = canon_text(row[0])
            rest = [canon_text(c) for c in row[1:]]
            if first is not None:
                if first in wb:
                    return None
                cur = first
                wb[cur] = ([], [])
            if cur is None:
                return None
            headers, rows = wb[cur]
            if not headers:
                if not any(c is not None for c in rest):
                    continue  # the sheet-name line
                while rest and rest[-1] is None:
                    rest.pop()
                headers.extend(rest)
            elif len(row) == 1:
                continue
            else:
                rest = rest[: len(headers)]
                rows.append(rest + [None] * (len(headers) - len(rest)))
    return wb


def read_md(path) -> WB | None:
    with open(path, encoding="utf-8") as f:
        return md_to_wb(f.read())


READERS = {".xls": read_xls, ".xlsx": read_xlsx, ".csv": read_csv, ".md": read_md}


def check_global(tier, seed, ctx):
    ctx.setdefault("seed", seed)
    _tier[0] = tier
    out, seen = [], set()
    n0 = ctx.get("c12_n", 0)
    rnd = random.Random(seed)
    tests = os.path.join(corpus.REPO, "tests")
    files = sorted(p for ext in READERS for p in glob.glob(os.path.join(tests, "**", "*" + ext), recursive=True))
    contents = {}
    for p in files:
        ext = os.path.splitext(p)[1]
        if os.path.getsize(p) > 3_000_000:
            continue
        try:
            wb = READERS[ext](p)
        except Exception:  # noqa: BLE001  (fixture my independent reader cannot read: not evidence of anything)
            continue
        if wb is None:
            continue
        wb = strip_trailing(canon_wb(wb))
        if well_defined(wb):
            continue
        contents[p] = wb
    quick_limit = 400 if tier == "quick" else 10 ** 9
    rnd_s = random.Random(seed + 1212)
    for p, wb in contents.items():
        ext = os.path.splitext(p)[1]
        fmt = ext[1:]
        cells = sum(len(r) for _, (_, rows) in wb.items() for r in rows)
        if cells > 6000 or (tier == "quick" and cells > quick_limit and fmt != "xls"):
            continue
        with open(p, "rb") as f:
            data = f.read()
        stem = Path(p).stem
        sample = None if fmt == "xls" and cells < 1500 else 4
        reported = False
        for v in check_rendering(f"fixture-{fmt}", fmt, data, wb, ctx, stem, sample, rnd, {},
                                 note=f"fixture {os.path.relpath(p, corpus.REPO)} vs independent reading: "):
            reported = True
            v = relabel(v, wb, data, ctx, stem)
            key = v["key"]
            if key not in seen:
                seen.add(key)
                out.append({"key": key, "what": v["what"], "case": os.path.relpath(p, corpus.REPO)})
        # stateful stream deliveries of the fixture's bytes (xls exists as fixtures only: more of them)
        if not reported:
            for v in check_streams(fmt, data, wb, ctx, (4 if tier == "quick" else 24) if fmt == "xls" else 1, rnd_s,
                                   note=f"fixture {os.path.relpath(p, corpus.REPO)} vs independent reading: "):
                if v["key"] not in seen:
                    seen.add(v["key"])
                    out.append({"key": v["key"], "what": v["what"], "case": os.path.relpath(p, corpus.REPO)})
        # the file at its original path as well (stem of the real file)
        ref = conv(wb_dict(wb, stem))
        got = conv(p)
        ctx["c12_n"] = ctx.get("c12_n", 0) + 1
        aspect = differ(ref, got)
        if aspect and not reported:
            key = f"C12:fixture-{fmt}:{aspect}:original-path"
            if key not in seen:
                seen.add(key)
                out.append({"key": key, "what": f"{os.path.relpath(p, corpus.REPO)} vs independent reading: "
                                                f"{describe(aspect, ref, got)}", "case": os.path.relpath(p, corpus.REPO)})
    t = ctx.get("c12_tmp")
    if t is not None:
        t.close()
    return out, ctx.get("c12_n", 0)
