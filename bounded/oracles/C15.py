"""C15 (bounded e2e): pretty_print is purely cosmetic.

Every form is converted twice (pretty_print False / True); both texts are parsed with ElementTree/expat and compared
as the property states it:

  * same outcome (both accepted or both refused), both parse or neither does;
  * identical element tree: same element (namespace + local name) at every position, same number of children;
  * identical attributes (names in Clark notation and exact values) and identical namespace declarations on every
    element;
  * identical text: for an element without element children the text must be the same string; for an element with
    element children every text slot (text before the first child, tail after each child) must be the same string,
    including leading / trailing / repeated spaces -- EXCEPT when all slots are whitespace-only in both documents
    (element-only content: whitespace between elements), the only place where the two may differ.

Nothing is derived from the library: the two outputs are only compared with each other.

Case families: typed cells, small forms, deep/wide structure, the rich text template, and fam_mixed_sites: a ${ref}
in every cell kind that can become mixed text-and-output content (labels, hints, guidance, messages, and the image /
big-image / audio / video file names of questions, groups, repeats and choices; osm tag labels), one place at a time.
"""
from __future__ import annotations

import io
import itertools
import random
import re
import xml.etree.ElementTree as ET

from bounded import corpus
from bounded.corpus import WB, Case

USES_DEFAULT_CORPUS = True
N_GENERATED = {"quick": 200, "thorough": 2000}
TIME_BUDGET_S = {"quick": 120, "thorough": 1500}

P = "C15"


# ------------------------------------------------------------------------------------------------ comparison


def parse_decls(text: str):
    """(root, {id(element): sorted [(prefix, uri)] declared on it}) or raises ET.ParseError."""
    decls, pending, root = {}, [], None
    for ev, x in ET.iterparse(io.BytesIO(text.encode("utf-8")), events=("start", "start-ns")):
        if ev == "start-ns":
            pending.append(tuple(x))
        else:
            if root is None:
                root = x
            if pending:
                decls[id(x)] = sorted(pending)
                pending = []
    return root, decls


def local(tag):
    return tag.rsplit("}", 1)[-1] if isinstance(tag, str) else str(tag)


def slots(e):
    return [e.text or ""] + [(c.tail or "") for c in e]


def text_class(path):
    """Stable class of a text-bearing element from where it sits (path of local names from the root)."""
    if path[-1] == "title" and len(path) == 3:
        return "title"
    if "itext" in path:
        return "itext-value"
    if "instance" in path:
        return "instance-node"
    if "body" in path:
        if "label" in path:
            return "label"
        if "hint" in path:
            return "hint"
        if path[-1] == "value":
            return "value"
        return "body-other"
    return "other"


def compare(a, b, da, db, path, out, limit=12):
    """Append (key, what) differences between compact element a and pretty element b."""
    if len(out) >= limit:
        return
    where = "/" + "/".join(path)
    if a.tag != b.tag:
        out.append(("element-tree-differs", f"{where}: element {a.tag!r} (compact) vs {b.tag!r} (pretty)"))
        return
    na, nb = da.get(id(a), []), db.get(id(b), [])
    if na != nb:
        out.append(("namespaces-differ", f"{where}: namespace declarations {na} (compact) vs {nb} (pretty)"))
    if a.attrib != b.attrib:
        ka, kb = set(a.attrib), set(b.attrib)
        diff = sorted(ka ^ kb) or sorted(k for k in ka if a.attrib[k] != b.attrib[k])
        out.append(("attributes-differ", f"{where}: attribute(s) {diff}: "
                                         f"{ {k: a.attrib.get(k) for k in diff} } (compact) vs "
                                         f"{ {k: b.attrib.get(k) for k in diff} } (pretty)"))
    ca, cb = list(a), list(b)
    if len(ca) != len(cb) or any(x.tag != y.tag for x, y in zip(ca, cb)):
        out.append(("element-tree-differs", f"{where}: children {[local(c.tag) for c in ca]} (compact) vs "
                                            f"{[local(c.tag) for c in cb]} (pretty)"))
        return
    sa, sb = slots(a), slots(b)
    if sa != sb:
        element_only = bool(ca) and all(not s.strip() for s in sa) and all(not s.strip() for s in sb)
        if not element_only:
            cls = text_class(path) + ("+mixed" if ca else "")
            out.append((f"text-differs:{cls}", f"{where}: text {sa!r} (compact) vs {sb!r} (pretty)"))
    for x, y in zip(ca, cb):
        compare(x, y, da, db, [*path, local(x.tag)], out, limit)


# ------------------------------------------------------------------------------------------------ check

_lookup_cache: dict = {}


def _recover(case, ctx):
    """Replay support: a replayed case carries no workbook; find the case of the same name."""
    if not _lookup_cache:
        seed = ctx.get("seed", 0)
        for tier in ("quick", "thorough"):
            for c in [*cases(tier, seed), *corpus.corpus(tier, seed, N_GENERATED[tier])]:
                _lookup_cache.setdefault(c.name, c)
    return _lookup_cache.get(case.name)


def check(case, res, ctx):
    if case.wb is None and case.md is None:
        found = _recover(case, ctx)
        if found is None:
            return []
        case = found
        res = corpus.convert_case(case, pretty_print=False)
    pretty = corpus.convert_case(case, pretty_print=True)
    if not res.ok and not pretty.ok:
        return []
    if res.ok != pretty.ok:
        bad = pretty if res.ok else res
        return [{"key": f"{P}:outcome-differs", "what": f"pretty_print={'True' if res.ok else 'False'} is refused "
                 f"({type(bad.error).__name__}: {str(bad.error)[:200]}) while the other mode converts"}]
    try:
        ra, da = parse_decls(res.xform)
    except (ET.ParseError, UnicodeEncodeError) as e:
        ra, ea = None, e
    try:
        rb, db = parse_decls(pretty.xform)
    except (ET.ParseError, UnicodeEncodeError) as e:
        rb, eb = None, e
    if ra is None and rb is None:
        return []  # neither is an XML document: C01's business
    if ra is None or rb is None:
        return [{"key": f"{P}:wellformedness-differs",
                 "what": f"the {'compact' if ra is None else 'pretty'} text does not parse "
                         f"({ea if ra is None else eb}) while the other one does"}]
    diffs = []
    compare(ra, rb, da, db, [local(ra.tag)], diffs)
    out, seen = [], set()
    for k, w in diffs:
        if k not in seen:
            seen.add(k)
            out.append({"key": f"{P}:{k}", "what": w})
    return out


# ------------------------------------------------------------------------------------------------ cases

SEGS = ["", "x", " x", "x ", " x ", "a  b", " ", "  ", "x\ny", "<&>", "-"]
SEGS_SMALL = ["", "x", " x ", "  ", "a  b"]


def ref_patterns(tier):
    """Cell texts mixing text segments with one, two or three references (placeholders {0} {1} {2})."""
    out = []
    for s0, s1 in itertools.product(SEGS, repeat=2):
        out.append(s0 + "{0}" + s1)
    for s0, s1, s2 in itertools.product(SEGS_SMALL if tier == "quick" else SEGS[:8], repeat=3):
        out.append(s0 + "{0}" + s1 + "{1}" + s2)
    for s in SEGS_SMALL:
        out.append("{0}" + s + "{1}" + s + "{0}")
        out.append(s + "{0}{1}{0}" + s)
    seen, res = set(), []
    for p in out:
        if p not in seen:
            seen.add(p)
            res.append(p)
    return res


def plain_texts():
    return ["x", " x", "x ", "  x  ", "a  b", " ", "  ", "\t", "x\ty", "a\nb", "a\n\nb", "a\n \nb", "a\n\t\nb", "\n\na",
            "a\n\n", "\na\n", "a\r\nb", "a\r\n\r\nb", "a\rb", "a\r\rb", "a\x85b", "a b", "a b", "a  b",
            "a\x0cb", "a\x0bb", "a\x1cb", "a\x1db", "a\x1eb", "line one,\n\nthank you.\n\nRegards", "  \n  ", "a\n  b\n    c",
            "<b>bold</b>", "a &amp; b", "]]>", "a > b", " ", "a  b", "　x　", "-", "0", "x" * 400,
            "tail \\", "* list\n* items\n\n# head", "{}", "$", "${", "a\n\n${a}", "${a}\n\n${a}", "${a}\n \n x",
            "\n${a}\n", " ${a}\n\n"]


def _instantiate(pattern, refs):
    names = [refs[i % len(refs)] for i in range(3)]
    return pattern.format(*["${%s}" % n for n in names])


def fam_text_form(tier, seed):
    """The rich template of corpus.text_form (every text-bearing cell kind, every nesting context) with the cells
    filled from the pattern lists so that every (pattern, cell) pair occurs; one and two languages; with and without
    whitespace cleaning."""
    out = []
    pats = ref_patterns(tier)
    plain = plain_texts()
    stride = 7
    n = len(pats)
    step = 1 if tier == "thorough" else 3
    for i in range(0, n, step):
        for multi in (False, True):
            clean = [None, "no", "yes"][(i // step + multi) % 3] if tier == "quick" else None
            for clean in ([clean] if tier == "quick" else [None, "no"]):
                pos = {}

                def fill(cid, lang, refs, i=i, pos=pos):
                    k = pos.setdefault((cid, lang), len(pos))
                    if cid.endswith(".default") or not refs:
                        s = plain[(i + k * stride) % len(plain)]
                        if "${" in s or (cid.endswith(".default") and re.search(r"[-+*|\[\](){}$]| div | mod ", s)):
                            return None
                        return s
                    return _instantiate(pats[(i + k * stride) % n], refs)
                wb = corpus.text_form(fill, multi=multi, tail_ref=bool(i % 2), clean=clean)
                out.append(Case(f"c15/mix/{i}/{'multi' if multi else 'mono'}/{clean}", wb=wb, origin="C15-family"))
    # one odd plain text in one kind of cell at a time (plus the same with a reference appended)
    inventory = []
    corpus.text_form(lambda cid, lang, refs: inventory.append((cid, refs)) or None, multi=False)
    cells = []
    for cid, refs in inventory:
        if cid not in [c for c, _ in cells]:
            cells.append((cid, refs))
    by_kind = {}
    for cid, refs in cells:
        by_kind.setdefault(cid.split(".")[0] + "." + cid.rsplit(".", 1)[1], []).append((cid, refs))
    k = 0
    for ki, (kind, members) in enumerate(by_kind.items()):
        for ti, t in enumerate(plain):
            if tier == "quick" and (ti + ki) % 3:
                continue
            targets = members if tier == "thorough" else [members[(ti + ki) % len(members)]]
            for cid, refs in targets:
                k += 1
                txt = t
                if "${a}" in t and "a" not in refs:
                    continue
                if cid.endswith(".default") and re.search(r"[-+*|\[\](){}$]| div | mod ", t):
                    continue

                def fill(c, lang, _refs, cid=cid, txt=txt):
                    return txt if c == cid else None
                for clean in (None, "no") if tier == "thorough" else ((None, "no")[k % 2],):
                    out.append(Case(f"c15/one/{cid}/{ti}/{clean}",
                                    wb=corpus.text_form(fill, multi=bool(k % 2), tail_ref=bool(k % 3), clean=clean),
                                    origin="C15-family"))
    # markup-like adversarial text everywhere
    strings = corpus.adv_strings(seed, 120 if tier == "quick" else 500)
    for i in range(0, len(strings), 2 if tier == "thorough" else 4):
        pos = {}

        def fill(cid, lang, refs, i=i, pos=pos):
            kk = pos.setdefault((cid, lang), len(pos))
            s = strings[(i + kk * 5) % len(strings)]
            if cid.endswith(".default") and re.search(r"[-+*|\[\](){}$]| div | mod ", s):
                return None
            if refs and kk % 2 and not s.endswith("$") and "${" not in s and not s.endswith("\\"):
                return s + "${%s}" % refs[0] + s
            return s
        out.append(Case(f"c15/adv/{i}", wb=corpus.text_form(fill, multi=bool(i % 8 < 4), tail_ref=True,
                                                            clean=(None, "no")[i % 2 if tier == "quick" else 0]),
                        origin="C15-family"))
    return out


def _wb(survey, choices=None, settings=None, extra=None):
    wb = WB()
    wb["survey"] = corpus.sheet_from_dicts(survey)
    if choices:
        wb["choices"] = corpus.sheet_from_dicts(choices, ["list_name", "name"])
    if settings:
        wb["settings"] = corpus.sheet_from_dicts([settings])
    for k, v in (extra or {}).items():
        wb[k] = corpus.sheet_from_dicts(v)
    return wb


def fam_small(tier):
    """Small forms for shapes the template does not reach: only-an-output and whitespace-only texts per element
    kind, empty elements, choice labels with references under every way of consuming the list, guidance-only hints,
    messages with references, static defaults with spaces."""
    out = []
    A = {"type": "text", "name": "a", "label": "A"}
    B = {"type": "integer", "name": "b", "label": "B"}
    texts = ["${a}", "${a}${b}", "${a} ${b}", " ${a} ", "${a}  ${b}", "x${a}", "${a}x", "x ${a} y ${b} z", "${a}\n${b}",
             "${a}\n\n${b}", "x", " ", "  ", "x  y", "\n", "${a} ", " ${a}", "${a}\t${b}", "${a} - ${b} - ${a}",
             "${last-saved#a}", "x ${last-saved#a} ${a}"]
    cleans = (None, "no")
    n = 0
    for t in texts:
        for clean in cleans:
            st = {"clean_text_values": clean} if clean else None
            n += 1
            # every translatable kind of one question, plain and per language
            for langs in ((None,), ("en", "fr"), (None, "fr")):
                def H(col, L):
                    return col if L is None else f"{col}::{L}"
                q = {"type": "text", "name": "q", "constraint": ". != ''", "required": "yes"}
                for L in langs:
                    for col in ("label", "hint", "guidance_hint", "constraint_message", "required_message"):
                        q[H(col, L)] = t
                out.append(Case(f"c15/small/q/{n}/{langs}", wb=_wb([A, B, q], settings=st), origin="C15-family"))
                q2 = {"type": "note", "name": "q", "image": "i.png"}
                for L in langs:
                    q2[H("label", L)] = t
                g = {"type": "begin group", "name": "g"}
                r = {"type": "begin repeat", "name": "r"}
                for L in langs:
                    g[H("label", L)] = t
                    r[H("label", L)] = t
                out.append(Case(f"c15/small/sections/{n}/{langs}", wb=_wb(
                    [A, B, q2, g, {"type": "text", "name": "gq", **{H("hint", L): t for L in langs}}, {"type": "end group"},
                     r, {"type": "text", "name": "rq", **{H("label", L): t for L in langs}}, {"type": "end repeat"}],
                    settings=st), origin="C15-family"))
                # choice labels under every way of consuming the list
                ch = [{"list_name": "l", "name": "c1", **{H("label", L): t for L in langs}},
                      {"list_name": "l", "name": "c2", **{H("label", L): "Two" for L in langs}},
                      {"list_name": "l", "name": "c3", **{H("label", L): t + t for L in langs}, "extra": t}]
                for usage in ("select_one l", "select_multiple l", "rank l", "select_one l or_other", "filter", "search",
                              "randomize", "in-repeat"):
                    row = {"type": usage if " l" in usage else "select_one l", "name": "s", "label": "S"}
                    if usage == "filter":
                        row["choice_filter"] = "extra != ''"
                    elif usage == "search":
                        row["appearance"] = "search('x')"
                    elif usage == "randomize":
                        row["parameters"] = "randomize=true"
                    rows = [A, B, row]
                    if usage == "in-repeat":
                        rows = [A, B, {"type": "begin repeat", "name": "r", "label": "R"}, row, {"type": "end repeat"}]
                    if tier == "quick" and (n + len(usage)) % 3:
                        continue
                    out.append(Case(f"c15/small/choice/{n}/{langs}/{usage}", wb=_wb(rows, ch, st), origin="C15-family"))
    # empty elements / static defaults / instance node text
    defaults = ["x", "a b", "a  b", " a", "a ", "  ", "a\nb", "a\n\nb", "2020-01-01", "0", "-", "a,b", "a;b", "é  é",
                "x" * 200]
    for i, d in enumerate(defaults):
        for clean in cleans:
            st = {"clean_text_values": clean} if clean else {}
            rows = [A, {"type": "text", "name": "d", "label": "D", "default": d},
                    {"type": "note", "name": "n", "label": "N", "default": d},
                    {"type": "calculate", "name": "c", "calculation": "1", "default": d},
                    {"type": "hidden", "name": "h", "default": d},
                    {"type": "begin repeat", "name": "r", "label": "R"},
                    {"type": "text", "name": "rd", "label": "RD", "default": d},
                    {"type": "select_one l", "name": "rs", "label": "RS", "default": "c1"}, {"type": "end repeat"},
                    {"type": "text", "name": "nolabel", "hint": "only a hint"},
                    {"type": "text", "name": "emptyhint", "label": "L", "hint": " "}]
            ch = [{"list_name": "l", "name": "c1", "label": d}, {"list_name": "l", "name": "c 2", "label": "L", "x": d}]
            st2 = {**st, "form_title": d, "version": d, "instance_name": f"'{d}'"} if i % 2 else st
            out.append(Case(f"c15/small/default/{i}/{clean}", wb=_wb(rows, ch, st2 or None), origin="C15-family"))
    return out


NUMBERS = [0, 1, -1, 7, 42, 1200, 2 ** 40, 1.0, 2.5, -0.5, 1e-7, 1e21, True, False]


def fam_typed(tier):
    """Workbooks given as dicts (an input type of convert()) whose cells keep the spreadsheet's native types:
    numbers and booleans in choice names, extra choice columns, settings and custom attribute columns.  One typed
    cell at a time (so that a refusal of one placement does not hide the others), then combinations."""
    out = []
    A = {"type": "text", "name": "a", "label": "A"}

    def sel(filtered, lang):
        row = {"type": "select_one l", "name": "s"}
        row["label::en" if lang else "label"] = "S ${a}"
        if filtered:
            row["choice_filter"] = "pop > 0"
        return row

    def choices(name=None, pop=None, code=None, lang=False, label=None):
        lab = "label::en" if lang else "label"
        return [{"list_name": "l", "name": "c1" if name is None else name, lab: label or "One", "pop": "5" if pop is None else pop,
                 "code": "k" if code is None else code},
                {"list_name": "l", "name": "c2", lab: "Two ${a}", "pop": "6", "code": "m"}]

    n = 0
    for v in NUMBERS:
        for filtered in (False, True):
            for lang in (False, True):
                n += 1
                if tier == "quick" and (n % 2) and v not in (1, 2.5):
                    continue
                tag = f"{v!r}/{int(filtered)}{int(lang)}"
                out.append(Case(f"c15/typed/choice-name/{tag}", wb=_wb([A, sel(filtered, lang)], choices(name=v, lang=lang)),
                                origin="C15-family"))
                out.append(Case(f"c15/typed/choice-col/{tag}", wb=_wb([A, sel(filtered, lang)], choices(pop=v, lang=lang)),
                                origin="C15-family"))
                out.append(Case(f"c15/typed/choice-both/{tag}",
                                wb=_wb([A, sel(filtered, lang)], choices(name=v, pop=v, code=v, lang=lang)),
                                origin="C15-family"))
        for col in ("form_title", "version", "form_id", "attribute::n", "style", "instance_name"):
            out.append(Case(f"c15/typed/settings/{col}/{v!r}", wb=_wb([A], settings={"form_id": "t", col: v}),
                            origin="C15-family"))
        for col in ("bind::n", "body::n", "instance::n", "default", "hint", "label", "appearance", "relevant", "required",
                    "parameters", "calculation"):
            row = {"type": "text", "name": "q", "label": "Q"}
            row[col] = v
            out.append(Case(f"c15/typed/survey/{col}/{v!r}", wb=_wb([A, row]), origin="C15-family"))
        out.append(Case(f"c15/typed/range/{v!r}",
                        wb=_wb([A, {"type": "range", "name": "r", "label": "R", "default": v}]), origin="C15-family"))
        out.append(Case(f"c15/typed/external/{v!r}", wb=_wb(
            [A, {"type": "select_one_external l", "name": "s", "label": "S", "choice_filter": "x=${a}"}],
            extra={"external_choices": [{"list_name": "l", "name": v, "label": "L", "x": v}]}), origin="C15-family"))
    return out


def fam_structure(tier, rnd):
    """Deep and wide trees, many languages, all control kinds: indentation must never reach text or attributes."""
    out = []
    for d in (1, 3, 6, 10, 16) if tier == "quick" else (1, 2, 3, 4, 6, 8, 10, 13, 16, 24, 40):
        for pattern in ("group", "repeat", "alt"):
            rows, stack = [{"type": "text", "name": "top", "label": "Top"}], []
            for i in range(d):
                kind = {"group": "group", "repeat": "repeat", "alt": ("group", "repeat")[i % 2]}[pattern]
                r = {"type": f"begin {kind}", "name": f"s{i}"}
                if i % 3 != 2:
                    r["label"] = [f"Section {i} ${{top}}", f"${{top}}", f"Section  {i}", f" ${{top}} {i}"][i % 4]
                rows.append(r)
                stack.append(kind)
                rows.append({"type": ["text", "integer", "select_one l", "note"][i % 4], "name": f"q{i}",
                             "label": [f"Q{i}", "${top}", f"Q ${{top}} {i}", "a  b"][i % 4],
                             "hint": ["", "${top}${top}", " h ", None][(i + 1) % 4], "default": "a b" if i % 4 == 0 else None})
            while stack:
                rows.append({"type": f"end {stack.pop()}"})
            out.append(Case(f"c15/deep/{d}/{pattern}", wb=_wb(rows, [{"list_name": "l", "name": "c", "label": "C ${top}"}]),
                            origin="C15-family"))
    langs = ["en", "fr", "sw", "es", "中文", "عربي", "default", "x y", "a&b", "L10"]
    for n in (1, 2, 3, 5, 10):
        for v in range(4 if tier == "quick" else 12):
            ls = rnd.sample(langs, n)
            A = {"type": "text", "name": "a", **{f"label::{L}": f"A{i}" for i, L in enumerate(ls)}}
            q = {"type": "select_multiple l", "name": "s"}
            for i, L in enumerate(ls):
                if rnd.random() < 0.8:
                    q[f"label::{L}"] = rnd.choice(["${a}", "S ${a}", " S ", "${a}${a}", "x  y", "a\n\nb"])
                if rnd.random() < 0.5:
                    q[f"hint::{L}"] = rnd.choice(["${a}", "h ${a} h", "h"])
                if rnd.random() < 0.4:
                    q[f"guidance_hint::{L}"] = rnd.choice(["${a}", "g ${a}", "g"])
                if rnd.random() < 0.3:
                    q[f"audio::{L}"] = "a.mp3"
            ch = [{"list_name": "l", "name": f"c{c}", **{f"label::{L}": rnd.choice(["${a}", f"C{c}", f"C ${{a}} {c}", " "])
                                                         for L in ls if rnd.random() < 0.85}} for c in range(3)]
            st = rnd.choice([None, {"default_language": ls[0]}, {"clean_text_values": "no"}])
            out.append(Case(f"c15/langs/{n}/{v}", wb=_wb([A, q], ch, st), origin="C15-family"))
    return out


# Every place of an XForm where a cell of the workbook can end up as mixed text-and-<output/> content, as the XLSForm
# conventions define them (a ${name} reference is allowed in any translatable cell, media file names included):
#   question   label / hint (body, or itext when translated or when the question has media), guidance hint,
#              constraint / required message (itext value), image / big-image / audio / video (itext value form=...)
#   group, repeat   label and the four media columns
#   choice     label and the four media columns, under every way of consuming the list (itext of the list, inline
#              items for search())
#   osm tag    label (body, inside <upload><tag>)
TEXT_COLS = ("label", "hint", "guidance_hint", "constraint_message", "required_message")
MEDIA_COLS = ("image", "big-image", "audio", "video")
Q_TYPES = ("note", "text", "integer", "select_one l", "select_multiple l", "rank l", "acknowledge", "image", "range",
           "geopoint", "date")
CHOICE_USAGES = ("select_one l", "select_multiple l", "rank l", "select_one l or_other", "filter", "search", "randomize",
                 "in-repeat")
# Contents with references ({0} {1}: two different references).  File-name shapes and sentence shapes; every shape is
# used in every kind of cell (a URI-looking label is as legitimate as a file name with spaces).
MIXED_PATTERNS = [
    "{0}.png", "people/{0}.png", "{0}", "people/{0}", "p/{0}_{1}.png", "{0}{1}", "{0}/{1}/f.png", "x {0} y.png",
    " {0}.png", "{0}.png ", "p/{0}  {1}.png", "{0}-{0}.mp3", "jr://images/{0}.png", "jr://audio/{0}", "http://h/{0}?a=1",
    "R&D {0}.png", "a<b {0} c>d", "Dear {0},\nsee {1}", "{0} {1}", "p/{0}.png\n", "file://{0}", "{0}://x",
]
MIXED_CONTROLS = ["f.png", "-", "jr://images/f.png", " f.png "]  # no reference: the same places with plain text


def _layout_headers(col, layout):
    """Header(s) of a translatable column under a language layout."""
    media = col in MEDIA_COLS
    if layout == "mono":
        return [col]
    if layout == "multi":
        return [f"{col}::en", f"{col}::fr"]
    if layout == "prefix":  # the long spelling of media headers; other columns: one named language only
        return [f"media::{col}"] if media else [f"{col}::en"]
    if layout == "prefix-multi":
        return [f"media::{col}::en", f"media::{col}::fr"] if media else [f"{col}::en", f"{col}::fr"]
    if layout == "partial":  # an untranslated column next to a translated one
        return [col, f"{col}::fr"]
    raise ValueError(layout)


LAYOUTS = ("mono", "multi", "prefix", "prefix-multi", "partial")
CONTEXTS = ("top", "group", "repeat", "nested")


def _mixed_case(name, holder, cols, text, layout, context, refs_kind, other_text=None, st=None):
    """A form where the cells `cols` of `holder` hold `text` (a pattern: {0} {1} are replaced by references that are
    in scope in `context`); every other cell is plain."""
    def named(t):
        return {h: t for h in _layout_headers("label", layout)}
    A = {"type": "text", "name": "a", **named("A")}
    B = {"type": "integer", "name": "b", **named("B")}
    inner = {"type": "text", "name": "rb", **named("RB")}
    if context in ("repeat", "nested"):
        refs = ["rb", "a"]  # a sibling inside the repeat (relative path) and a question outside
    else:
        refs = ["a", "b"]
    if refs_kind == 1:
        refs = [refs[1], refs[0]]
    elif refs_kind == 2:
        refs = [refs[0], "last-saved#a"]
    value = text.format(*["${%s}" % r for r in refs])
    cells = {}
    for col in cols:
        for h in _layout_headers(col, layout):
            cells[h] = value
    plain = {}
    if other_text is not None:  # the other translatable cells of the holder, so that a plain sibling value exists
        for h in _layout_headers("label", layout):
            plain[h] = other_text
    if "big-image" in cols and "image" not in cols:  # XLSForm: big-image accompanies an image
        for h in _layout_headers("image", layout):
            plain[h] = "small.png"
    survey_mid, choices, extra = [], None, None
    lab = named("L")
    ch_plain = [{"list_name": "l", "name": "c1", **lab}, {"list_name": "l", "name": "c2", **lab}]
    if holder.startswith("q:"):
        typ = holder[2:]
        row = {"type": typ, "name": "q", **plain, **cells}
        if "constraint_message" in cols:
            row["constraint"] = ". != 'zzz'"
        if "required_message" in cols:
            row["required"] = "yes"
        if " l" in typ:
            choices = ch_plain
        survey_mid = [row]
    elif holder in ("group", "repeat"):
        survey_mid = [{"type": f"begin {holder}", "name": "s", **plain, **cells},
                      {"type": "text", "name": "sq", **lab}, {"type": f"end {holder}"}]
    elif holder.startswith("choice:"):
        usage = holder[7:]
        row = {"type": usage if " l" in usage else "select_one l", "name": "q", **lab}
        if usage == "filter":
            row["choice_filter"] = "extra != ''"
        elif usage == "search":
            row["appearance"] = "search('x')"
        elif usage == "randomize":
            row["parameters"] = "randomize=true"
        survey_mid = [row]
        if usage == "in-repeat" and context not in ("repeat", "nested"):
            survey_mid = [{"type": "begin repeat", "name": "cr", **lab}, row, {"type": "end repeat"}]
        choices = [{"list_name": "l", "name": "c1", **plain, **cells, "extra": "e"},
                   {"list_name": "l", "name": "c2", **lab, "extra": "f"},
                   {"list_name": "l", "name": "c3", **plain, **cells}]
    elif holder == "osm-tag":
        survey_mid = [{"type": "osm t", "name": "q", **lab}]
        extra = {"osm": [{"list_name": "t", "name": "k1", **plain, **cells}, {"list_name": "t", "name": "k:2", **lab}]}
    else:
        raise ValueError(holder)
    if context == "top":
        rows = [A, B, *survey_mid]
    elif context == "group":
        rows = [A, B, {"type": "begin group", "name": "g", **lab}, *survey_mid, {"type": "end group"}]
    elif context == "repeat":
        rows = [A, B, {"type": "begin repeat", "name": "r", **lab}, inner, *survey_mid, {"type": "end repeat"}]
    else:
        rows = [A, B, {"type": "begin repeat", "name": "r0", **lab}, {"type": "begin group", "name": "g", **lab},
                {"type": "begin repeat", "name": "r", **lab}, inner, *survey_mid, {"type": "end repeat"},
                {"type": "end group"}, {"type": "end repeat"}]
    return Case(name, wb=_wb(rows, choices, st, extra), origin="C15-family")


def mixed_sites():
    """(holder, column) for every place listed above."""
    sites = []
    for t in Q_TYPES:
        for c in (*TEXT_COLS, *MEDIA_COLS):
            sites.append((f"q:{t}", c))
    for s in ("group", "repeat"):
        for c in ("label", *MEDIA_COLS):
            sites.append((s, c))
    for u in CHOICE_USAGES:
        for c in ("label", *MEDIA_COLS):
            sites.append((f"choice:{u}", c))
    sites.append(("osm-tag", "label"))
    return sites


def fam_mixed_sites(tier):
    """Mixed text-and-output content in EVERY place where a workbook cell can produce it (not only labels and hints):
    one place at a time x content shape x language layout x nesting context, then all places of a holder at once."""
    out = []
    sites = mixed_sites()
    pats = MIXED_PATTERNS + MIXED_CONTROLS
    n = 0
    for si, (holder, col) in enumerate(sites):
        for pi, pat in enumerate(pats):
            n += 1
            if tier == "quick" and (si + pi) % 7:
                continue
            combos = ([(LAYOUTS[n % len(LAYOUTS)], CONTEXTS[(n // len(LAYOUTS)) % len(CONTEXTS)])] if tier == "quick"
                      else [(LAYOUTS[(n + k) % len(LAYOUTS)], CONTEXTS[(n // len(LAYOUTS) + k) % len(CONTEXTS)])
                            for k in range(2)])
            for layout, context in combos:
                media = col in MEDIA_COLS
                # a media value or a hint alone (no label) and next to a plain label: both are legitimate rows;
                # guidance hints and messages need a label (or hint) beside them
                if col == "label":
                    other = None
                elif media or col == "hint":
                    other = [None, "Plain", "Plain"][n % 3]
                else:
                    other = "Plain"
                st = [None, None, {"default_language": "fr"}, {"clean_text_values": "no"}][(n // 3) % 4]
                if st and "default_language" in st and layout == "mono":
                    st = None
                out.append(_mixed_case(f"c15/site/{holder}/{col}/{pi}/{layout}/{context}", holder, (col,), pat, layout,
                                       context, n % 3, other, st))
    # all the places of one holder at once (siblings of a mixed value are mixed values too)
    holders = []
    for h, _ in sites:
        if h not in holders:
            holders.append(h)
    m = 0
    for hi, holder in enumerate(holders):
        cols = [c for h, c in sites if h == holder]
        for pi, pat in enumerate(pats):
            m += 1
            if tier == "quick" and (hi + pi) % 5:
                continue
            layout = LAYOUTS[m % len(LAYOUTS)]
            context = CONTEXTS[(m // 2) % len(CONTEXTS)]
            out.append(_mixed_case(f"c15/site-all/{holder}/{pi}/{layout}/{context}", holder, tuple(cols), pat, layout,
                                   context, m % 3))
            if tier == "thorough":
                out.append(_mixed_case(f"c15/site-media/{holder}/{pi}/{layout}/{context}", holder,
                                       tuple(c for c in cols if c in MEDIA_COLS) or tuple(cols), pat,
                                       LAYOUTS[(m + 1) % len(LAYOUTS)], context, (m + 1) % 3, "Plain"))
    return out


def cases(tier, seed):
    rnd = random.Random(seed * 4409 + 15)
    out = []
    out += fam_typed(tier)
    out += fam_small(tier)
    out += fam_structure(tier, rnd)
    out += fam_text_form(tier, seed)
    out += fam_mixed_sites(tier)
    return out
