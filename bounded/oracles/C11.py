"""C11 (bounded e2e): settings reach the form header verbatim.

Expectation, from the settings row of the source workbook and the convert() arguments only:
 * h:title = form_title (aliases title, set_form_title); absent -> the form id;
 * primary instance root: @id = form_id (aliases id_string, set_form_id; form_id wins over id_string);
   absent -> the file name stem for path input, else 'data'.  @version = version (absent -> no attribute).
   element name = settings `name`, else the form_name argument, else 'data';
 * instance_name -> calculate of the bind of meta/instanceName (absent -> no such node);
 * submission_url / public_key / auto_send / auto_delete -> <submission action method="post"
   base64RsaPublicKey orx:auto-send orx:auto-delete>, exactly the attributes that have a source; none -> no element;
 * style -> h:body/@class; namespaces -> declared on the document; attribute::x -> attribute x of the instance
   root; instance_xmlns -> namespace of the primary instance; omit_instanceID -> no meta/instanceID;
 * default_language (setting or argument) -> that translation is the default one (when it exists);
 * no setting leaks into another's place: every place above holds exactly its own setting (or default), also when
   an attribute:: column collides with a built-in root attribute whose own setting is present (id always is).
Path input is exercised inside check(): the form is written into a private tempfile.mkdtemp() directory under
several file names (extra dots, spaces, upper case; .md / .xlsx / .csv; str and PathLike) and removed afterwards.
Real spreadsheet containers (cases C11c-*, also inside check()): the workbook is written as .xlsx / .xlsm (openpyxl) and
.xls (BIFF8 in OLE2, corpus.c11_wb_to_xls) and handed to convert() as bytes with a file_type, as BytesIO / open file
without one (type detection), and as str / PathLike path.  The settings sheet of these cases carries layout noise
that the property allows because it is no setting at all: header-less columns (empty header cell) before, between and
after the used columns - empty spacers (no cell, formatted-empty cell, empty-string cell) or columns of private
notes - plus numeric cells for integer values and the settings sheet placed before the survey sheet.  The
expectation is unchanged: every setting (= cell under a non-empty header) reaches its own place verbatim, places
without a setting keep their default, whatever the container and whatever lies in header-less columns.
Truth-valued settings (cases C11t-*, C11p-t*, C11c-t*): omit_instanceID is the one setting of the statement that is
read as a yes/no answer, not copied.  XLSForm accepts for such a cell yes / true (no / false) in lower case,
Capitalised and UPPER CASE (a spreadsheet boolean cell shows as TRUE / FALSE) and the XPath spellings true() / false()
(TRUTHY / FALSY below, written down from the XLSForm conventions).  Every one of the 14 spellings is exercised alone,
beside every other setting (column before / after it), with public_key (a true spelling may be rejected there, it may
not be ignored), in random subsets, as dict / .md / .csv / .xlsx input and in real .xlsx / .xls containers (TRUE /
FALSE also stored as real boolean cells).  Expectation: a true spelling -> no meta/instanceID node and no bind for
it; a false spelling or no setting -> the node is there; every other place keeps its own setting / default.
Not demanded: the place of an attribute::version / attribute::xmlns value when the version / instance_xmlns
setting itself is absent; root name when both `name` and form_name are given; both default_language sources;
anything about an omit_instanceID value that is none of the 14 spellings.
"""
from __future__ import annotations

import io
import itertools
import pathlib
import random
import re
import shutil
import tempfile
import zlib

from bounded import corpus
from bounded.corpus import Case, Result, WB, XForm

USES_DEFAULT_CORPUS = True
N_GENERATED = {"quick": 120, "thorough": 1000}
TIME_BUDGET_S = {"quick": 60, "thorough": 900}

XF, XH = corpus.XF, corpus.XH
TITLE_KEYS = ("form_title", "title", "set_form_title")
ID_KEYS = ("form_id", "id_string", "set_form_id")
KNOWN = {*TITLE_KEYS, *ID_KEYS, "version", "name", "instance_name", "submission_url", "public_key", "auto_send",
         "auto_delete", "style", "namespaces", "omit_instanceID", "instance_xmlns", "default_language", "prefix",
         "delimiter"}
STD_PREFIXES = {"h", "ev", "xsd", "jr", "orx", "odk", "entities"}
RE_NS_SETTING = re.compile(r"""^\s*(?:[A-Za-z_][\w.\-]*=(?:"[^"\s]*"|'[^'\s]*')\s*)+$""")
RE_NS_PAIR = re.compile(r"""([A-Za-z_][\w.\-]*)=(?:"([^"\s]*)"|'([^'\s]*)')""")
SETTINGS_AS_TYPE = {"form_title", "set_form_title", "form_id", "set_form_id", "prefix"}
# accepted spellings of a yes/no cell (XLSForm conventions; independent of the converter's tables)
TRUTH_SETTINGS = ("omit_instanceID",)     # the settings the statement describes as a yes/no switch
TRUTHY = tuple(f(w) for w in ("yes", "true") for f in (str.lower, str.capitalize, str.upper)) + ("true()",)
FALSY = tuple(f(w) for w in ("no", "false") for f in (str.lower, str.capitalize, str.upper)) + ("false()",)

FILE_STEMS = ["household.v2", "2024.06.baseline-survey", "a.b.c.d", "plain", "with space", "UPPER.Case.Name",
              "dots..twice", "v1.0", "x.xlsx.backup", "survey.final.FINAL"]
FILE_EXTS = [".md", ".xlsx", ".csv"]


def V(key, what):
    return {"key": f"C11:{key}", "what": what}


def _settings(wb: WB):
    """Canonical view of the settings row; raises SvUnsupported for header spellings outside the conventions."""
    raw = {}
    for h, v in corpus.sv_settings_record(wb).items():
        v = str(v).strip()
        for a, b in corpus.sv_SMART.items():
            v = v.replace(a, b)
        if v == "":
            continue
        hs = str(h).strip()
        low = "_".join(hs.split()).lower()
        if hs in KNOWN or hs.startswith("attribute::"):
            raw[hs] = v
        elif low in {k.lower() for k in KNOWN} or low.startswith("attribute"):
            raise corpus.SvUnsupported(f"settings header spelling {h!r}")
    s = {"raw": raw}
    titles = [k for k in TITLE_KEYS if k in raw]
    ids = [k for k in ID_KEYS if k in raw]
    if len(titles) > 1 or ("set_form_id" in ids and len(ids) > 1):
        raise corpus.SvUnsupported("competing aliases")
    s["title"] = raw[titles[0]] if titles else None
    # form_id and id_string together: the converter documents (warning) that form_id is the one used
    s["id"] = raw["form_id"] if "form_id" in ids else (raw[ids[0]] if ids else None)
    for k in ("version", "name", "instance_name", "submission_url", "public_key", "auto_send", "auto_delete", "style",
              "namespaces", "omit_instanceID", "instance_xmlns", "default_language", "prefix", "delimiter"):
        s[k] = raw.get(k)
    s["attributes"] = {k.split("::", 1)[1].strip(): v for k, v in raw.items() if k.startswith("attribute::")}
    if any("::" in k for k in s["attributes"]):
        raise corpus.SvUnsupported("nested attribute column")
    return s


def _ns_pairs(text):
    if text is None:
        return []
    if not RE_NS_SETTING.match(text):
        return None
    return [(m.group(1), m.group(2) if m.group(2) is not None else m.group(3)) for m in RE_NS_PAIR.finditer(text)]


def check_output(s: dict, kwargs: dict, xform: str, fallback: str, how: str) -> list[dict]:
    x, err = corpus.parse_ok(xform)
    if x is None or x.iroot is None or x.head is None:
        return []
    out = []
    exp_id = s["id"] if s["id"] is not None else fallback
    exp_title = s["title"] if s["title"] is not None else exp_id
    src_id = "form_id" if s["id"] is not None else ("file-name" if fallback != "data" else "default")
    src_title = "form_title" if s["title"] is not None else ("form_id" if s["id"] is not None else src_id)
    # title
    t = x.head.find(f"{XH}title")
    title = (t.text or "") if t is not None else None
    if title != exp_title:
        out.append(V(f"title:{src_title}", f"[{how}] h:title={title!r}, expected {exp_title!r} (from {src_title})"))
    root = x.iroot
    attrs = {corpus.sv_qname_prefixed(k): v for k, v in root.attrib.items()}
    ns_pairs = _ns_pairs(s["namespaces"])
    # id
    if attrs.get("id") != exp_id:
        col = ":with-attribute-id" if "id" in s["attributes"] else ""
        out.append(V(f"id:{src_id}{col}", f"[{how}] instance root @id={attrs.get('id')!r}, expected {exp_id!r} (from {src_id})"))
    # version
    if s["version"] is not None:
        if attrs.get("version") != s["version"]:
            col = ":with-attribute-version" if "version" in s["attributes"] else ""
            out.append(V(f"version{col}", f"[{how}] @version={attrs.get('version')!r}, expected {s['version']!r}"))
    elif "version" not in s["attributes"] and "version" in attrs:
        out.append(V("version:unsourced", f"[{how}] @version={attrs['version']!r} without a version setting"))
    # root element name
    rootname = XForm.local(root.tag)
    if not (s["name"] is not None and kwargs.get("form_name") is not None):
        exp_name = s["name"] if s["name"] is not None else (kwargs.get("form_name") or "data")
        if rootname != exp_name:
            out.append(V("root-name", f"[{how}] primary instance root is <{rootname}>, expected <{exp_name}>"))
    # namespace of the primary instance
    uri = root.tag[1:].split("}")[0] if root.tag.startswith("{") else ""
    if s["instance_xmlns"] is not None:
        if uri != s["instance_xmlns"]:
            col = ":with-attribute-xmlns" if "xmlns" in s["attributes"] else ""
            out.append(V(f"instance-xmlns{col}", f"[{how}] primary instance namespace {uri!r}, expected {s['instance_xmlns']!r}"))
    elif "xmlns" not in s["attributes"] and uri != corpus.NS["x"]:
        out.append(V("instance-xmlns:unsourced", f"[{how}] primary instance namespace {uri!r} without instance_xmlns"))
    # attribute:: columns and stray root attributes
    if ns_pairs is not None:
        prefix_uri = dict(ns_pairs)
        for k, v in s["attributes"].items():
            if k in ("id", "version", "xmlns") or k.startswith(("odk:", "xmlns:")):
                continue
            if ":" in k:
                p, local = k.split(":", 1)
                if p not in prefix_uri or p in STD_PREFIXES:
                    continue
                have = root.attrib.get("{%s}%s" % (prefix_uri[p], local))
            else:
                have = root.attrib.get(k)
            if have != v:
                out.append(V("attribute-column", f"[{how}] instance root attribute {k}={have!r}, expected {v!r}"))
        allowed = {"id", "version", "odk:prefix", "odk:delimiter"}
        for k in root.attrib:
            pk = corpus.sv_qname_prefixed(k, {u: p for p, u in prefix_uri.items()})
            if pk not in allowed and pk not in s["attributes"]:
                out.append(V("root-attribute:unsourced", f"[{how}] instance root attribute {pk}={root.attrib[k]!r} has no source"))
        decls = set(corpus.sv_ns_declarations(xform))
        for p, u in ns_pairs:
            if p in STD_PREFIXES:
                continue
            if (p, u) not in decls:
                out.append(V("namespace-not-declared", f"[{how}] namespaces setting {p}={u!r} is not declared (declared: "
                                                       f"{sorted(d for d in decls if d[0] not in STD_PREFIXES and d[0])})"))
    # meta: instanceID / instanceName
    metas = [c for c in root if XForm.local(c.tag) == "meta"]
    meta_names = [XForm.local(c.tag) for c in metas[0]] if metas else []
    omit = s["omit_instanceID"]
    binds = {b.get("nodeset"): b for b in x.binds()}
    if omit is None or omit in FALSY:
        if "instanceID" not in meta_names:
            out.append(V("instanceID:missing", f"[{how}] meta/instanceID is missing (omit_instanceID={omit!r})"))
    elif omit in TRUTHY:
        if "instanceID" in meta_names:
            out.append(V("instanceID:not-omitted", f"[{how}] omit_instanceID={omit!r} but meta/instanceID is present"))
        elif f"/{rootname}/meta/instanceID" in binds:
            out.append(V("instanceID:bind-not-omitted", f"[{how}] omit_instanceID={omit!r}: the node is gone but a bind "
                                                        f"for /{rootname}/meta/instanceID is left"))
    iname_bind = binds.get(f"/{rootname}/meta/instanceName")
    if s["instance_name"] is not None:
        if "instanceName" not in meta_names or iname_bind is None:
            out.append(V("instance-name:missing", f"[{how}] instance_name={s['instance_name']!r} but no meta/instanceName node+bind"))
        else:
            calc = iname_bind.get("calculate")
            if calc is None or not corpus.sv_ref_regex(s["instance_name"]).match(calc):
                out.append(V("instance-name:calculate", f"[{how}] meta/instanceName calculate={calc!r}, expected the "
                                                        f"instance_name setting {s['instance_name']!r}"))
    elif "instanceName" in meta_names:
        out.append(V("instance-name:unsourced", f"[{how}] meta/instanceName without an instance_name setting"))
    # submission
    exp_sub = {}
    if s["submission_url"] is not None:
        exp_sub["action"] = s["submission_url"]
        exp_sub["method"] = "post"
    if s["public_key"] is not None:
        exp_sub["base64RsaPublicKey"] = s["public_key"]
    if s["auto_send"] is not None:
        exp_sub["orx:auto-send"] = s["auto_send"]
    if s["auto_delete"] is not None:
        exp_sub["orx:auto-delete"] = s["auto_delete"]
    subs = x.model.findall(f"{XF}submission")
    if not exp_sub:
        if subs:
            out.append(V("submission:unsourced", f"[{how}] <submission {dict(subs[0].attrib)}> without any submission setting"))
    elif len(subs) != 1:
        out.append(V("submission:missing", f"[{how}] {len(subs)} <submission> elements, expected one with {exp_sub}"))
    else:
        got = {corpus.sv_qname_prefixed(k): v for k, v in subs[0].attrib.items()}
        for k in sorted(set(got) | set(exp_sub)):
            if got.get(k) != exp_sub.get(k):
                out.append(V(f"submission:{k}", f"[{how}] submission/@{k}={got.get(k)!r}, expected {exp_sub.get(k)!r}"))
    # style
    cls = x.body.get("class") if x.body is not None else None
    if cls != s["style"]:
        out.append(V("style", f"[{how}] h:body/@class={cls!r}, expected {s['style']!r}"))
    # default language
    dl_s, dl_a = s["default_language"], kwargs.get("default_language")
    if (dl_s is None) != (dl_a is None) or (dl_s is not None and dl_s == dl_a):
        dl = dl_s if dl_s is not None else dl_a
        trs = x.model.findall(f"{XF}itext/{XF}translation")
        langs = [t_.get("lang") for t_ in trs]
        if dl in langs:
            defaults = [t_.get("lang") for t_ in trs if t_.get("default") is not None]
            if defaults != [dl]:
                out.append(V("default-language", f"[{how}] default_language={dl!r} but default translation(s) {defaults} of {langs}"))
    return out


def _file_variants(case: Case, n: int):
    h = zlib.crc32(case.name.encode("utf-8"))
    picks = []
    for i in range(n):
        stem = FILE_STEMS[(h + 3 * i) % len(FILE_STEMS)]
        ext = FILE_EXTS[(h // 7 + i) % len(FILE_EXTS)]
        as_str = bool((h >> (i + 3)) & 1)
        if (stem, ext) not in [(a, b) for a, b, _ in picks]:
            picks.append((stem, ext, as_str))
    return picks


# How a real container reaches convert(): (file extension, hand-over).  "+type" passes file_type, the others leave the
# type to be found out from the path suffix / the content.
XLSX_DELIVERIES = [("xlsx", "bytes+type"), ("xlsx", "path-str"), ("xlsx", "BytesIO"), ("xlsm", "path-obj"), ("xlsx", "file"),
                   ("xlsm", "bytes+type"), ("xlsx", "path-obj")]
XLS_DELIVERIES = [("xls", "bytes+type"), ("xls", "path-obj"), ("xls", "BytesIO"), ("xls", "path-str"), ("xls", "file")]
EMPTIES = ("absent", "styled", "blank")
PLANS: dict = {}   # case name -> {"deliveries": [...], "typed": bool, "empties": str}; filled by cases()


def _bool_cells(wb: WB) -> WB:
    """The same workbook with the TRUE / FALSE texts of truth-valued settings held as boolean cells (what a
    spreadsheet program stores when the author types TRUE); every other cell is untouched."""
    out = WB()
    for name, (headers, rows) in wb.items():
        rows = [list(r) for r in rows]
        if str(name).lower() == "settings":
            for r in rows:
                for i, h in enumerate(headers):
                    if h in TRUTH_SETTINGS and i < len(r) and r[i] in ("TRUE", "FALSE"):
                        r[i] = r[i] == "TRUE"
        out[name] = (list(headers), rows)
    return out


def _check_containers(case: Case, wb: WB, s: dict, plan: dict) -> list[dict]:
    """Write the source workbook into real .xlsx/.xlsm/.xls containers and check each conversion against the same
    expectation `s` (which was read from the cells under non-empty headers only)."""
    out = []
    kw = {k: v for k, v in case.kwargs.items() if k != "_source"}
    typed, empties = plan["typed"], plan["empties"]
    file_wb = _bool_cells(wb) if plan.get("boolcells") else wb
    h = zlib.crc32(case.name.encode("utf-8"))
    blobs, tmp, opened = {}, None, []
    try:
        for i, (ext, mode) in enumerate(plan["deliveries"]):
            kind = "xls" if ext == "xls" else "xlsx"
            if kind not in blobs:
                try:
                    blobs[kind] = (corpus.c11_wb_to_xls if kind == "xls" else corpus.c11_wb_to_xlsx)(file_wb, typed, empties)
                except ValueError:      # not representable in that container (size limits of the writer)
                    blobs[kind] = None
            data = blobs[kind]
            if data is None:
                continue
            fallback, file_type = "data", None
            if mode == "bytes+type":
                src, file_type = data, f".{ext}"
            elif mode == "BytesIO":
                src = io.BytesIO(data)
            else:
                if tmp is None:
                    tmp = tempfile.mkdtemp(prefix="verif-c11-")
                stem = FILE_STEMS[(h + 3 * i) % len(FILE_STEMS)]
                p = pathlib.Path(tmp) / f"{stem}.{ext}"
                p.write_bytes(data)
                if mode == "file":
                    src = open(p, "rb")   # noqa: SIM115
                    opened.append(src)
                else:
                    src, fallback = (str(p) if mode == "path-str" else p), stem
            how = (f"{ext} container as {mode}, empty cells {empties}{', numeric cells' if typed else ''}"
                   f"{', boolean cells' if plan.get('boolcells') else ''}")
            r2 = corpus.convert_case(Case(case.name, wb=wb, kwargs=kw), _source=src, file_type=file_type)
            if not r2.ok or r2.xform is None:
                key = "container-input-crash" if r2.internal_error else "container-input-rejected"
                out.append(V(key, f"[{how}] accepted as a dict of the same cells but not as a container: "
                                  f"{type(r2.error).__name__}: {r2.error}"))
                continue
            out += check_output(s, kw, r2.xform, fallback, how)
    finally:
        for f in opened:
            f.close()
        if tmp is not None:
            shutil.rmtree(tmp, ignore_errors=True)
    return out


def check(case: Case, res: Result, ctx: dict) -> list[dict]:
    wb = corpus.sv_case_wb(case)
    if wb is None:
        return []
    try:
        s = _settings(wb)
    except corpus.SvUnsupported:
        return []
    for rec in corpus.sv_sheet_records(wb, "survey"):
        for h, v in rec.items():
            if str(h).strip().lower() in ("type", "command") and corpus.sv_clean_cell(v) in SETTINGS_AS_TYPE:
                return []
    out = []
    if res.ok and res.xform is not None:
        out += check_output(s, case.kwargs, res.xform, "data", "in-memory")
    if case.name.startswith("C11p-") and res.ok:
        tmp = tempfile.mkdtemp(prefix="verif-c11-")
        try:
            for stem, ext, as_str in _file_variants(case, 3 if ctx.get("tier") == "thorough" else 2):
                if ext == ".md" and not (case.md is not None or corpus.md_safe(wb)):
                    ext = ".xlsx"
                p = pathlib.Path(tmp) / f"{stem}{ext}"
                if ext == ".md":
                    p.write_text(case.as_md(), encoding="utf-8")
                elif ext == ".csv":
                    p.write_text(corpus.wb_to_csv(wb), encoding="utf-8", newline="")
                else:
                    p.write_bytes(corpus.wb_to_xlsx(wb))
                kw = {k: v for k, v in case.kwargs.items() if k != "_source"}
                r2 = corpus.convert_case(Case(case.name, wb=wb, kwargs=kw), _source=(str(p) if as_str else p), file_type=None)
                if not r2.ok or r2.xform is None:
                    if not r2.internal_error:
                        out.append(V("path-input-rejected", f"{p.name}: accepted in memory but rejected by path: {r2.error}"))
                    continue
                out += check_output(s, kw, r2.xform, stem, f"path {p.name} as {'str' if as_str else 'PathLike'}")
        finally:
            shutil.rmtree(tmp, ignore_errors=True)
    plan = PLANS.get(case.name)
    if plan is not None and res.ok:
        out += _check_containers(case, wb, s, plan)
    seen, uniq = set(), []
    for v in out:
        if v["key"] not in seen:
            seen.add(v["key"])
            uniq.append(v)
    return uniq


# ----------------------------------------------------------------------------- cases

SURVEY_PLAIN = (["type", "name", "label"], [["text", "q1", "Q1"], ["integer", "q2", "Q2"]])
SURVEY_LANG = (["type", "name", "label::English (en)", "label::French (fr)", "hint::French (fr)"],
               [["text", "q1", "Q1", "Q1 fr", "indice"], ["integer", "q2", "Q2", "Q2 fr", None],
                ["begin repeat", "r", "R", "R fr", None], ["text", "q3", "Q3", "Q3 fr", None], ["end repeat", None, None, None, None]])

# setting -> candidate values (all values distinct across settings so that swaps are visible)
VALUES = {
    "title": ["My <Form> & \"Title\"", "Titre d'enquête"],
    "id": ["form_id_x", "hh-survey.2024"],
    "version": ["2024.1", "v2 beta", "7"],
    "name": ["rootname", "hh_root"],
    "instance_name": ["concat(${q1}, '-', ${q2})", "uuid()"],
    "submission_url": ["https://example.org/submit?a=1&b=2", "http://srv/x"],
    "public_key": ["MIIBIjANBgkqhkiG9w0BAQEFAAOCAQ8A", "PUBKEY=="],
    "auto_send": ["true", "false"],
    "auto_delete": ["false", "true"],
    "style": ["pages", "theme-grid pages"],
    "namespaces": ['ex="http://example.org/ex"', 'ex="http://example.org/ex" foo="http://foo.org/ns"'],
    "attribute::xyz": ["attr-xyz", "1234"],
    "attribute::ex:abc": ["attr-ex-abc"],
    "attribute::id": ["other_form"],
    "attribute::version": ["0"],
    "attribute::xmlns": ["http://example.org/other"],
    "omit_instanceID": ["yes", "no", "true"],
    "instance_xmlns": ["http://example.org/instance"],
    "default_language": ["French (fr)", "English (en)"],
}
ORDER = list(VALUES)
# private notes kept in header-less columns: no setting, distinct from every setting value (a leak is visible)
NOTES = ["remember to bump the version", "note_to_self", "v3 draft"]
# cells of the header-less columns inserted at one place (None = empty cell)
NOISE_KINDS = [[None], [None, None], [NOTES[0]], [NOTES[1], None], [None, NOTES[2], None]]
SPELLINGS = {"title": TITLE_KEYS, "id": ID_KEYS}


def _case(name, chosen: dict, rnd: random.Random, lang=False, kwargs=None, spelling=None, shuffle=False, both_ids=False,
          noise=None, settings_first=False):
    keys = [k for k in ORDER if k in chosen]
    if shuffle:
        rnd.shuffle(keys)
    headers, row = [], []
    spelling = spelling or {}
    for k in keys:
        h = k
        if k in SPELLINGS:
            h = spelling.get(k) or SPELLINGS[k][0]
        headers.append(h)
        row.append(chosen[k])
    if both_ids and "id" in chosen:
        headers = [("form_id" if h in ID_KEYS else h) for h in headers]
        headers.append("id_string")
        row.append("legacy_id_string")
    if "attribute::ex:abc" in chosen and "namespaces" not in chosen:
        headers.append("namespaces")
        row.append(VALUES["namespaces"][0])
    if "public_key" in chosen and "omit_instanceID" in chosen and chosen["omit_instanceID"] in corpus.SV_YES:
        i = headers.index("omit_instanceID")
        row[i] = "no"
    # layout noise: header-less columns (header None) inserted at header positions; cell None = empty, text = a note
    for pos, cells in sorted(noise or [] if headers else [], key=lambda pc: -pc[0]):
        pos = min(pos, len(headers))
        headers[pos:pos] = [None] * len(cells)
        row[pos:pos] = list(cells)
    wb = WB()
    sv = SURVEY_LANG if (lang or "default_language" in chosen or (kwargs or {}).get("default_language")) else SURVEY_PLAIN
    if headers and settings_first:
        wb["settings"] = (headers, [row])
    wb["survey"] = (list(sv[0]), [list(r) for r in sv[1]])
    if headers and not settings_first:
        wb["settings"] = (headers, [row])
    return Case(name, wb=wb, kwargs=dict(kwargs or {}), origin="C11")


def cases(tier: str, seed: int) -> list[Case]:
    rnd = random.Random(seed * 15485863 + 11)
    out: list[Case] = []
    n = [0]
    PLANS.clear()

    def add(chosen, path=False, **kw):
        n[0] += 1
        out.append(_case(f"{'C11p' if path else 'C11'}-{n[0]}", chosen, rnd, **kw))

    # 0. no settings at all (in memory and by path), with / without arguments
    add({}, path=True)
    add({}, path=True, kwargs={"form_name": "argroot"})
    add({}, path=True, lang=True, kwargs={"default_language": "French (fr)"})
    add({}, lang=True, kwargs={"default_language": "English (en)", "form_name": "argroot2"})
    # 1. every single setting, every value, every alias spelling; path variants for the ones touching title/id
    for k in ORDER:
        for v in VALUES[k]:
            for sp in (SPELLINGS.get(k) or [None]):
                add({k: v}, path=True, spelling={k: sp} if sp else None)
    # 2. every pair of settings (first values), alternating path / memory; collisions of attribute:: with built-ins
    for a, b in itertools.combinations(ORDER, 2):
        add({a: VALUES[a][0], b: VALUES[b][-1]}, path=(n[0] % 2 == 0), shuffle=(n[0] % 3 == 0))
    for col, own in (("attribute::id", "id"), ("attribute::version", "version"), ("attribute::xmlns", "instance_xmlns")):
        for extra in ({}, {"title": VALUES["title"][0]}, {"attribute::xyz": "attr-xyz", "name": "rootname"}):
            for first in (True, False):
                chosen = {col: VALUES[col][0], own: VALUES[own][0], **extra}
                c = _case(f"C11-collide-{len(out)}", chosen, rnd)
                if first:   # attribute:: column before the built-in setting's column
                    h, rows = c.wb["settings"]
                    i, j = h.index(col), h.index(SPELLINGS.get(own, [own])[0])
                    if i > j:
                        h[i], h[j] = h[j], h[i]
                        rows[0][i], rows[0][j] = rows[0][j], rows[0][i]
                out.append(c)
    add({"attribute::id": "other_form"}, path=True)
    add({"attribute::id": "other_form", "attribute::version": "0", "attribute::xmlns": "http://example.org/other",
         "id": "form_id_x", "version": "2024.1", "instance_xmlns": "http://example.org/instance"}, path=True)
    # 3. form_id together with id_string; form_name argument; title only / id only by path
    add({"id": "form_id_x"}, both_ids=True, path=True)
    add({"id": "form_id_x", "title": "T"}, both_ids=True)
    add({"title": VALUES["title"][0]}, path=True, kwargs={"form_name": "argroot"})
    add({"id": "form_id_x"}, path=True, kwargs={"form_name": "argroot"})
    add({"name": "rootname"}, path=True, kwargs={"form_name": "argroot"})
    add({"default_language": "French (fr)"}, kwargs={"default_language": "French (fr)"})
    # 4. everything at once, and random subsets with random values / spellings / column order
    everything = {k: VALUES[k][0] for k in ORDER}
    everything["omit_instanceID"] = "no"
    add(everything, path=True)
    e2 = {k: v for k, v in everything.items() if k != "public_key"}
    e2["omit_instanceID"] = "yes"
    add(e2, path=True, shuffle=True)
    for i in range({"quick": 500, "thorough": 5000}[tier]):
        keys = [k for k in ORDER if rnd.random() < rnd.choice([0.15, 0.35, 0.6])]
        chosen = {k: rnd.choice(VALUES[k]) for k in keys}
        kwargs = {}
        if rnd.random() < 0.15:
            kwargs["form_name"] = rnd.choice(["argroot", "Root_2"])
        if rnd.random() < 0.1:
            kwargs["default_language"] = rnd.choice(VALUES["default_language"])
        add(chosen, path=(rnd.random() < 0.35), spelling={k: rnd.choice(SPELLINGS[k]) for k in SPELLINGS},
            shuffle=True, kwargs=kwargs, lang=rnd.random() < 0.3, both_ids=rnd.random() < 0.05)
    # 5. real .xlsx/.xlsm/.xls containers, settings sheet with header-less columns (own random stream: the cases above
    #    are the same as before).  Every case is converted from one xlsx-family and one xls container (thorough: all
    #    hand-over modes); hand-over mode, storage of the empty cells, numeric cells and sheet order rotate.
    rc = random.Random(seed * 32452843 + 1111)
    nc = [0]

    def addc(chosen, noise=None, **kw):
        nc[0] += 1
        name = f"C11c-{nc[0]}"
        h = zlib.crc32(name.encode("utf-8"))
        out.append(_case(name, chosen, rc, noise=noise, settings_first=((h >> 12) % 4 == 0), **kw))
        if tier == "thorough" and nc[0] % 8 == 1:
            deliveries = [*XLSX_DELIVERIES, *XLS_DELIVERIES]
        else:
            deliveries = [XLSX_DELIVERIES[h % len(XLSX_DELIVERIES)], XLS_DELIVERIES[(h >> 3) % len(XLS_DELIVERIES)]]
        PLANS[name] = {"deliveries": deliveries, "typed": bool((h >> 7) & 1), "empties": EMPTIES[(h >> 9) % 3]}

    base_keys = ["title", "id", "version", "name", "instance_name", "submission_url", "public_key", "auto_send", "style",
                 "attribute::xyz"]
    base = {k: VALUES[k][-1] for k in base_keys}      # version '7' and attribute::xyz '1234' may become numeric cells
    addc(everything)
    addc(base)
    # 5a. one noise place, every position (before the first, between any two, after the last column) x every kind
    for pos in range(len(base_keys) + 1):
        for cells in NOISE_KINDS:
            addc(base, noise=[(pos, cells)])
    # 5b. two noise places in a five-column sheet, every pair of positions
    five = {k: VALUES[k][0] for k in ("title", "id", "version", "submission_url", "style")}
    for p1, p2 in itertools.combinations(range(len(five) + 1), 2):
        for c1, c2 in (([None], [NOTES[0]]), ([NOTES[1]], [None, None]), ([NOTES[2]], [NOTES[0]]))[:2 if tier == "quick" else 3]:
            addc(five, noise=[(p1, c1), (p2, c2)])
    # 5c. a single setting with a spacer / a note column before or after it: the place of every *absent* setting must
    #     keep its default, the present one must not move
    for k in ORDER:
        for pos in (0, 1):
            for cells in ([None], [NOTES[(pos + len(k)) % len(NOTES)]]):
                if tier == "quick" and pos == 1 and cells == [None]:
                    continue            # only trailing emptiness: left to the thorough tier
                addc({k: VALUES[k][0]}, noise=[(pos, cells)])
    # 5d. random subsets / values / spellings / column orders with random noise
    for i in range({"quick": 50, "thorough": 1500}[tier]):
        keys = [k for k in ORDER if rc.random() < rc.choice([0.15, 0.35, 0.6])] or [rc.choice(ORDER)]
        chosen = {k: rc.choice(VALUES[k]) for k in keys}
        kwargs = {}
        if rc.random() < 0.15:
            kwargs["form_name"] = rc.choice(["argroot", "Root_2"])
        if rc.random() < 0.1:
            kwargs["default_language"] = rc.choice(VALUES["default_language"])
        noise = [(rc.randrange(len(keys) + 2), rc.choice(NOISE_KINDS)) for _ in range(rc.choice([0, 1, 1, 2, 3]))]
        addc(chosen, noise=noise, spelling={k: rc.choice(SPELLINGS[k]) for k in SPELLINGS}, shuffle=True, kwargs=kwargs,
             lang=rc.random() < 0.3, both_ids=rc.random() < 0.05)
    # 6. truth-valued settings in every accepted spelling (own random stream and own case names: everything above
    #    is the same as before).  _case() is given the value under a key it does not rewrite.
    rt = random.Random(seed * 49979687 + 1117)
    nt = [0]
    others = [k for k in ORDER if k not in TRUTH_SETTINGS]

    def addt(chosen, truth: dict, first=False, path=False, container=None, noise=None, **kw):
        """`truth` {setting: spelling} is put into the settings row as it is (no rewriting), as first / last column
        or (shuffle) anywhere."""
        nt[0] += 1
        name = f"{'C11c' if container else 'C11p' if path else 'C11'}-t{nt[0]}"
        c = _case(name, {k: v for k, v in chosen.items() if k not in TRUTH_SETTINGS} or {"title": VALUES["title"][1]},
                  rt, noise=None, **kw)
        headers, rows = c.wb["settings"]
        for k, v in truth.items():
            at = 0 if first else (rt.randrange(len(headers) + 1) if kw.get("shuffle") else len(headers))
            headers.insert(at, k)
            rows[0].insert(at, v)
        for pos, cells in sorted(noise or [], key=lambda pc: -pc[0]):
            pos = min(pos, len(headers))
            headers[pos:pos] = [None] * len(cells)
            rows[0][pos:pos] = list(cells)
        out.append(c)
        if container:
            h = zlib.crc32(name.encode("utf-8"))
            if tier == "thorough" and nt[0] % 4 == 1:
                deliveries = [*XLSX_DELIVERIES, *XLS_DELIVERIES]
            else:
                deliveries = [XLSX_DELIVERIES[h % len(XLSX_DELIVERIES)], XLS_DELIVERIES[(h >> 3) % len(XLS_DELIVERIES)]]
            PLANS[name] = {"deliveries": deliveries, "typed": bool((h >> 7) & 1), "empties": EMPTIES[(h >> 9) % 3],
                           "boolcells": container == "bool"}

    for setting in TRUTH_SETTINGS:
        spellings = [*TRUTHY, *FALSY]
        # 6a. the setting alone (beside a title), every spelling: dict input and by path (.md / .csv / .xlsx)
        for v in spellings:
            addt({}, {setting: v}, path=True)
            addt({"id": VALUES["id"][0]}, {setting: v}, first=True, path=True)
        # 6b. every spelling beside every other setting, the truth column before / after it
        for i, v in enumerate(spellings):
            for j, k in enumerate(others):
                if k == "public_key":
                    continue
                addt({k: VALUES[k][0]}, {setting: v}, first=bool((i + j) % 2), path=((i + j) % 7 == 0))
        # 6c. with public_key: a true spelling cannot be honoured (the form may be rejected), a false one must be
        for v in spellings:
            addt({"public_key": VALUES["public_key"][0], "submission_url": VALUES["submission_url"][1]}, {setting: v},
                 first=(v in FALSY))
        # 6d. real containers: every spelling as a text cell with layout noise around it; TRUE / FALSE as boolean cells
        for i, v in enumerate(spellings):
            addt(five, {setting: v}, container="text", noise=[(i % 7, NOISE_KINDS[i % len(NOISE_KINDS)])])
            addt({}, {setting: v}, container="text", first=True, noise=[((i + 1) % 3, NOISE_KINDS[(i + 2) % len(NOISE_KINDS)])])
        for v in ("TRUE", "FALSE"):
            addt({}, {setting: v}, container="bool")
            addt(five, {setting: v}, container="bool", first=True)
            addt({k: x for k, x in base.items() if k != "public_key"}, {setting: v}, container="bool",
                 noise=[(2, [NOTES[0]]), (5, [None])])
        # 6e. random subsets / values / alias spellings / column orders, random truth spelling
        for i in range({"quick": 80, "thorough": 1500}[tier]):
            v = spellings[i % len(spellings)] if i < 2 * len(spellings) else rt.choice(spellings)
            keys = [k for k in others if rt.random() < rt.choice([0.15, 0.35, 0.6])]
            if v in TRUTHY and "public_key" in keys:
                keys.remove("public_key")           # that combination is family 6c
            chosen = {k: rt.choice(VALUES[k]) for k in keys}
            kwargs = {}
            if rt.random() < 0.15:
                kwargs["form_name"] = rt.choice(["argroot", "Root_2"])
            if rt.random() < 0.1:
                kwargs["default_language"] = rt.choice(VALUES["default_language"])
            container = rt.choice([None, None, None, "text", "bool" if v in ("TRUE", "FALSE") else "text"])
            noise = [(rt.randrange(len(keys) + 2), rt.choice(NOISE_KINDS)) for _ in range(rt.choice([0, 1, 2]))]
            addt(chosen, {setting: v}, path=(rt.random() < 0.3), container=container, noise=noise if container else None,
                 spelling={k: rt.choice(SPELLINGS[k]) for k in SPELLINGS}, shuffle=True, kwargs=kwargs,
                 lang=rt.random() < 0.3)
    return out
