"""C19 (bounded e2e): entity declarations follow the documented create/update decision table.

The expectation is computed from the source workbook only (entities sheet row, save_to cells and the
begin/end structure of the survey sheet) and the ODK entities conventions quoted in the property text:

    entity_id create_if update_if   outcome
        1        0         0        always update
        1        0         1        update when update_if holds
        1        1         0        REJECTED (id only acceptable when updating)
        1        1         1        create and update, each under its condition
        0        0         0        always create            (label required)
        0        0         1        REJECTED (need id to update)
        0        1         0        create when create_if    (label required)
        0        1         1        REJECTED (need id to update)
    no entity_id and no label      REJECTED (label required when creating)

For an accepted form: meta/entity carries exactly dataset, id="" (+ create="1" when creating; update="1",
baseVersion, trunkVersion, branchId when updating), a <label/> child exactly when a label is given, the binds
@id (calculate = entity_id when updating), @create / @update (the conditions), @baseVersion/@trunkVersion/@branchId
(looked up in instance('<dataset>') by the id, only when updating), label; a setvalue uuid() on
odk-instance-first-load exactly when creating; every save_to cell is an entities:saveto attribute on that question's
bind and nowhere else; the entities namespace and entities-version are declared exactly when an entity is declared.
Rejected: invalid dataset/property names, unknown entities columns, several entity rows, save_to in a repeat
(at any depth) or on a group/repeat, save_to without an entity.
Names and entity cells are data: families rw-* (cases_rewritable) cover property names, dataset names and entity cells
whose text is one that XLSForm rewrites in other places (yes/no/true/false in every accepted capitalisation, near
misses, empty-markers such as None/null/NA, type and column keywords), over placement, question type, neighbouring
bind cells holding truth values, and the decision table; they must arrive verbatim (key C19:saveto-binds:value when
the right bind carries entities:saveto with another text than the cell).
"""
from __future__ import annotations

import itertools
import random
import re

from bounded import corpus
from bounded.corpus import Case, WB

USES_DEFAULT_CORPUS = True
N_GENERATED = {"quick": 60, "thorough": 400}
TIME_BUDGET_S = {"quick": 90, "thorough": 900}

ENT_NS = "http://www.opendatakit.org/xforms/entities"
ENT = "{%s}" % ENT_NS
XF = corpus.XF
ENTITY_COLUMNS = {"dataset", "entity_id", "create_if", "update_if", "label"}
KNOWN_VERSIONS = {"2022.1.0", "2023.1.0", "2024.1.0"}

# XML 1.0 (5th ed.) Name productions, restricted to NCName (no colon): the documented rule for dataset and
# property names ("must begin with a letter or underscore; other characters can include numbers, dashes [, periods]").
_NSC = ("A-Z_a-z\u00c0-\u00d6\u00d8-\u00f6\u00f8-\u02ff\u0370-\u037d\u037f-\u1fff\u200c-\u200d\u2070-\u218f"
        "\u2c00-\u2fef\u3001-\ud7ff\uf900-\ufdcf\ufdf0-\ufffd\U00010000-\U000effff")
_NC = _NSC + "\\-.0-9\u00b7\u0300-\u036f\u203f-\u2040"
RE_NCNAME = re.compile("^[%s][%s]*$" % (_NSC, _NC))


def _v(key, what):
    return {"key": key, "what": what}


# ----------------------------------------------------------------------------- reading the source


def _norm_header(h):
    return "_".join(str(h).split()).lower() if h is not None else None


def _sheet(wb, name):
    for k, v in wb.items():
        if k.lower() == name:
            return v
    return None


def _rows_as_dicts(sheet):
    headers, rows = sheet
    out = []
    for r in rows:
        d = {}
        for h, c in zip(headers, r):
            if h is None or c is None or str(c) == "":
                continue
            d[h] = str(c)
        out.append(d)
    return out


def _clean(s):
    """Cell text as the survey sheet is read: outer whitespace stripped, runs of spaces collapsed."""
    return re.sub(r"( )+", " ", s.strip())


def read_source(wb):
    """-> dict describing what the workbook asks for, or None when the shape is outside what this oracle models."""
    survey = _sheet(wb, "survey")
    if survey is None:
        return None
    sh = [_norm_header(h) for h in survey[0]]
    if any(h and (h.startswith("bind::entities") or h.startswith("bind:entities")) for h in sh):
        return None
    if sh.count("save_to") > 1:
        return None
    outline, balanced = corpus.x17_outline(wb)
    if not balanced:
        return None
    savetos = []
    if "save_to" in sh:
        ci = sh.index("save_to")
        for it, r in zip(outline, survey[1]):
            v = r[ci] if ci < len(r) else None
            if v is None or not _clean(str(v)):
                continue
            savetos.append((it, _clean(str(v))))
    ent = _sheet(wb, "entities")
    ent_rows = []
    if ent is not None:
        ent_rows = [d for d in _rows_as_dicts(ent)]
        # trailing blank rows are not data
        while ent_rows and not ent_rows[-1]:
            ent_rows.pop()
    names = {}
    for it in outline:
        if it["name"] and it["kind"] in ("question", "begin"):
            names.setdefault(it["name"], []).append(it)
    return {"outline": outline, "savetos": savetos, "ent_rows": ent_rows, "names": names,
            "ent_headers": [_norm_header(h) for h in (ent[0] if ent else [])]}


def _name_problem(name):
    """None for an NCName, else a short class of what is wrong (first offending character as hex)."""
    if not name:
        return "empty"
    if not re.match("[%s]" % _NSC, name[0]):
        return "start-%02x" % ord(name[0])
    for ch in name[1:]:
        if not re.match("[%s]" % _NC, ch):
            return "char-%02x" % ord(ch)
    return None


def _dataset_problem(name):
    if name.startswith("__"):
        return "reserved-prefix"
    if "." in name:
        return "period"
    return _name_problem(name)


def _property_problem(name):
    if name.lower() in ("name", "label"):
        return "reserved-word"
    if name.startswith("__"):
        return "reserved-prefix"
    return _name_problem(name)


def expectation(src):
    """-> ("reject", why) | ("accept", spec|None) | ("unknown", why).  spec None = no entity declared."""
    rows = src["ent_rows"]
    if any(not r for r in rows):
        return "unknown", "blank row inside the entities sheet"
    if len(rows) > 1:
        return "reject", "more than one entity row"
    spec = None
    if rows:
        row = {}
        for h, v in rows[0].items():
            k = _norm_header(h)
            if k == "list_name":
                k = "dataset"
            if k in row:
                return "unknown", "aliased duplicate entities header"
            row[k] = v
        extra = [k for k in row if k not in ENTITY_COLUMNS]
        if extra:
            return "reject", f"unknown entities column(s) {extra}"
        if any("::" in k or ":" in k for k in row):
            return "unknown", "grouped entities header"
        ds = row.get("dataset")
        if ds is None:
            return "reject", "entity row without a dataset name"
        if _dataset_problem(ds):
            return "reject", f"invalid dataset name ({_dataset_problem(ds)}) {ds!r}"
        eid, cif, uif, lab = (row.get(k) for k in ("entity_id", "create_if", "update_if", "label"))
        if uif and not eid:
            return "reject", "update_if without entity_id"
        if eid and cif and not uif:
            return "reject", "entity_id with create_if but no update_if"
        if not eid and not lab:
            return "reject", "creating without a label"
        spec = {"dataset": ds, "entity_id": eid, "create_if": cif, "update_if": uif, "label": lab,
                "create": bool(cif) or not eid, "update": bool(eid)}
    for it, val in src["savetos"]:
        if it["kind"] == "end" or it["kind"] == "blank":
            return "unknown", "save_to on an end/blank row"
        if it["type"] == "audit" or it["type"] in ("form_title", "form_id", "set_form_title", "set_form_id", "prefix"):
            return "unknown", "save_to on a meta/settings row"
        if any(c == "loop" for _, c in it["ancestors"]) or it["control"] == "loop":
            return "unknown", "loops"
        if spec is None:
            return "reject", "save_to without an entity declaration"
        if it["kind"] == "begin":
            return "reject", f"save_to on a {it['control']} (row {it['row']})"
        if any(c == "repeat" for _, c in it["ancestors"]):
            return "reject", f"save_to inside a repeat (row {it['row']})"
        if _property_problem(val):
            return "reject", f"invalid property name ({_property_problem(val)}) {val!r} (row {it['row']})"
    return "accept", spec


# ----------------------------------------------------------------------------- expressions


def _squash(expr):
    """Remove whitespace outside string literals."""
    out, q = [], None
    for ch in expr:
        if q:
            out.append(ch)
            if ch == q:
                q = None
        elif ch in "\"'":
            q = ch
            out.append(ch)
        elif ch.isspace():
            continue
        else:
            out.append(ch)
    return "".join(out)


_REF = re.compile(r"\$\{([^}]*)\}")


def expand(expr, src, root):
    """${name} -> absolute path of the unique node with that name (the entity sits in /root/meta, outside any
    repeat, so every reference is absolute).  None when a reference cannot be resolved uniquely."""
    ok = True

    def sub(m):
        nonlocal ok
        name = m.group(1).strip()
        its = src["names"].get(name, [])
        if len(its) != 1:
            ok = False
            return m.group(0)
        return f" /{root}/{its[0]['path']} "

    out = _REF.sub(sub, expr)
    return _squash(out) if ok else None


# ----------------------------------------------------------------------------- reading the XForm


def observe(xf):
    o = {}
    paths = xf.instance_paths()
    root = xf.local(xf.iroot.tag) if xf.iroot is not None else None
    o["root"] = root
    ents = [(p, e) for p, es in paths.items() for e in es if xf.local(e.tag) == "entity" and "/meta/" in p + "/"]
    o["entities"] = ents
    o["version"] = xf.model.get(ENT + "entities-version") if xf.model is not None else None
    o["decls"] = corpus.x17_ns_decls(xf.text)
    o["saveto"] = sorted((b.get("nodeset"), b.get(ENT + "saveto")) for b in xf.binds() if b.get(ENT + "saveto") is not None)
    stray = []
    for e in xf.root.iter():
        for k in e.attrib:
            if k.startswith(ENT) and not (e.tag == XF + "bind" and k == ENT + "saveto") and not (
                    e.tag == XF + "model" and k == ENT + "entities-version"):
                stray.append((xf.local(e.tag), k))
        if isinstance(e.tag, str) and e.tag.startswith(ENT):
            stray.append((e.tag, None))
        if e.tag != XF + "bind":
            for k in e.attrib:
                if k.endswith("saveto") and not k.startswith(ENT):
                    stray.append((xf.local(e.tag), k))
    for b in xf.binds():
        for k in b.attrib:
            if k.endswith("saveto") and not k.startswith(ENT):
                stray.append(("bind", k))
    o["stray"] = stray
    return o


def check_declaration(spec, src, xf, o, V):
    """Everything the property says about an accepted form (spec None = no entity is declared)."""
    declared = [u for _, u in o["decls"] if u == ENT_NS]
    prefix_ok = any(p == "entities" and u == ENT_NS for p, u in o["decls"])
    if spec is None:
        if o["entities"]:
            V("C19:entity-without-declaration", "meta/entity present although the workbook declares no entity")
        if o["version"] is not None or any(k for k in (xf.model.attrib if xf.model is not None else {}) if k.endswith("entities-version")):
            V("C19:version-without-entity", "entities-version on the model although no entity is declared")
        if declared:
            V("C19:namespace-without-entity", "entities namespace declared although no entity is declared")
        if o["saveto"] or o["stray"]:
            V("C19:saveto-without-entity", f"entities attributes without an entity: {o['saveto']} {o['stray']}")
        return
    root = o["root"]
    if not declared or not prefix_ok:
        V("C19:namespace-missing", f"entity declared but xmlns:entities={ENT_NS!r} is not; declarations={o['decls']}")
    if o["version"] is None:
        V("C19:version-missing", f"entity declared but the model has no entities:entities-version in {ENT_NS}; model attrs={dict(xf.model.attrib)}")
    elif o["version"] not in KNOWN_VERSIONS or (spec["update"] and o["version"] != "2024.1.0"):
        V("C19:version-value", f"entities-version={o['version']!r} (update/offline attributes need 2024.1.0)")
    if o["stray"]:
        V("C19:stray-entities-attribute", f"unexpected entities-namespace items: {o['stray']}")
    epath = f"/{root}/meta/entity"
    if len(o["entities"]) != 1 or o["entities"][0][0] != epath:
        V("C19:entity-node", f"expected exactly one entity node at {epath}, found {[p for p, _ in o['entities']]}")
        return
    e = o["entities"][0][1]
    want = {"dataset": spec["dataset"], "id": ""}
    if spec["create"]:
        want["create"] = "1"
    if spec["update"]:
        want.update({"update": "1", "baseVersion": "", "trunkVersion": "", "branchId": ""})
    if dict(e.attrib) != want:
        for k in sorted(set(want) | set(e.attrib)):
            if e.attrib.get(k) != want.get(k):
                kind = "missing" if k not in e.attrib else ("unexpected" if k not in want else "value")
                V(f"C19:entity-attr:{kind}:{k if k in ('dataset','id','create','update','baseVersion','trunkVersion','branchId') else 'other'}",
                  f"entity attributes {dict(e.attrib)} != expected {want} for id/create_if/update_if/label="
                  f"{[bool(spec[x]) for x in ('entity_id','create_if','update_if','label')]}")
    kids = [xf.local(c.tag) for c in e]
    if kids != (["label"] if spec["label"] else []):
        V("C19:entity-label-child", f"entity children {kids}, label cell {'present' if spec['label'] else 'absent'}")
    # binds
    want_b = {}
    ok_expr = True

    def ex(s):
        nonlocal ok_expr
        r = expand(s, src, root)
        if r is None:
            ok_expr = False
        return r

    ide = ex(spec["entity_id"]) if spec["update"] else None
    want_b["/@id"] = ide
    if spec["create_if"]:
        want_b["/@create"] = ex(spec["create_if"])
    if spec["update_if"]:
        want_b["/@update"] = ex(spec["update_if"])
    if spec["update"] and ide is not None:
        for attr, col in (("baseVersion", "__version"), ("trunkVersion", "__trunkVersion"), ("branchId", "__branchId")):
            want_b[f"/@{attr}"] = _squash(f"instance('{spec['dataset']}')/root/item[name={ide}]/{col}")
    if spec["label"]:
        want_b["/label"] = ex(spec["label"])
    got_b = {}
    for b in xf.binds():
        ns = b.get("nodeset") or ""
        if ns == epath or ns.startswith(epath + "/"):
            suffix = ns[len(epath):]
            if suffix in got_b:
                V("C19:entity-bind:duplicate", f"two binds for {ns}")
            got_b[suffix] = b
    if ok_expr:
        for k in sorted(set(want_b) | set(got_b)):
            tag = k.lstrip("/@")
            if k not in got_b:
                V(f"C19:entity-bind:missing:{tag}", f"no bind for {epath}{k}; expected calculate {want_b[k]!r}")
                continue
            if k not in want_b:
                V(f"C19:entity-bind:unexpected:{tag if tag in ('id','create','update','baseVersion','trunkVersion','branchId','label') else 'other'}",
                  f"unexpected bind {dict(got_b[k].attrib)}")
                continue
            b = got_b[k]
            calc = b.get("calculate")
            if (None if calc is None else _squash(calc)) != want_b[k]:
                V(f"C19:entity-bind:calculate:{tag}", f"bind {epath}{k} calculate={calc!r}, expected {want_b[k]!r} (modulo whitespace)")
            if b.get("type") != "string" or b.get("readonly") != "true()":
                V(f"C19:entity-bind:type-readonly", f"bind {epath}{k} attrs {dict(b.attrib)}: expected type=string readonly=true()")
            extra = set(b.attrib) - {"nodeset", "calculate", "type", "readonly"}
            if extra:
                V("C19:entity-bind:extra-attrs", f"bind {epath}{k} has extra attributes {sorted(extra)}")
    # setvalue: uuid() on first load exactly when creating
    svs = [s for s in xf.root.iter(XF + "setvalue") if (s.get("ref") or "").startswith(epath)]
    good = [s for s in svs if s.get("ref") == epath + "/@id" and s.get("event") == "odk-instance-first-load" and s.get("value") == "uuid()"]
    model_children = list(xf.model) if xf.model is not None else []
    if spec["create"]:
        if len(good) != 1 or len(svs) != 1 or good[0] not in model_children:
            V("C19:setvalue:missing-or-wrong", f"creating: expected one model-level setvalue uuid() on first load for {epath}/@id, found {[dict(s.attrib) for s in svs]}")
    elif svs:
        V("C19:setvalue:unexpected", f"not creating, but setvalue(s) target the entity: {[dict(s.attrib) for s in svs]}")
    # save_to
    want_s = sorted((f"/{root}/{it['path']}", val) for it, val in src["savetos"])
    if want_s != o["saveto"]:
        if [p for p, _ in want_s] == [p for p, _ in o["saveto"]]:
            # the right binds carry the attribute, but not with the text of the cell (the property name was rewritten)
            diff = [(p, w, g) for (p, w), (_, g) in zip(want_s, o["saveto"]) if w != g]
            V("C19:saveto-binds:value", f"entities:saveto value differs from the save_to cell (bind, cell, attribute): {diff}")
        else:
            V("C19:saveto-binds", f"entities:saveto on binds {o['saveto']} != save_to cells {want_s}")


# ----------------------------------------------------------------------------- check


def _slug(msg, words=6):
    """Stable class name from an error message: row numbers and quoted values removed, first few words."""
    m = re.sub(r"\[row : \d+\]|'[^']*'|\"[^\"]*\"", " ", msg)
    ws = re.findall(r"[A-Za-z_]+", m)
    return "-".join(w.lower() for w in ws[:words])


def _mentions_entities(case):
    wb = corpus.x17_case_wb(case)
    return wb is not None and any(k.lower() == "entities" for k in wb)


def check(case, res, ctx):
    out = []

    def V(key, what):
        out.append(_v(key, what))

    mine = case.origin == "C19"
    if res.internal_error:
        # crashes of forms that have nothing to do with entities are C17's business
        if mine or _mentions_entities(case):
            e = res.error
            V(f"C19:internal-error:{type(e).__name__}:{corpus.x17_site(e)}", f"{type(e).__name__}: {e}")
        return out
    xf = None
    if res.ok:
        xf, err = corpus.parse_ok(res.xform)
        if xf is None:
            V("C19:xform-not-wellformed", f"XForm is not namespace-well-formed XML: {err}")
            return out
        o = observe(xf)
        # self-consistency that must hold for every form whatsoever
        has_e = bool(o["entities"])
        has_ns = any(u == ENT_NS for _, u in o["decls"])
        if has_e != (o["version"] is not None) or (has_e and not has_ns):
            V("C19:declared-exactly-when", f"entity node={has_e}, entities-version={o['version']!r}, namespace declared={has_ns}")
        if o["saveto"] and not has_e:
            V("C19:saveto-without-entity", f"saveto binds {o['saveto']} but no meta/entity")
    wb = corpus.x17_case_wb(case)
    if wb is None:
        return out
    try:
        src = read_source(wb)
    except Exception:  # noqa: BLE001  (exotic harvested shapes)
        if mine:
            raise
        return out
    if src is None:
        return out
    verdict, info = expectation(src)
    if verdict == "unknown":
        return out
    if verdict == "reject":
        if res.ok:
            tag = re.sub(r"[^a-z_0-9]+", "-", re.sub(r"\(row \d+\)|'[^']*'|\[.*\]", "", info).strip().lower()).strip("-")
            V(f"C19:accepted:{tag}", f"form should be rejected ({info}) but an XForm was returned")
        return out
    # accept
    if not res.ok:
        if mine:
            V(f"C19:rejected-valid:{_slug(str(res.error))}",
              f"valid entity form rejected: {type(res.error).__name__}: {str(res.error)[:200]}")
        return out
    if not mine and info is None and not src["savetos"]:
        # forms without entities: the generic consistency check above plus 'nothing declared'
        check_declaration(None, src, xf, o, V)
        return out
    check_declaration(info, src, xf, o, V)
    return out


# ----------------------------------------------------------------------------- case families

SKELETON = [
    # (type, name)
    ("text", "id_q"),
    ("text", "a"),
    ("begin group", "g"),
    ("text", "b"),
    ("begin group", "g2"),
    ("integer", "b2"),
    ("end group", None),
    ("end group", None),
    ("begin repeat", "r"),
    ("text", "c"),
    ("begin group", "rg"),
    ("text", "d"),
    ("begin group", "rgg"),
    ("text", "d2"),
    ("end group", None),
    ("end group", None),
    ("text", "c_after"),
    ("begin repeat", "r2"),
    ("text", "e"),
    ("end repeat", None),
    ("end repeat", None),
    ("begin group", "h"),
    ("begin repeat", "hr"),
    ("text", "f"),
    ("begin group", "hrg"),
    ("text", "f2"),
    ("end group", None),
    ("end repeat", None),
    ("text", "h_after"),
    ("end group", None),
    ("select_one age_groups", "s"),
    ("text", "z"),
]

PLACEMENTS = [
    {},
    {"a": "p_a"}, {"b": "p_b"}, {"b2": "p_b2"}, {"c": "p_c"}, {"d": "p_d"}, {"d2": "p_d2"}, {"c_after": "p_ca"},
    {"e": "p_e"}, {"f": "p_f"}, {"f2": "p_f2"}, {"h_after": "p_ha"}, {"z": "p_z"},
    {"g": "p_g"}, {"g2": "p_g2"}, {"r": "p_r"}, {"rg": "p_rg"}, {"h": "p_h"},
    {"a": "p_a", "z": "p_z"},
    {"a": "p_a", "b": "p_b", "b2": "p_b2", "h_after": "p_ha", "z": "p_z", "id_q": "p_id"},
    {"a": "p_a", "d": "p_d"},
    {"z": "p_z", "f2": "p_f2"},
    {"a": "same", "b": "same"},
]

EXPRS = [
    # (entity_id, create_if, update_if, label)
    ("${id_q}", "${a} = ''", "${a} != ''", "${a}"),
    ("${b2}", "string-length(${b}) > 3 and ${id_q} = ''", "${id_q} != '' or selected(${s}, 'x')", "concat(${a}, \" - \", ${b2})"),
    ("coalesce(${id_q}, ${z})", "true()", "false()", "'fixed  label'"),
    ("${h_after}", "${z}='new'", "${z}='old'", "concat(${h_after},' ',${id_q})"),
]

COMBOS = list(itertools.product([1, 0], repeat=4))  # (entity_id, create_if, update_if, label)
VALID_COMBOS = [c for c in COMBOS if not ((c[2] and not c[0]) or (c[0] and c[1] and not c[2]) or (not c[0] and not c[3]))]

DATASETS_OK = ["trees", "t", "_t", "a-b", "a1", "Trees_2", "entities", "r\u00e9gion", "\u00c9tat"]
DATASETS_BAD = ["__trees", "__", "a.b", ".a", "1a", "a b", "-a", "tr$ees", "a/b", "a]", "x\u00c0-\u00d6]y", "tre\u2019s", "a,b"]
PROPS_OK = ["foo", "Foo_1", "a-b", "a.b", "_x", "names", "labels", "name_", "x__y", "nom\u00e9", "\u00c9tat"]
PROPS_BAD = ["name", "NAME", "naMe", "label", "Label", "LABEL", "__x", "__", "1a", "a b", "-a", ".a", "a$", "a]", "x\u00c0-\u00d6]y", "a/b", "a,b", "${a}"]

NAMESPACES = [
    None,
    'geoentities="http://example.com/geo"',
    'entities="http://example.com/not-odk"',
    'myentities="http://www.opendatakit.org/xforms/entities2"',
    'esri="http://esri.com" geoentities="http://example.com/geo"',
    'x="http://example.com/?entities=1"',
    'entities_x="http://example.com/x"',
    'subentities="http://example.com/sub" entitiesx="http://example.com/ex"',
]


def build(combo, placement, exprs, dataset="trees", ns=None, ent_order=0, with_entities=True, extra_ent=None,
          n_rows=1, dataset_header="dataset", settings_extra=None, choices_list="age_groups"):
    rows = []
    for t, n in SKELETON:
        if t.startswith("select_one"):
            t = f"select_one {choices_list}"
        label = None if t.startswith("end") else f"L {n}"
        rows.append([t, n, label, placement.get(n)])
    wb = WB()
    wb["survey"] = (["type", "name", "label", "save_to"], rows)
    wb["choices"] = (["list_name", "name", "label"], [[choices_list, "x", "X"], [choices_list, "y", "Y"]])
    if with_entities:
        cols = [(dataset_header, dataset)]
        for present, col, val in zip(combo, ("entity_id", "create_if", "update_if", "label"), exprs):
            if present:
                cols.append((col, val))
        if extra_ent:
            cols.extend(extra_ent)
        perm = list(itertools.permutations(range(len(cols))))
        order = perm[ent_order % len(perm)]
        cols = [cols[i] for i in order]
        if dataset is None:
            cols = [c for c in cols if c[0] != dataset_header]
        wb["entities"] = ([c[0] for c in cols], [[c[1] for c in cols] for _ in range(n_rows)])
    s = {}
    if ns is not None:
        s["namespaces"] = ns
    if settings_extra:
        s.update(settings_extra)
    if s:
        wb["settings"] = (list(s), [list(s.values())])
    return wb


# --- round 3: cell texts that some normalisation step of the converter rewrites elsewhere ---------------------
# The property quantifies over "dataset/property name strings" and "arbitrary expressions": a name or an entity cell
# is data and has to arrive verbatim, also when its text happens to be a spelling that XLSForm rewrites in *other*
# places (yes/no/true/false in the bind columns, type/column aliases, "empty" markers of spreadsheet readers, ...).
TRUTH = [f(w) for w in ("yes", "no", "true", "false") for f in (str.lower, str.capitalize, str.upper)]
NEAR_TRUTH = ["nO", "tRUE", "yEs", "yes_", "_no", "true-1", "false.0", "No.", "is_true", "y", "n", "Y", "N", "on", "off",
              "ok", "oui", "si"]
NULLISH = ["None", "none", "null", "NULL", "NA", "nan", "NaN", "nil", "undefined", "inf", "e1"]
KEYWORDS = ["string", "int", "integer", "text", "calculate", "calculation", "required", "readonly", "relevant",
            "constraint", "type", "id", "entity", "entities", "dataset", "list_name", "create", "update", "saveto",
            "save_to", "meta", "instanceID", "baseVersion", "and", "or", "div", "mod", "today", "uuid", "once",
            "position", "group", "repeat", "begin", "end", "select_one", "a", "id_q", "data", "root", "item"]
REWRITABLE = TRUTH + NEAR_TRUTH + NULLISH + KEYWORDS
# the same, restricted to what is also a valid dataset name (no period)
REWRITABLE_DATASETS = [s for s in REWRITABLE if "." not in s]

# question types (type cell, extra cells) on which a save_to cell is legitimate: any question outside a repeat
QTYPES = [
    ("text", {}), ("integer", {}), ("decimal", {}), ("date", {}), ("time", {}), ("dateTime", {}), ("geopoint", {}),
    ("geotrace", {}), ("geoshape", {}), ("barcode", {}), ("image", {}), ("audio", {}), ("file", {}),
    ("acknowledge", {}), ("note", {}), ("range", {"parameters": "start=1 end=5 step=1"}),
    ("select_one l1", {}), ("select_multiple l1", {}), ("rank l1", {}), ("select_one_from_file f.csv", {}),
    ("calculate", {"calculation": "1 + 1"}), ("calculate", {"calculation": "yes"}),
    ("hidden", {}), ("start", {}), ("end", {}), ("today", {}), ("deviceid", {}), ("username", {}),
    ("text", {"calculation": "${a}", "trigger": "${a}"}), ("text", {"required": "yes", "readonly": "no"}),
]

# other cells of the same row that carry truth spellings (these are rewritten, the save_to cell next to them is not)
ROW_NEIGHBOURS = [
    {"required": "yes"}, {"required": "No"}, {"readonly": "TRUE"}, {"readonly": "false"}, {"relevant": "yes"},
    {"relevant": "${a} = 'yes'"}, {"constraint": "no"}, {"constraint": ". = 'no'", "constraint_message": "yes"},
    {"required": "yes", "required_message": "no"}, {"calculation": "true"}, {"default": "yes"}, {"hint": "no"},
    {"bind::foo": "yes"}, {"bind::jr:preload": "no"}, {"bind::odk:x": "true"}, {"appearance": "no-calendar"},
    {"required": "yes", "readonly": "yes", "relevant": "yes", "constraint": "yes", "default": "no", "bind::foo": "no"},
]

# entity cells: bare truth spellings, quoted ones, and near misses, per column
ENTITY_CELL_TEXTS = TRUTH + ["'yes'", '"No"', "'TRUE'", "true()", "false()", "not(true())", "None", "null", "1", "0",
                             "yes and no", "${a} = 'yes'", "if(${a} = 'no', 'true', 'false')", "true or ${a}"]


def build_flat(target_rows, entity, extra_headers=(), nest=0, settings=None):
    """A small form: id_q, a, then `target_rows` (dicts header -> cell; 'begin group'/'end group' allowed), wrapped
    in `nest` groups, then a select.  `entity` is a list of (header, cell) for the single entities row."""
    headers = ["type", "name", "label", "save_to"]
    for r in target_rows:
        for h in r:
            if h not in headers:
                headers.append(h)
    for h in extra_headers:
        if h not in headers:
            headers.append(h)
    dicts = [{"type": "text", "name": "id_q", "label": "L id"}, {"type": "text", "name": "a", "label": "L a"}]
    for i in range(nest):
        dicts.append({"type": "begin group", "name": f"g{i + 1}", "label": f"G{i + 1}"})
    dicts.extend(target_rows)
    for i in range(nest):
        dicts.append({"type": "end group"})
    dicts.append({"type": "select_one l1", "name": "s", "label": "L s"})
    dicts.append({"type": "text", "name": "z", "label": "L z"})
    wb = WB()
    wb["survey"] = (headers, [[d.get(h) for h in headers] for d in dicts])
    wb["choices"] = (["list_name", "name", "label"], [["l1", "x", "X"], ["l1", "y", "Y"]])
    if entity is not None:
        wb["entities"] = ([h for h, _ in entity], [[c for _, c in entity]])
    if settings:
        wb["settings"] = (list(settings), [list(settings.values())])
    return wb


def entity_cols(combo, exprs, dataset="trees", dataset_header="dataset"):
    cols = [(dataset_header, dataset)]
    for present, col, val in zip(combo, ("entity_id", "create_if", "update_if", "label"), exprs):
        if present:
            cols.append((col, val))
    return cols


def cases_rewritable(tier, seed, add):
    """Names and entity cells whose text is rewritten by some normalisation elsewhere (round 3)."""
    thorough = tier == "thorough"
    rnd = random.Random(seed * 7919 + 19)
    create, update, both = (0, 0, 0, 1), (1, 0, 0, 1), (1, 1, 1, 1)
    # R1. every such property name x placement (top level / group / nested groups / select) x create|update
    for i, p in enumerate(REWRITABLE):
        core = p in TRUTH
        for wi, where in enumerate(("a", "b", "b2", "s", "z")):
            for combo in (create, update):
                if not thorough:
                    if core and (where == "z" or (where == "b" and combo[0])):
                        continue
                    if not core and (wi != i % 5 or combo[0] != (i // 5) % 2):
                        continue
                add(f"prop={p!r} at {where} combo={combo}", build(combo, {where: p}, EXPRS[i % len(EXPRS)]), "rw-prop")
    # whitespace around such a name is not part of it
    for p in (" yes", "no ", "  TRUE  ", " False ", " None "):
        add(f"prop={p!r}", build(create, {"a": p, "b": "p_b"}, EXPRS[0]), "rw-prop")
    # R2. several of them in one form, next to ordinary names (pairs exhaustively in thorough, a cycle in quick)
    pairs = list(itertools.permutations(TRUTH, 2)) if thorough else [(TRUTH[i], TRUTH[(i + k) % 12]) for i in range(12) for k in (1, 3)]
    for i, (p, q) in enumerate(pairs):
        pl = [{"a": p, "b2": q, "z": "p_z"}, {"id_q": p, "s": q, "b": "p_b"}, {"b": p, "h_after": q}][i % 3]
        add(f"props {p!r},{q!r}", build((create, update, both)[i % 3], pl, EXPRS[i % len(EXPRS)]), "rw-props")
    spots = ["id_q", "a", "b", "b2", "h_after", "s", "z"]
    for k in range(12):
        rot = TRUTH[k:] + TRUTH[:k]
        add(f"seven truth-named properties, rotation {k}", build((create, update)[k % 2], dict(zip(spots, rot)), EXPRS[k % len(EXPRS)]), "rw-props")
    # R3. question type x property name (the bind of every kind of question carries its save_to)
    names = TRUTH + ["p_t", "None", "string", "nO"]
    for ti, (qt, extra) in enumerate(QTYPES):
        for ni, p in enumerate(names):
            if not thorough and ni % 4 != ti % 4 and p != "p_t":
                continue
            for nest in (0, 2):
                if not thorough and nest != (ti + ni) % 2 * 2:
                    continue
                row = {"type": qt, "name": "q", "label": "L q", "save_to": p, **extra}
                add(f"type={qt!r} {extra} prop={p!r} nest={nest}",
                    build_flat([row], entity_cols((create, update)[(ti + ni) % 2], EXPRS[0]), nest=nest), "rw-type")
    # R4. truth spellings in the neighbouring cells of the row (those are rewritten; the save_to cell is not)
    for xi, extra in enumerate(ROW_NEIGHBOURS):
        for ni, p in enumerate(["yes", "No", "TRUE", "false", "p_n"]):
            if not thorough and ni not in (xi % 5, (xi + 2) % 5):
                continue
            row = {"type": "text", "name": "q", "label": "L q", "save_to": p, **extra}
            other = {"type": "integer", "name": "q2", "label": "L q2", "save_to": "p_q2", "required": "yes"}
            add(f"neighbours {extra} prop={p!r}", build_flat([row, other], entity_cols((create, update, both)[xi % 3], EXPRS[0]), nest=xi % 2), "rw-row")
    # R5. dataset names x create|update|both x header spelling
    for i, ds in enumerate(REWRITABLE_DATASETS):
        core = ds in TRUTH
        for ci, combo in enumerate(((0, 0, 0, 1), (1, 0, 0, 0), (1, 1, 1, 1))):
            for hi, hdr in enumerate(("dataset", "list_name")):
                if not thorough and ((core and hi != (i + ci) % 2) or (not core and (ci != i % 3 or hi != i % 2))):
                    continue
                add(f"dataset={ds!r} combo={combo} hdr={hdr}",
                    build(combo, {"a": "p_a", "b": ds}, EXPRS[i % len(EXPRS)], dataset=ds, dataset_header=hdr), "rw-dataset")
    # R6. each entity cell in turn holds such a text (the others ordinary), on every valid combination having it
    cols = ("entity_id", "create_if", "update_if", "label")
    for slot in range(4):
        for ti, txt in enumerate(ENTITY_CELL_TEXTS):
            for ci, combo in enumerate([c for c in VALID_COMBOS if c[slot]]):
                if not thorough and ci != ti % 2:
                    continue
                ex = list(EXPRS[ti % len(EXPRS)])
                ex[slot] = txt
                add(f"{cols[slot]}={txt!r} combo={combo}", build(combo, {"a": "p_a", "z": TRUTH[(ti + slot) % 12]}, ex, ent_order=ti + slot), "rw-cell")
    # R7. everything at once: dataset, all entity cells and the property names are truth spellings
    for k in range(12 if not thorough else 144):
        t = [TRUTH[(k + 5 * j + (k // 12) * (j + 1)) % 12] for j in range(8)]
        for combo in VALID_COMBOS:
            if not thorough and combo != VALID_COMBOS[k % len(VALID_COMBOS)]:
                continue
            add(f"all truth {t} combo={combo}",
                build(combo, {"a": t[0], "b2": t[1], "s": t[2]}, (t[3], t[4], t[5], t[6]), dataset=t[7], ent_order=k), "rw-all")
    # R8. random crossings over the whole pool
    pool = REWRITABLE + PROPS_OK
    for i in range(80 if not thorough else 1500):
        combo = rnd.choice(VALID_COMBOS)
        k = rnd.choice([1, 2, 3, 4])
        pl = {nm: rnd.choice(pool) for nm in rnd.sample(spots, k)}
        ex = [rnd.choice(ENTITY_CELL_TEXTS) if rnd.random() < 0.3 else e for e in rnd.choice(EXPRS)]
        add(f"random rewritable combo={combo} place={pl}",
            build(combo, pl, ex, dataset=rnd.choice(REWRITABLE_DATASETS + DATASETS_OK[:7]), ns=rnd.choice(NAMESPACES[:3]),
                  ent_order=rnd.randrange(720), dataset_header=rnd.choice(["dataset", "list_name"])), "rw-random")


def cases(tier, seed):
    rnd = random.Random(seed)
    out = []
    n = 0

    def add(name, wb, tag):
        nonlocal n
        n += 1
        out.append(Case(f"C19-{tag}-{n}:{name}", wb=wb, origin="C19", tags={tag}))

    thorough = tier == "thorough"
    # 1. decision table x save_to placement (x expressions, x column order)
    for ci, combo in enumerate(COMBOS):
        for pi, pl in enumerate(PLACEMENTS):
            variants = range(len(EXPRS)) if thorough else [(ci + pi) % len(EXPRS)]
            for vi in variants:
                add(f"combo={combo} place={sorted(pl)} expr={vi}", build(combo, pl, EXPRS[vi], ent_order=ci * 7 + pi + vi), "table")
    # every expression variant on every valid combination at least once (quick as well)
    for combo in VALID_COMBOS:
        for vi in range(len(EXPRS)):
            add(f"combo={combo} expr={vi}", build(combo, {"a": "p_a", "b2": "p_b2"}, EXPRS[vi], ent_order=vi), "exprs")
    # 2. no entities sheet at all / header-only entities sheet x placement
    for pl in PLACEMENTS:
        add(f"no-entities place={sorted(pl)}", build((0, 0, 0, 0), pl, EXPRS[0], with_entities=False), "noent")
    for pl in PLACEMENTS[:4]:
        wb = build((0, 0, 0, 1), pl, EXPRS[0])
        wb["entities"] = (wb["entities"][0], [])
        add(f"header-only-entities place={sorted(pl)}", wb, "noent")
    # 3. dataset names
    for ds in DATASETS_OK + DATASETS_BAD:
        for combo in ((0, 0, 0, 1), (1, 0, 0, 0), (1, 1, 1, 1)):
            for hdr in ("dataset", "list_name"):
                if hdr == "list_name" and combo != (0, 0, 0, 1) and not thorough:
                    continue
                add(f"dataset={ds!r} combo={combo} hdr={hdr}", build(combo, {"a": "p_a"}, EXPRS[0], dataset=ds, dataset_header=hdr), "dataset")
    for combo in ((0, 0, 0, 1), (1, 0, 1, 1)):
        add(f"no-dataset combo={combo}", build(combo, {}, EXPRS[0], dataset=None), "dataset")
    # 4. property names x placement (top level / nested group) x create/update
    for p in PROPS_OK + PROPS_BAD:
        for where in ("a", "b2", "z"):
            for combo in ((0, 0, 0, 1), (1, 0, 0, 1)):
                if not thorough and where == "z" and combo[0]:
                    continue
                add(f"prop={p!r} at {where} combo={combo}", build(combo, {where: p}, EXPRS[0]), "prop")
    for p in ("  spaced  ", " foo", "foo ", "name "):
        add(f"prop={p!r}", build((0, 0, 0, 1), {"a": p}, EXPRS[0]), "prop")
    # 5. list names containing the words group/repeat: a select is a question, not a group
    for ln in ("age_groups", "groups", "repeat_visits", "grp", "my.group", "regroup1"):
        for combo in ((0, 0, 0, 1), (1, 0, 0, 0)):
            add(f"select list {ln} with save_to", build(combo, {"s": "p_s"}, EXPRS[0], choices_list=ln), "selectlist")
    # 6. several entity rows, unknown columns
    for k in (2, 3):
        for combo in ((0, 0, 0, 1), (1, 0, 0, 0), (1, 1, 0, 1)):
            add(f"{k} entity rows combo={combo}", build(combo, {"a": "p_a"}, EXPRS[0], n_rows=k), "multirow")
    for col in ("foo", "repeat", "entity", "name", "entity id", "createif", "update-if", "save_to", "labels", "dataset2", "type"):
        for combo in ((0, 0, 0, 1), (1, 0, 1, 0)):
            add(f"unknown column {col!r} combo={combo}", build(combo, {}, EXPRS[0], extra_ent=[(col, "x")], ent_order=rnd.randrange(100)), "unkcol")
    # 7. namespaces settings that contain the text 'entities' x valid combinations x save_to
    for ns in NAMESPACES:
        for combo in VALID_COMBOS:
            for pl in ({}, {"a": "p_a", "b": "p_b"}):
                add(f"ns={ns!r} combo={combo} place={sorted(pl)}", build(combo, pl, EXPRS[1], ns=ns), "ns")
        add(f"ns={ns!r} no entities", build((0, 0, 0, 0), {}, EXPRS[0], ns=ns, with_entities=False), "ns")
        add(f"ns={ns!r} invalid combo", build((1, 1, 0, 1), {}, EXPRS[0], ns=ns), "ns")
    # 8. settings interplay: form name / id, instance_name, pretty print is irrelevant
    for extra in ({"name": "treeform"}, {"form_id": "f1", "version": "3"}, {"instance_name": "${a}"}, {"name": "entity"},
                  {"name": "meta2", "namespaces": 'entitiesz="http://example.com/z"'}):
        for combo in VALID_COMBOS:
            add(f"settings={extra} combo={combo}", build(combo, {"a": "p_a", "h_after": "p_h"}, EXPRS[3], settings_extra=extra), "settings")
    # 9. random crossings
    n_rand = 150 if not thorough else 2500
    for i in range(n_rand):
        combo = rnd.choice(COMBOS if rnd.random() < 0.4 else VALID_COMBOS)
        names = [nm for _, nm in SKELETON if nm]
        k = rnd.choice([0, 1, 1, 2, 3])
        pl = {nm: rnd.choice(PROPS_OK + (PROPS_BAD if rnd.random() < 0.15 else [])) for nm in rnd.sample(names, k)}
        if rnd.random() < 0.6:
            pl = {k_: v for k_, v in pl.items() if k_ in ("id_q", "a", "b", "b2", "h_after", "s", "z")} or pl
        add(f"random combo={combo} place={pl}",
            build(combo, pl, rnd.choice(EXPRS), dataset=rnd.choice(DATASETS_OK[:7] + (DATASETS_BAD if rnd.random() < 0.1 else [])),
                  ns=rnd.choice(NAMESPACES), ent_order=rnd.randrange(720),
                  choices_list=rnd.choice(["age_groups", "l1", "repeat_l"])), "random")
    # 10. names / entity cells whose text some normalisation rewrites elsewhere (yes/no/true/false, aliases, ...)
    cases_rewritable(tier, seed, add)
    return out


# ----------------------------------------------------------------------------- genuine defects of the unchanged tree
# (documentation of the keys this oracle reports on /repo HEAD; each confirmed with the standalone form given,
#  `convert(xlsform=form, file_type=".md")`.  Not used to filter anything.)
_BASE = """
| survey |
| | type | name | label | save_to |
| | text | a | A | %s |
| entities |
| | dataset | label |
| | %s | a |
"""
KNOWN_DEFECTS = {
    "C19:rejected-valid:groups-and-repeats-can-t-be": {
        "form": """
| survey |
| | type | name | label | save_to |
| | select_one age_groups | s | S | band |
| choices |
| | list_name | name | label |
| | age_groups | x | X |
| entities |
| | dataset | label |
| | trees | a |
""",
        "observed": "PyXFormError: [row : 2] Groups and repeats can't be saved as entity properties. (list renamed 'ages': converts, saveto emitted)",
        "cause": "entities_parsing.validate_entity_saveto: `const.GROUP in row[type] or const.REPEAT in row[type]` is a substring "
                 "test on the whole type cell, so selects whose list/file name contains 'group' or 'repeat' are taken for groups",
        "clause": "every save_to cell becomes an entities:saveto attribute on that question's bind; only save_to on a group is rejected",
        "domain": "inside",
    },
    "C19:accepted:invalid-property-name-char-5d": {
        "form": _BASE % ("xÀ-Ö]y", "trees"),
        "observed": "converts; <bind nodeset=\"/data/a\" entities:saveto=\"xÀ-Ö]y\"/>",
        "cause": "parsing/expression.py namestartchar has the alternative `\\xc0-\\xd6]` (missing '['): the literal string 'À-Ö]' "
                 "counts as a name start character, so names containing it pass is_xml_tag although ']' is not a name character",
        "clause": "invalid dataset or property names are rejected",
        "domain": "inside (contrived string, but the clause quantifies over name strings)",
    },
    "C19:accepted:invalid-dataset-name-char-5d": {
        "form": _BASE % ("", "xÀ-Ö]y"),
        "observed": "converts; <entity dataset=\"xÀ-Ö]y\" id=\"\" create=\"1\">",
        "cause": "same regex typo as C19:accepted:invalid-property-name-char-5d",
        "clause": "invalid dataset or property names are rejected",
        "domain": "inside (contrived string)",
    },
    "C19:rejected-valid:invalid-save_to-name-entity-property-names": {
        "form": _BASE % ("État", "trees"),
        "observed": "PyXFormError: [row : 2] Invalid save_to name: 'État'. Entity property names must begin with a letter ... ('région' is accepted)",
        "cause": "same regex typo: the range U+00C0..U+00D6 is missing from the name characters, so valid XML names with one of these letters are refused",
        "clause": "every save_to cell becomes an entities:saveto attribute (form is a valid row of the decision table)",
        "domain": "edge: one may read the clause as quantifying only over names the library calls valid; the library's own message states a rule the input satisfies",
    },
    "C19:rejected-valid:invalid-entity-list-name-names-must": {
        "form": _BASE % ("", "État"),
        "observed": "PyXFormError: Invalid entity list name: 'État'. Names must begin with a letter, colon, or underscore ...",
        "cause": "same regex typo",
        "clause": "valid row of the decision table must declare meta/entity",
        "domain": "edge (as above)",
    },
    "C19:internal-error:KeyError:entities/entities_parsing.py:get_validated_dataset_name": {
        "form": """
| survey |
| | type | name | label |
| | text | a | A |
| entities |
| | label |
| | a |
""",
        "observed": "KeyError: <EntityColumns.DATASET: 'dataset'> (internal exception)",
        "cause": "get_validated_dataset_name does entity[EC.DATASET] without checking that the dataset/list_name cell exists",
        "clause": "an entity row without a (valid) dataset name must be rejected with the library's error type (also C17)",
        "domain": "inside",
    },
}
