"""C13 (bounded e2e, metamorphic): documented spellings and layout noise are interchangeable.

For a base workbook W (every corpus form that converts; Markdown forms are read into an abstract
workbook with corpus.md_to_wb) and a catalogued transformation T (or a seeded random composition of
several), the oracle demands

    convert(T(W))  ~  convert(W)

  * T(W) converts (W does),
  * the same XForm after parsing with ElementTree (whitespace-only text between elements ignored,
    attribute order ignored; the <value> forms of one itext <text> and the <text> entries of one
    <translation> are keyed by form / id and compared as such),
  * the same warnings as a multiset: same message (= kind and subjects) and same row.  A message may
    echo the spelling the author used (e.g. the type cell); then the echo of the *rewritten* spelling
    is what is expected.  Column / sheet permutations compare messages as bags of words (a message
    may list columns in sheet order),
  * for blank rows inserted above, `[row : N]` of messages about that sheet and the N embedded in
    generated helper names (generated_note_name_N, generated_table_list_label_N,
    reserved_name_for_field_list_labels_N) shift by exactly the number of rows inserted above row N,
    everything else is unchanged.

The catalogue below is written down from the property text and the XLSForm documentation, not from
pyxform's alias tables:

  col-case / col-space   documented column names are case-insensitive and tolerate padding, doubled blanks
                         and blanks instead of underscores ("Label", " label ", "LIST NAME", "list  name")
  col-alias              relevant/relevance, calculation/calculate, label/caption, readonly/read_only,
                         image|audio|video|big-image / media::<that>, form_id/id_string,
                         relevant|required|readonly|constraint|calculate / bind::<that>,
                         constraint_message / bind::jr:constraintMsg, required_message / bind::jr:requiredMsg
  lang-delim             label::English, label:English (whole sheet), blanks around the delimiter
  sheet-case/sheet-space "Survey", "CHOICES", " settings "
  type-alias             select_one/select one/select1, select_multiple/select all that apply,
                         integer/int, text/string, image/photo, begin group/begin_group,
                         end repeat/end_repeat ...  ("select multiple" has a key of its own)
  truth                  yes/Yes/YES/true/True/TRUE/true() (and the no/false family) in required / readonly
  quotes                 typographic vs straight quotes in expression cells
  ws                     blanks around / doubled blanks inside *survey* cell text
  col-perm, sheet-perm   order of columns (relative order of translated columns and of extra choice
                         columns is kept: it carries meaning) and of sheets
  blank-rows             blank rows in survey / choices
  extra-sheet            unrelated sheets, `_`-prefixed sheets
  extra-col              unknown plain columns in survey / settings

Channels: the abstract workbook is delivered as the dict a reader produces (fast; default), as a
real .xlsx workbook and (when the text allows) as Markdown; sheet-level transformations only exist in
the container channels.  The reference is always W through the *same* channel.

Nothing here calls pyxform to compute an expectation: the expectation is pyxform's own answer for W.
"""
from __future__ import annotations

import ast
import random
import re
import zlib
import xml.etree.ElementTree as ET

from bounded import corpus
from bounded.corpus import WB, Case, Result

USES_DEFAULT_CORPUS = True
N_GENERATED = {"quick": 50, "thorough": 500}
TIME_BUDGET_S = {"quick": 75, "thorough": 900}

# per-case effort: single transformations (all sites when fewer; at most `container` of them sheet-level, which
# need a real workbook), how many are repeated through .xlsx, compositions (every `ccomp`-th may be sheet-level)
EFFORT = {
    "quick": {"default": {"singles": 6, "container": 0.34, "xlsx": 0.25, "comps": 3, "ccomp": 12},
              "half": {"singles": 24, "container": 3, "xlsx": 2, "comps": 4, "ccomp": 4},
              "full": {"singles": 150, "container": 12, "xlsx": 11, "comps": 10, "ccomp": 4}},
    "thorough": {"default": {"singles": 12, "container": 2, "xlsx": 1, "comps": 6, "ccomp": 3},
                 "half": {"singles": 150, "container": 16, "xlsx": 11, "comps": 20, "ccomp": 3},
                 "full": {"singles": 100000, "container": 100000, "xlsx": 44, "comps": 80, "ccomp": 3}},
}

# ----------------------------------------------------------------------------- the catalogue

SUPPORTED = ("survey", "choices", "settings", "external_choices", "entities", "osm")
MEDIA = ("image", "audio", "video", "big-image")

# sheet kind -> canonical column -> documented spellings (normalised: lower case, '_' between words)
COLUMNS = {
    "survey": {
        "type": ["type"], "name": ["name"], "label": ["label", "caption"], "hint": ["hint"],
        "guidance_hint": ["guidance_hint"], "relevant": ["relevant", "relevance"], "required": ["required"],
        "required_message": ["required_message"], "readonly": ["readonly", "read_only"],
        "constraint": ["constraint"], "constraint_message": ["constraint_message"],
        "calculation": ["calculation", "calculate"], "default": ["default"], "appearance": ["appearance"],
        "parameters": ["parameters"], "choice_filter": ["choice_filter"], "repeat_count": ["repeat_count"],
        "trigger": ["trigger"], "image": ["image"], "audio": ["audio"], "video": ["video"],
        "big-image": ["big-image"],
    },
    "choices": {
        "list_name": ["list_name"], "name": ["name"], "label": ["label", "caption"],
        "image": ["image"], "audio": ["audio"], "video": ["video"], "big-image": ["big-image"],
    },
    "external_choices": {"list_name": ["list_name"], "name": ["name"], "label": ["label"]},
    "settings": {
        "form_id": ["form_id", "id_string"], "form_title": ["form_title"], "version": ["version"],
        "instance_name": ["instance_name"], "default_language": ["default_language"], "style": ["style"],
        "public_key": ["public_key"], "submission_url": ["submission_url"],
        "allow_choice_duplicates": ["allow_choice_duplicates"], "auto_send": ["auto_send"],
        "auto_delete": ["auto_delete"],
    },
    "entities": {"list_name": ["list_name"], "label": ["label"]},
}
TRANSLATABLE = {
    "survey": {"label", "hint", "guidance_hint", "constraint_message", "required_message", *MEDIA},
    "choices": {"label", *MEDIA},
}
# canonical survey column <-> bind::<attribute>
BIND = {"relevant": "relevant", "required": "required", "readonly": "readonly", "constraint": "constraint",
        "calculation": "calculate", "constraint_message": "jr:constraintMsg", "required_message": "jr:requiredMsg"}
BIND_REV = {v: k for k, v in BIND.items()}

TRUE_FAMILY = ["yes", "Yes", "YES", "true", "True", "TRUE", "true()"]
FALSE_FAMILY = ["no", "No", "NO", "false", "False", "FALSE", "false()"]
EXPRESSION_COLUMNS = {"relevant", "required", "readonly", "constraint", "calculation", "choice_filter",
                      "repeat_count", "default", "trigger"}

# question type keyword families (first spelling = the one XLSForm documents today)
TYPE_KEYWORDS = [
    ["select_one", "select one", "select1"],
    ["select_multiple", "select all that apply"],   # "select multiple": not a documented spelling (triage: false alarm)
]
TYPE_WHOLE = [
    ["integer", "int"], ["image", "photo"],   # text/string removed at triage: "string" is not a documented alias
    ["begin group", "begin_group"], ["end group", "end_group"],
    ["begin repeat", "begin_repeat"], ["end repeat", "end_repeat"],
]
DOUBTFUL_TYPE_SPELLINGS = {"select multiple"}      # reported under a key of their own

SMART = {"'": ["‘", "’"], '"': ["“", "”"]}
SMART_REV = {s: k for k, v in SMART.items() for s in v}

HELPER = re.compile(r"(generated_note_name_|generated_table_list_label_|reserved_name_for_field_list_labels_)(\d+)")
ROWREF = re.compile(r"\[row : (\d+)\]")
SHEET_IN_MESSAGE = re.compile(r"'(survey|choices|settings|external_choices|entities|osm)' sheet")

UNRELATED_SHEETS = ["notes", "README", "Sheet3", "change log", "data dictionary", "instructions", "lookup_table"]
UNDERSCORE_SHEETS = ["_notes", "_survey", "_settings", "_choices", "_setting", "_entities", "_x"]
assert all(corpus.x17_edit_distance(n.lower(), s) >= 4 for n in UNRELATED_SHEETS for s in SUPPORTED)
UNKNOWN_COLUMNS = ["my_notes", "translator comment", "x_reviewed", "Status2024", "zz"]


def norm_name(text: str) -> str:
    return "_".join(text.split()).lower()


# ----------------------------------------------------------------------------- structured workbook


class Col:
    __slots__ = ("id", "tokens", "seps", "lead", "trail")

    def __init__(self, cid, tokens, seps, lead="", trail=""):
        self.id, self.tokens, self.seps, self.lead, self.trail = cid, tokens, seps, lead, trail

    def render(self):
        if self.tokens is None:
            return None
        out = self.lead + self.tokens[0]
        for s, t in zip(self.seps, self.tokens[1:]):
            out += s + t
        return out + self.trail


class Row:
    __slots__ = ("id", "cells")

    def __init__(self, rid, cells):
        self.id, self.cells = rid, cells


class Sheet:
    def __init__(self, sid, name, headers, rows):
        self.id, self.name = sid, name
        self.kind = name.strip().lower() if name.strip().lower() in SUPPORTED else None
        real = [h for h in headers if h is not None]
        self.family = "double" if any("::" in h for h in real) else ("single" if any(":" in h for h in real) else None)
        self.cols = [self._parse(i, h) for i, h in enumerate(headers)]
        self.rows = [Row(i, {j: c for j, c in enumerate(r[: len(headers)]) if c not in (None, "")})
                     for i, r in enumerate(rows)]
        self.next_col = len(headers)
        self.original = True        # False for sheets added by a transformation

    def _parse(self, i, h):
        if h is None:
            return Col(i, None, [])
        body = h.strip()
        lead, trail = h[: len(h) - len(h.lstrip())], h[len(h.rstrip()):]
        if not body:
            return Col(i, [h], [])
        if self.family == "double":
            parts = re.split(r"(\s*::\s*)", body)
        elif self.family == "single":
            parts = re.split(r"(\s*:\s*)", body)
        else:
            parts = [body]
        return Col(i, parts[0::2], parts[1::2], lead, trail)

    def col(self, cid):
        return next((c for c in self.cols if c.id == cid), None)

    def row(self, rid):
        return next((r for r in self.rows if r.id == rid), None)


class Und:
    """What a header means: canonical column, number of leading tokens spelling it, form, language."""
    __slots__ = ("canon", "used", "form", "lang")

    def __init__(self, canon, used, form, lang):
        self.canon, self.used, self.form, self.lang = canon, used, form, lang


def understand(sheet: Sheet, col: Col):
    if col.tokens is None or sheet.kind not in COLUMNS:
        return None
    toks = col.tokens
    n0 = norm_name(toks[0])
    cat = COLUMNS[sheet.kind]
    if n0 == "media" and len(toks) >= 2 and toks[1] in MEDIA and toks[1] in cat:
        canon, used, form = toks[1], 2, "media"
    elif n0 == "bind" and sheet.kind == "survey" and len(toks) >= 2 and toks[1] in BIND_REV:
        canon, used, form = BIND_REV[toks[1]], 2, "bind"
    else:
        canon = next((c for c, sp in cat.items() if n0 in sp), None)
        if canon is None:
            return None
        used, form = 1, "plain"
    rest = toks[used:]
    if len(rest) > 1 or (rest and canon not in TRANSLATABLE.get(sheet.kind, ())):
        return None
    if rest and not rest[0]:
        return None
    return Und(canon, used, form, rest[0] if rest else None)


class Book:
    def __init__(self, wb: WB):
        self.sheets = [Sheet(i, n, h, rows) for i, (n, (h, rows)) in enumerate(wb.items())]
        self.next_sheet = len(self.sheets)

    def sheet(self, sid):
        return next((s for s in self.sheets if s.id == sid), None)

    def kind(self, kind):
        return next((s for s in self.sheets if s.kind == kind), None)

    def render(self) -> WB:
        out = WB()
        for s in self.sheets:
            headers = [c.render() for c in s.cols]
            out[s.name] = (headers, [[r.cells.get(c.id) for c in s.cols] for r in s.rows])
        return out

    def clean_text_disabled(self) -> bool:
        st = self.kind("settings")
        return st is not None and any(c.tokens and norm_name(c.tokens[0]) == "clean_text_values" for c in st.cols)


class State:
    """What the applied transformations imply for the comparison."""

    def __init__(self):
        self.container = False      # needs a real workbook container (sheet-level transformation)
        self.bag = False            # a permutation was applied: messages compared as bags of words
        self.subst = []             # (old, new) spellings a message may echo
        self.added_cols = set()     # unknown columns added (a message may echo the whole row)
        self.classes = []
        self.descr = []


class Op:
    __slots__ = ("cls", "descr", "fn")

    def __init__(self, cls, descr, fn):
        self.cls, self.descr, self.fn = cls, descr, fn

    def apply(self, book: Book, st: State) -> bool:
        if self.fn(book, st):
            st.classes.append(self.cls)
            st.descr.append(f"{self.cls}: {self.descr}")
            return True
        return False


# ----------------------------------------------------------------------------- header transformations


def _family_ok_for_separator(sheet: Sheet, token_with_colon: bool):
    """Can a header with a delimiter be introduced into this sheet, and with which delimiter?"""
    if sheet.family == "double":
        return "::"
    if sheet.family == "single":
        return None if token_with_colon else ":"
    return "::"


def _case_variants(token: str, full: bool):
    out = [token.capitalize(), token.upper()]
    if full:
        out += [token.title(), token[:-1] + token[-1].upper()]
    return [v for v in dict.fromkeys(out) if v != token]


def _space_variants(token: str, full: bool):
    out = []
    if "_" in token:
        out.append(token.replace("_", " "))
        if full:
            out.append(token.replace("_", "  "))
    elif " " in token.strip():
        out.append("_".join(token.split()))
        out.append("  ".join(token.split()))
    return [v for v in dict.fromkeys(out) if v != token]


def ops_col_case(book, full=True):
    out = []
    for s in book.sheets:
        for c in s.cols:
            u = understand(s, c)
            if u is None:
                continue
            # only the tokens that spell the column itself; attribute names and languages are case-sensitive
            for v in _case_variants(c.tokens[0], full):
                out.append(Op("col-case", f"{s.name}!{c.render()!r} -> first token {v!r}",
                              _set_token(s.id, c.id, 0, v, "col")))
    return out


def _set_token(sid, cid, idx, value, what):
    def fn(book, st):
        s = book.sheet(sid)
        c = s.col(cid) if s else None
        if c is None or c.tokens is None or idx >= len(c.tokens) or c.tokens[idx] == value:
            return False
        before = understand(s, c)
        old = c.tokens[idx]
        c.tokens[idx] = value
        after = understand(s, c)
        if before is None or after is None or (before.canon, before.lang) != (after.canon, after.lang) \
                or _duplicate_meaning(s):
            c.tokens[idx] = old
            return False
        return True
    return fn


def _duplicate_meaning(s: Sheet) -> bool:
    seen = set()
    for c in s.cols:
        u = understand(s, c)
        key = ("u", u.canon, u.lang) if u else ("raw", c.render())
        if c.tokens is not None and key in seen:
            return True
        seen.add(key)
    return False


def ops_col_space(book, full=True):
    out = []
    for s in book.sheets:
        for c in s.cols:
            u = understand(s, c)
            if u is None:
                continue
            for v in _space_variants(c.tokens[0], full):
                out.append(Op("col-space", f"{s.name}!{c.render()!r} -> first token {v!r}",
                              _set_token(s.id, c.id, 0, v, "col")))
            for lead, trail in ([(" ", " "), ("", "  "), ("\t", "")] if full else [(" ", " ")]):
                out.append(Op("col-space", f"{s.name}!{c.render()!r} padded {lead!r}+{trail!r}",
                              _set_pad(s.id, c.id, lead, trail)))
    return out


def _set_pad(sid, cid, lead, trail):
    def fn(book, st):
        s = book.sheet(sid)
        c = s.col(cid) if s else None
        if c is None or c.tokens is None or (c.lead, c.trail) == (lead, trail) or understand(s, c) is None:
            return False
        c.lead, c.trail = lead, trail
        return True
    return fn


def ops_col_alias(book, full=True):
    out = []
    for s in book.sheets:
        for c in s.cols:
            u = understand(s, c)
            if u is None:
                continue
            forms = []      # (token list spelling the column, needs-colon-token)
            for sp in COLUMNS[s.kind][u.canon]:
                forms.append(([sp], False))
            if u.canon in MEDIA:
                forms.append((["media", u.canon], False))
            if s.kind == "survey" and u.canon in BIND:
                forms.append((["bind", BIND[u.canon]], ":" in BIND[u.canon]))
            cur = [norm_name(c.tokens[0]), *c.tokens[1:u.used]]
            for toks, colon in forms:
                if toks == cur:
                    continue
                out.append(Op("col-alias", f"{s.name}!{c.render()!r} -> {'::'.join(toks)}",
                              _respell(s.id, c.id, toks, colon)))
    return out


def _respell(sid, cid, toks, colon):
    def fn(book, st):
        s = book.sheet(sid)
        c = s.col(cid) if s else None
        u = understand(s, c) if c is not None else None
        if u is None:
            return False
        new_tokens = [*toks, *c.tokens[u.used:]]
        if new_tokens == c.tokens:
            return False
        need_sep = len(new_tokens) > 1
        sep = None
        if need_sep:
            sep = _family_ok_for_separator(s, colon or any(":" in t for t in new_tokens))
            if sep is None:
                return False
        old = (c.tokens, c.seps, s.family)
        lang_seps = c.seps[u.used - 1:] if u.lang is not None else []
        c.tokens = new_tokens
        c.seps = [sep] * (len(toks) - 1) + (lang_seps if lang_seps or u.lang is None else [sep])
        if len(c.seps) != len(c.tokens) - 1:
            c.seps = [sep] * (len(c.tokens) - 1)
        if need_sep and s.family is None:
            s.family = "double"
        after = understand(s, c)
        if after is None or (after.canon, after.lang) != (u.canon, u.lang) or _duplicate_meaning(s):
            c.tokens, c.seps, s.family = old
            return False
        return True
    return fn


def _can_switch_family(s: Sheet, to: str) -> bool:
    if s.kind not in COLUMNS or s.family in (None, to):
        return False
    for c in s.cols:
        if c.tokens is None:
            continue
        if any(":" in t for t in c.tokens):
            return False
        if len(c.tokens) > 1 and understand(s, c) is None:
            return False        # a delimited header this oracle does not understand: leave the sheet alone
        if s.family == "single" and any(t == "jr" for t in c.tokens):
            return False
    return True


def ops_lang_delim(book, full=True):
    out = []
    spacings = [("", ""), (" ", " "), ("", " "), (" ", "")]
    for s in book.sheets:
        if s.kind not in COLUMNS or s.family is None:
            continue
        for to in ("single", "double"):
            if _can_switch_family(s, to):
                for sp in (spacings if full else spacings[:2]):
                    out.append(Op("lang-delim", f"{s.name}: every header delimited with {to} colon, blanks {sp!r}",
                                  _switch_family(s.id, to, sp)))
        for c in s.cols:
            if c.tokens is None or len(c.tokens) < 2 or understand(s, c) is None:
                continue
            for i in range(len(c.seps)):
                for sp in spacings:
                    out.append(Op("lang-delim", f"{s.name}!{c.render()!r} delimiter {i} with blanks {sp!r}",
                                  _space_sep(s.id, c.id, i, sp)))
    return out


def _switch_family(sid, to, sp):
    def fn(book, st):
        s = book.sheet(sid)
        if s is None or not _can_switch_family(s, to):
            return False
        d = ":" if to == "single" else "::"
        for c in s.cols:
            c.seps = [sp[0] + d + sp[1] for _ in c.seps]
        s.family = to
        return True
    return fn


def _space_sep(sid, cid, i, sp):
    def fn(book, st):
        s = book.sheet(sid)
        c = s.col(cid) if s else None
        if c is None or c.tokens is None or i >= len(c.seps) or understand(s, c) is None or s.family is None:
            return False
        d = ":" if s.family == "single" else "::"
        new = sp[0] + d + sp[1]
        if c.seps[i] == new:
            return False
        c.seps[i] = new
        return True
    return fn


def _order_sensitive(s: Sheet, c: Col) -> bool:
    if c.tokens is None:
        return True
    u = understand(s, c)
    if u is None:
        return True             # extra choice columns become item children in column order
    return u.lang is not None or u.canon in TRANSLATABLE.get(s.kind, ())


def ops_col_perm(book, full=True, rnd=None):
    out = []
    rnd = rnd or random.Random(0)
    for s in book.sheets:
        if s.kind not in COLUMNS or len(s.cols) < 2:
            continue
        n = len(s.cols)
        perms = [("reversed", list(range(n - 1, -1, -1))), ("rotated", [*range(1, n), 0])]
        for k in range(3 if full else 1):
            p = list(range(n))
            rnd.shuffle(p)
            perms.append((f"shuffled#{k}", p))
        for name, p in perms:
            out.append(Op("col-perm", f"{s.name}: columns {name}", _permute_cols(s.id, p)))
    return out


def _permute_cols(sid, perm):
    def fn(book, st):
        s = book.sheet(sid)
        if s is None or len(s.cols) != len(perm):
            return False
        target = [s.cols[i] for i in perm]
        # columns whose relative order carries meaning keep it: they fill "their" slots in the old order
        sens_old = [c for c in s.cols if _order_sensitive(s, c)]
        it = iter(sens_old)
        new = [next(it) if _order_sensitive(s, c) else c for c in target]
        if [c.id for c in new] == [c.id for c in s.cols]:
            return False
        s.cols = new
        st.bag = True
        return True
    return fn


def ops_extra_col(book, full=True):
    out = []
    for s in book.sheets:
        if s.kind not in ("survey", "settings"):
            continue
        existing = {norm_name(c.tokens[0]) for c in s.cols if c.tokens}
        for name in (UNKNOWN_COLUMNS if full else UNKNOWN_COLUMNS[:2]):
            if norm_name(name) in existing:
                continue
            for at in (sorted({0, len(s.cols) // 2, len(s.cols)}) if full else [len(s.cols)]):
                for fill in (("all", "some") if full else ("some",)):
                    out.append(Op("extra-col", f"{s.name}: unknown column {name!r} at {at}, {fill} rows filled",
                                  _add_col(s.id, name, at, fill)))
    return out


def _add_col(sid, name, at, fill):
    def fn(book, st):
        s = book.sheet(sid)
        if s is None or any(c.tokens and norm_name(c.tokens[0]) == norm_name(name) for c in s.cols):
            return False
        cid = s.next_col
        s.next_col += 1
        s.cols.insert(min(at, len(s.cols)), Col(cid, [name], []))
        st.added_cols.add(name)
        for i, r in enumerate(s.rows):
            if r.cells and (fill == "all" or i % 2 == 0):
                r.cells[cid] = f"remark {i}"
        return True
    return fn


# ----------------------------------------------------------------------------- cell transformations


def _survey_cells(book, canon_filter=None):
    s = book.kind("survey")
    if s is None:
        return
    for c in s.cols:
        u = understand(s, c)
        if canon_filter is not None and (u is None or u.canon not in canon_filter):
            continue
        for r in s.rows:
            v = r.cells.get(c.id)
            if v:
                yield s, c, u, r, v


def _edit_cell(sid, rid, cid, f):
    """f(current text) -> new text | (new text, echo pair) | None.  Works on whatever the cell holds when the
    transformation is applied, so that transformations commute and can be replayed in any subset."""
    def fn(book, st):
        s = book.sheet(sid)
        r = s.row(rid) if s else None
        cur = r.cells.get(cid) if r is not None else None
        if not cur:
            return False
        res = f(cur)
        if res is None:
            return False
        new, echo = res if isinstance(res, tuple) else (res, None)
        if new == cur:
            return False
        r.cells[cid] = new
        if echo:
            st.subst.append(echo)
        return True
    return fn


def type_alternatives(cell: str):
    """[(new cell text, old keyword, new keyword)] for a type cell; outer blanks are kept as written."""
    out = []
    body = cell.strip()
    lead, trail = cell[: len(cell) - len(cell.lstrip())], cell[len(cell.rstrip()):]
    flat = " ".join(body.split())
    for fam in TYPE_WHOLE:
        if flat in fam:
            out += [(lead + alt + trail, flat, alt) for alt in fam if alt != flat]
    for fam in TYPE_KEYWORDS:
        for kw in fam:
            if flat.startswith(kw + " "):
                out += [(lead + alt + flat[len(kw):] + trail, kw, alt) for alt in fam if alt != kw]
    return out


def _retype(old_kw, new_kw):
    def f(cur):
        for new, o, n in type_alternatives(cur):
            if n == new_kw:     # whatever spelling of the family the cell holds by now
                return new, (" ".join(cur.split()), " ".join(new.split()))
        return None
    return f


def ops_type_alias(book, full=True):
    out = []
    for s, c, u, r, v in _survey_cells(book, {"type"}):
        for new, old_kw, new_kw in type_alternatives(v):
            fam = next(f for f in [*TYPE_WHOLE, *TYPE_KEYWORDS] if old_kw in f)
            cls = "type-alias:" + fam[0].split()[0].replace("end", "begin")
            if new_kw in DOUBTFUL_TYPE_SPELLINGS or old_kw in DOUBTFUL_TYPE_SPELLINGS:
                cls = "type-alias:select-multiple-with-blank"
            out.append(Op(cls, f"survey row {r.id + 2} type {v!r} -> {new!r}",
                          _edit_cell(s.id, r.id, c.id, _retype(old_kw, new_kw))))
    return out


def _truth_to(target):
    def f(cur):
        t = cur.strip()
        for fam in (TRUE_FAMILY, FALSE_FAMILY):
            if t in fam and target in fam and t != target:
                return cur.replace(t, target)
        return None
    return f


def ops_truth(book, full=True):
    out = []
    for s, c, u, r, v in _survey_cells(book, {"required", "readonly"}):
        t = v.strip()
        for fam in (TRUE_FAMILY, FALSE_FAMILY):
            if t in fam:
                alts = [a for a in fam if a != t]
                for a in (alts if full else alts[::2]):
                    out.append(Op("truth", f"survey row {r.id + 2} {u.canon} {v!r} -> {a!r}",
                                  _edit_cell(s.id, r.id, c.id, _truth_to(a))))
    return out


def _quote_variants(v: str):
    out = []
    if any(q in v for q in SMART):
        # straight -> typographic: opening/closing alternating per kind; all closing
        cnt = {"'": 0, '"': 0}
        buf = []
        for ch in v:
            if ch in SMART:
                buf.append(SMART[ch][cnt[ch] % 2])
                cnt[ch] += 1
            else:
                buf.append(ch)
        out.append("".join(buf))
        out.append("".join(SMART[ch][1] if ch in SMART else ch for ch in v))
    else:
        out += [None, None]
    out.append("".join(SMART_REV.get(ch, ch) for ch in v) if any(q in v for q in SMART_REV) else None)
    return out


def _variant(variants, k):
    def f(cur):
        vs = variants(cur)
        return vs[k] if k < len(vs) and vs[k] is not None and vs[k] != cur else None
    return f


def ops_quotes(book, full=True):
    out = []
    if book.clean_text_disabled():
        return out
    cells = [(s, c, r, v, f"survey row {r.id + 2} {u.canon}") for s, c, u, r, v in _survey_cells(book, EXPRESSION_COLUMNS)]
    st = book.kind("settings")
    if st is not None:
        for c in st.cols:
            u = understand(st, c)
            if u is not None and u.canon == "instance_name":
                cells += [(st, c, r, r.cells[c.id], "settings instance_name") for r in st.rows[:1] if r.cells.get(c.id)]
    for s, c, r, v, where in cells:
        vs = _quote_variants(v)
        for k in ((0, 1, 2) if full else (0, 2)):
            if vs[k] is not None and vs[k] != v:
                out.append(Op("quotes", f"{where} {v!r} -> {vs[k]!r}", _edit_cell(s.id, r.id, c.id, _variant(_quote_variants, k))))
    return out


def _ws_variants(v: str):
    out = [" " + v + " ", v + "  ", "   " + v, v + "\n", "\t" + v + " "]
    if " " in v.strip():
        out += [v.replace(" ", "  "), v.replace(" ", "    ")]
    else:
        out += [None, None]
    return out


def ops_ws(book, full=True):
    out = []
    if book.clean_text_disabled():
        return out
    for s, c, u, r, v in _survey_cells(book):
        if c.tokens is None:
            continue
        vs = _ws_variants(v)
        for k in (range(7) if full else (0, 5)):
            if vs[k] is not None and vs[k] != v:
                out.append(Op("ws", f"survey row {r.id + 2} column {c.render()!r} {v!r} -> {vs[k]!r}",
                              _edit_cell(s.id, r.id, c.id, _variant(_ws_variants, k))))
    return out


# ----------------------------------------------------------------------------- rows and sheets


def ops_blank_rows(book, full=True):
    out = []
    for kind in ("survey", "choices"):
        s = book.kind(kind)
        if s is None:
            continue
        n = len(s.rows)
        positions = range(n + 1) if full else sorted({0, n // 2, n})
        for at in positions:
            for k in ((1, 2, 5) if full and at in (0, n // 2) else (1, 3) if at == 0 else (1,)):
                anchor = s.rows[at].id if at < n else None
                if at < n and anchor is None:
                    continue
                out.append(Op("blank-rows", f"{k} blank row(s) in {s.name} before data row {at + 1} of {n}",
                              _insert_rows(s.id, anchor, k)))
    return out


def _insert_rows(sid, anchor, k):
    def fn(book, st):
        s = book.sheet(sid)
        if s is None:
            return False
        if anchor is None:
            at = len(s.rows)
        else:
            at = next((i for i, r in enumerate(s.rows) if r.id == anchor), None)
            if at is None:
                return False
        s.rows[at:at] = [Row(None, {}) for _ in range(k)]
        return True
    return fn


def ops_sheet_case(book, full=True):
    out = []
    for s in book.sheets:
        if s.kind is None:
            continue
        base = s.name.strip()
        vs = [base.capitalize(), base.upper()] + ([base.title(), base[0] + base[1:].upper()] if full else [])
        for v in dict.fromkeys(vs):
            if v != base:
                out.append(Op("sheet-case", f"sheet {s.name!r} -> {v!r}", _rename_sheet(s.id, v)))
    return out


def ops_sheet_space(book, full=True):
    out = []
    for s in book.sheets:
        if s.kind is None:
            continue
        base = s.name.strip()
        for v in ([base + " ", " " + base, " " + base + "  "] if full else [base + " "]):
            if v != s.name:
                out.append(Op("sheet-space", f"sheet {s.name!r} -> {v!r}", _rename_sheet(s.id, v)))
    return out


def _rename_sheet(sid, name):
    def fn(book, st):
        s = book.sheet(sid)
        if s is None or s.name == name or any(o.name == name for o in book.sheets):
            return False
        s.name = name
        st.container = True
        return True
    return fn


def ops_sheet_perm(book, full=True, rnd=None):
    rnd = rnd or random.Random(0)
    n = len(book.sheets)
    if n < 2:
        return []
    perms = [("reversed", list(range(n - 1, -1, -1))), ("rotated", [*range(1, n), 0])]
    if full and n > 2:
        p = list(range(n))
        rnd.shuffle(p)
        perms.append(("shuffled", p))
    return [Op("sheet-perm", f"sheets {name}", _permute_sheets(p)) for name, p in perms]


def _permute_sheets(perm):
    def fn(book, st):
        if len(book.sheets) != len(perm):
            return False
        new = [book.sheets[i] for i in perm]
        if [s.id for s in new] == [s.id for s in book.sheets]:
            return False
        book.sheets = new
        st.container = True
        st.bag = True
        return True
    return fn


def ops_extra_sheet(book, full=True):
    out = []
    have = {s.name.strip().lower() for s in book.sheets}
    names = (UNRELATED_SHEETS + UNDERSCORE_SHEETS) if full else (UNRELATED_SHEETS[:2] + UNDERSCORE_SHEETS[:3])
    for i, name in enumerate(names):
        if name.lower() in have:
            continue
        for at in ([0, len(book.sheets)] if full else [[0, len(book.sheets)][i % 2]]):
            content = ("empty", "table", "copy")[i % 3]
            out.append(Op("extra-sheet-underscore" if name.startswith("_") else "extra-sheet",
                          f"sheet {name!r} ({content}) at position {at}", _add_sheet(name, at, content)))
    return out


def _add_sheet(name, at, content):
    def fn(book, st):
        if any(s.name.strip().lower() == name.lower() for s in book.sheets):
            return False
        if content == "copy" and book.kind("survey") is not None:
            src = book.kind("survey")
            headers = [c.render() for c in src.cols]
            rows = [[r.cells.get(c.id) for c in src.cols] for r in src.rows]
        elif content == "table":
            headers, rows = ["type", "name", "label", "anything"], [["text", "ghost", "Ghost", "x"], ["begin group", "gg", None, None]]
        else:
            headers, rows = ["remark"], []
        s = Sheet(book.next_sheet, name, headers, rows)
        s.kind = None
        s.original = False
        book.next_sheet += 1
        book.sheets.insert(min(at, len(book.sheets)), s)
        st.container = True
        return True
    return fn


CLASSES = {
    "col-case": ops_col_case, "col-space": ops_col_space, "col-alias": ops_col_alias, "lang-delim": ops_lang_delim,
    "col-perm": ops_col_perm, "extra-col": ops_extra_col, "type-alias": ops_type_alias, "truth": ops_truth,
    "quotes": ops_quotes, "ws": ops_ws, "blank-rows": ops_blank_rows, "sheet-case": ops_sheet_case,
    "sheet-space": ops_sheet_space, "sheet-perm": ops_sheet_perm, "extra-sheet": ops_extra_sheet,
}
CONTAINER_CLASSES = {"sheet-case", "sheet-space", "sheet-perm", "extra-sheet"}


def enumerate_ops(book, cls, full, rnd):
    f = CLASSES[cls]
    if cls in ("col-perm", "sheet-perm"):
        return f(book, full, rnd)
    return f(book, full)


# ----------------------------------------------------------------------------- channels


def wb_usable(wb: WB) -> str | None:
    names = [n.strip().lower() for n in wb]
    if len(set(names)) != len(names):
        return "duplicate sheet names"
    if "survey" not in [n.lower() for n in wb]:
        return "no survey sheet"
    for name, (headers, rows) in wb.items():
        real = [h for h in headers if h is not None]
        if len(set(real)) != len(real):
            return "duplicate headers"
        if any(not isinstance(h, str) for h in real):
            return "non-text header"
        for row in rows:
            for h, c in zip(headers, row):
                if c is not None and not isinstance(c, str):
                    return "non-text cell"
                if h is None and c not in (None, ""):
                    return "data under an empty header"
    return None


def as_dict(wb: WB) -> dict:
    """The dict a reader hands over for this workbook (fresh objects: convert() mutates its input)."""
    out: dict = {"sheet_names": list(wb.keys())}
    for name, (headers, rows) in wb.items():
        key = name.lower()
        if key not in SUPPORTED:
            continue
        out[key] = [{h: c for h, c in zip(headers, row) if h is not None and c not in (None, "")} for row in rows]
        out[f"{key}_header"] = [{h: None for h in headers if h is not None}] if any(h is not None for h in headers) else []
    return out


_ILLEGAL_XLSX = re.compile(r"[\000-\010]|[\013-\014]|[\016-\037]")


def xlsx_ok(wb: WB) -> bool:
    for name, (headers, rows) in wb.items():
        if not name or len(name) > 31 or re.search(r"[\\/*?:\[\]]", name) or name.startswith("'") or name.endswith("'"):
            return False
        if not any(h is not None for h in headers):
            return False
        for c in [*headers, *[c for r in rows for c in r]]:
            if c is not None and (_ILLEGAL_XLSX.search(c) or len(c) > 30000 or c.lstrip().startswith("=")
                                  or not c.strip()):
                return False
    return True


def md_ok(wb: WB) -> bool:
    if not corpus.md_safe(wb):
        return False
    for name, (headers, rows) in wb.items():
        if not any(h is not None for h in headers) or "|" in name:
            return False
        if any(h is None for h in headers):
            return False
        for c in [*headers, *[c for r in rows for c in r]]:
            if c is not None and ("|" in c or "\r" in c or not c.strip()):
                return False
    return True


def deliver(case: Case, wb: WB, channel: str) -> Result:
    if channel == "dict":
        return corpus.convert_case(case, _source=as_dict(wb))
    if channel == "xlsx":
        return corpus.convert_case(case, _source=corpus.wb_to_xlsx(wb), file_type=".xlsx")
    return corpus.convert_case(case, _source=corpus.wb_to_md(wb), file_type=".md")


# ----------------------------------------------------------------------------- comparison


def _canon(e, f):
    """(tag, attributes, text, children): whitespace-only text next to child elements is dropped."""
    kids = list(e)
    text = e.text or ""
    if kids and not text.strip():
        text = ""
    tag = f(e.tag)
    children = []
    for k in kids:
        children.append(_canon(k, f))
        tail = k.tail or ""
        if tail.strip():
            children.append(("#text", (), f(tail), ()))
    local = tag.rsplit("}", 1)[-1]
    if local == "text" and tag.startswith("{http://www.w3.org/2002/xforms}"):
        children.sort(key=lambda c: (c[0], c[1]))                      # <value form=...> keyed by form
    elif local == "translation":
        children.sort(key=lambda c: tuple(v for k, v in c[1] if k == "id"))   # <text id=...> keyed by id
    return (tag, tuple(sorted((f(k), f(v)) for k, v in e.attrib.items())), f(text), tuple(children))


def canon_xform(text: str, f=lambda s: s):
    return _canon(ET.fromstring(text.encode("utf-8")), f)


def first_difference(a, b, path=""):
    here = f"{path}/{a[0].rsplit('}', 1)[-1]}"
    if a[0] != b[0]:
        return f"{here}: element {a[0]!r} vs {b[0]!r}"
    if a[1] != b[1]:
        da, db = dict(a[1]), dict(b[1])
        ks = [k for k in sorted(set(da) | set(db)) if da.get(k) != db.get(k)]
        return f"{here}: attribute(s) " + "; ".join(f"{k.rsplit('}', 1)[-1]}={da.get(k)!r} vs {db.get(k)!r}" for k in ks[:3])
    if a[2] != b[2]:
        return f"{here}: text {a[2][:80]!r} vs {b[2][:80]!r}"
    for i, (x, y) in enumerate(zip(a[3], b[3])):
        if x != y:
            return first_difference(x, y, f"{here}[{i}]" if len(a[3]) > 1 else here)
    if len(a[3]) != len(b[3]):
        longer, which = (a, "reference") if len(a[3]) > len(b[3]) else (b, "rewritten form")
        extra = longer[3][min(len(a[3]), len(b[3]))]
        return f"{here}: {len(a[3])} vs {len(b[3])} children; only in the {which}: <{extra[0].rsplit('}', 1)[-1]} {dict(extra[1])}>"
    return None


def row_maps(book: Book) -> dict:
    """{sheet kind: function old row number -> new row number} from the identity of the rows."""
    out = {}
    for s in book.sheets:
        if s.kind is None or not s.original:
            continue
        pos = {r.id: i for i, r in enumerate(s.rows) if r.id is not None}
        n_old = (max(pos) + 1) if pos else 0
        added = len(s.rows) - len(pos)

        def f(n, pos=pos, n_old=n_old, added=added):
            i = n - 2
            if i < 0:
                return n
            if i in pos:
                return pos[i] + 2
            return n + added if i >= n_old else n
        out[s.kind] = f
    return out


def _bag(msg: str):
    return tuple(sorted(re.findall(r"\w+|[^\w\s]", msg)))


_ECHO = re.compile(r"\{.*\}", re.S)


def _norm_echo(msg: str, st: "State") -> str:
    """Some messages echo the offending row as a Python dict.  The echo is read as a dict: the order of its
    entries (= column order) and cells of unknown columns added by the rewrite are not part of the message's
    kind, subject or row."""
    m = _ECHO.search(msg)
    if not m:
        return msg
    try:
        d = ast.literal_eval(m.group(0))
    except (ValueError, SyntaxError, MemoryError, RecursionError):
        return msg
    if not isinstance(d, dict):
        return msg
    items = sorted((repr(k), repr(v)) for k, v in d.items() if k not in st.added_cols)
    return msg[: m.start()] + "{" + ", ".join(f"{k}: {v}" for k, v in items) + "}" + msg[m.end():]


def expected_messages(msg: str, maps: dict, st: State):
    """The texts the rewritten form may answer for the reference message `msg`."""
    m = SHEET_IN_MESSAGE.search(msg)
    kind = m.group(1) if m else "survey"
    f = maps.get(kind, lambda n: n)
    shifted = ROWREF.sub(lambda mm: f"[row : {f(int(mm.group(1)))}]", msg)
    fs = maps.get("survey", lambda n: n)
    shifted = HELPER.sub(lambda mm: mm.group(1) + str(fs(int(mm.group(2)))), shifted)
    out = [shifted]
    for old, new in st.subst:
        if old and old in shifted:
            out.append(shifted.replace(old, new))
    return out


def compare_warnings(ref: list, got: list, maps: dict, st: State):
    def key(w):
        w = _norm_echo(w, st)
        return _bag(w) if st.bag else w

    pool = [key(w) for w in got]
    missing = []
    for w in ref:
        alts = [key(x) for x in expected_messages(w, maps, st)]
        hit = next((a for a in alts if a in pool), None)
        if hit is None:
            missing.append(w)
        else:
            pool.remove(hit)
    if not missing and not pool:
        return None
    extra = [w for w in got if key(w) in pool]
    if missing and extra:
        return f"reference warning {missing[0][:160]!r} is answered by {extra[0][:160]!r}"
    if missing:
        return f"warning lost: {missing[0][:200]!r}"
    return f"new warning: {extra[0][:200]!r}"


def compare(ref: Result, got: Result, book: Book, st: State):
    """(aspect, detail) of the first difference, or None."""
    if not got.ok:
        return "rejected", f"{type(got.error).__name__}: {str(got.error)[:200]}"
    maps = row_maps(book)
    fs = maps.get("survey", lambda n: n)

    def rename(s):
        return HELPER.sub(lambda m: m.group(1) + str(fs(int(m.group(2)))), s) if s and "_" in s else s

    try:
        a = canon_xform(ref.xform, rename)
    except ET.ParseError:
        return None             # not well-formed output for W itself is C01's business
    try:
        b = canon_xform(got.xform)
    except ET.ParseError as e:
        return "xform", f"the rewritten form gives XML that is not well-formed ({e}); the reference parses"
    if a != b:
        return "xform", first_difference(a, b) or "trees differ"
    d = compare_warnings(list(ref.warnings or []), list(got.warnings or []), maps, st)
    if d:
        return "warnings", d
    return None


# ----------------------------------------------------------------------------- driver


class Runner:
    def __init__(self, case: Case, wb: WB, ctx: dict):
        self.case, self.wb, self.ctx = case, wb, ctx
        self.refs = {}
        self.use_md = True
        self.out = []
        self.seen = set()

    def ref(self, channel):
        if channel not in self.refs:
            if channel == "xlsx" and not xlsx_ok(self.wb):
                self.refs[channel] = None
            elif channel == "md" and not md_ok(self.wb):
                self.refs[channel] = None
            else:
                r = deliver(self.case, self.wb, channel)
                self.ctx["c13_n"] = self.ctx.get("c13_n", 0) + 1
                self.refs[channel] = r if r.ok and r.xform else None
        return self.refs[channel]

    def run(self, ops: list[Op], channels=None):
        """Apply ops to a fresh copy of the base.  Returns (applied ops, state, {channel: (aspect, detail)} of
        the failures, channels tried).  channels None = the cheapest channel that can carry the rewrite;
        "all" = every channel that can."""
        book, st = Book(self.wb), State()
        applied = [op for op in ops if op.apply(book, st)]
        if not applied:
            return None, st, {}, []
        wb2 = book.render()
        sheet_names_changed = bool(set(st.classes) & {"sheet-case", "sheet-space"})
        if channels is None:
            channels = (["xlsx", "md"] if self.use_md else ["xlsx"]) if st.container else ["dict"]
            if st.container and not sheet_names_changed:
                channels.append("dict")
        elif channels == "all":
            channels = ["dict", "xlsx", "md"]
        fails, tried = {}, []
        for ch in channels:
            if ch == "dict" and sheet_names_changed:
                continue        # a reader hands supported sheets over under their lower-case names
            if ch == "xlsx" and not xlsx_ok(wb2) or ch == "md" and not md_ok(wb2):
                continue
            if ch == "md" and "blank-rows" in st.classes:
                continue        # Markdown tables have no blank rows
            ref = self.ref(ch)
            if ref is None:
                continue
            got = deliver(self.case, wb2, ch)
            tried.append(ch)
            self.ctx["c13_n"] = self.ctx.get("c13_n", 0) + 1
            counts = self.ctx.setdefault("c13_classes", {})
            for c in set(st.classes):
                counts[c] = counts.get(c, 0) + 1
            d = compare(ref, got, book, st)
            if d:
                fails[ch] = d
        return applied, st, fails, tried

    def report(self, applied, st, fails):
        if not fails:
            return
        # shrink a composition to a minimal failing set of transformations
        if len(applied) > 1:
            cur = list(applied)
            chans = list(fails)
            i = 0
            while i < len(cur) and len(cur) > 1:
                trial = cur[:i] + cur[i + 1:]
                a2, st2, f2, _ = self.run(trial, chans)
                if f2:
                    cur, applied, st, fails = trial, a2, st2, f2
                else:
                    i += 1
        # which channels are affected (part of the key: a reader-only failure is a different finding)
        a3, st3, f3, tried = self.run(applied, "all")
        if f3:
            st, fails = st3, f3
        else:
            tried = list(fails)
        classes = set(st.classes)
        if classes & {"sheet-space", "sheet-case"}:
            # a further sheet only makes the sheet names matter (a lone sheet is the survey whatever its name)
            classes -= {"extra-sheet", "extra-sheet-underscore"}
        classes = sorted(classes)
        ch, (aspect, detail) = sorted(fails.items())[0]
        scope = "" if len(fails) == len(tried) else ":only-" + "+".join(sorted(fails))
        key = f"C13:{'+'.join(classes)}:{aspect}{scope}"
        key = self.relabel(key, classes, applied, fails) or key
        if key in self.seen:
            return
        self.seen.add(key)
        self.out.append({"key": key, "what": f"[{'/'.join(sorted(fails))}] {' ; '.join(st.descr)} => {aspect}: {detail}"})


    def relabel(self, key, classes, applied, fails):
        """Documented genuine defects (FINDINGS_C13.md) get keys of their own.  The label follows from facts
        about the rewrite plus a confirming experiment, so that a new defect cannot hide behind a known one."""
        if classes == ["sheet-space"] and set(fails) == {"xlsx"}:
            # the only thing the rewrite did is pad sheet names, and only the .xlsx reader minds
            return "C13:sheet-space:padded-sheet-name-not-recognised:only-xlsx"
        if classes == ["type-alias:text"] and all(a == "xform" for a, _ in fails.values()):
            # confirm: without `rows=` parameters on text/string rows the very same rewrite is an equivalence
            wb = self.wb.copy()
            hit = False
            for name, (headers, rows) in wb.items():
                if name.strip().lower() != "survey":
                    continue
                tcols = [i for i, h in enumerate(headers) if h is not None and norm_name(h) == "type"]
                pcols = [i for i, h in enumerate(headers) if h is not None and norm_name(h) == "parameters"]
                for r in rows:
                    for ti in tcols:
                        for pi in pcols:
                            if ti < len(r) and pi < len(r) and r[ti] and " ".join(r[ti].split()) in ("text", "string") \
                                    and r[pi] and re.fullmatch(r"\s*rows\s*=\s*\d+\s*", r[pi]):
                                r[pi] = None
                                hit = True
            if hit:
                sub = Runner(self.case, wb, self.ctx)
                if sub.ref("dict") is not None:
                    a2, st2, f2, _ = sub.run(applied, ["dict"])
                    if a2 and not f2:
                        return "C13:type-alias:text:string-ignores-rows-parameter"
        return None


def check(case: Case, res: Result, ctx: dict) -> list[dict]:
    if case.wb is None and (not res.ok or not res.xform):
        return []               # (workbook cases are delivered by this oracle itself: see Runner.ref)
    wb = corpus.case_wb(case) if case.wb is None else case.wb
    if wb is None or wb_usable(wb):
        return []
    tier = ctx.get("tier", "quick")
    rnd = random.Random(zlib.crc32(case.name.encode()) ^ (ctx.get("seed", 0) * 2654435761 % (1 << 32)))
    run = Runner(case, wb, ctx)
    if run.ref("dict") is None:
        return []
    run.use_md = "c13-full" in case.tags or "c13-half" in case.tags or tier == "thorough"
    level = "full" if "c13-full" in case.tags else ("half" if "c13-half" in case.tags else "default")
    eff = EFFORT[tier][level]
    rich = tier == "thorough" and level != "default"       # every spelling variant of every site
    base_book = Book(wb)
    per_class = {c: enumerate_ops(base_book, c, rich, random.Random(rnd.random())) for c in CLASSES}
    per_class = {c: v for c, v in per_class.items() if v}
    for v in per_class.values():
        rnd.shuffle(v)

    def round_robin(classes, cap):
        order = sorted(classes)
        rnd.shuffle(order)
        out, k = [], 0
        while len(out) < cap:
            row = [per_class[c][k] for c in order if k < len(per_class[c])]
            if not row:
                break
            out += row
            k += 1
        return out[:cap]

    # every class stays represented when the sites are sampled
    heavy = [c for c in per_class if c in CONTAINER_CLASSES]
    light = [c for c in per_class if c not in CONTAINER_CLASSES]
    n_heavy = int(eff["container"]) + (1 if rnd.random() < eff["container"] - int(eff["container"]) else 0)
    n_heavy = min(n_heavy, sum(len(per_class[c]) for c in heavy))
    singles = round_robin(light, max(0, eff["singles"] - n_heavy)) + round_robin(heavy, n_heavy)
    for op in singles:
        applied, st, fails, _ = run.run([op])
        run.report(applied, st, fails)
    # some of the dict-expressible single transformations through a real workbook as well
    # (round-robin over the classes: the readers have their own header / cell / blank-row handling)
    dictable = {}
    for op in singles:
        if op.cls not in CONTAINER_CLASSES:
            dictable.setdefault(op.cls.split(":")[0], []).append(op)
    n_x = int(eff["xlsx"]) + (1 if rnd.random() < eff["xlsx"] - int(eff["xlsx"]) else 0)
    order = sorted(dictable, key=lambda c: (c not in ("blank-rows", "col-space", "ws", "col-case"), rnd.random()))
    picked, k = [], 0
    while len(picked) < n_x and any(k < len(v) for v in dictable.values()):
        picked += [dictable[c][k] for c in order if k < len(dictable[c])]
        k += 1
    for op in picked[:n_x]:
        applied, st, fails, _ = run.run([op], ["xlsx"])
        run.report(applied, st, fails)
    # random compositions: every step is chosen among the sites of the *current* (already rewritten) form
    for k in range(eff["comps"]):
        book, st = Book(wb), State()
        ops = []
        sheet_level = (k + rnd.randrange(eff["ccomp"])) % eff["ccomp"] == 0
        allowed = sorted(CLASSES) if sheet_level else sorted(set(CLASSES) - CONTAINER_CLASSES)
        for _ in range(rnd.randint(2, 6)):
            cls = rnd.choice(allowed)
            cand = enumerate_ops(book, cls, True, random.Random(rnd.random()))
            if not cand:
                continue
            op = rnd.choice(cand)
            if op.apply(book, st):
                ops.append(op)
        if len(ops) < 2:
            continue
        channels = ["xlsx"] if (not st.container and rnd.random() < 0.08) else None
        applied, st2, fails, _ = run.run(ops, channels)
        run.report(applied, st2, fails)
    return run.out


# ----------------------------------------------------------------------------- case families

CH = (["list_name", "name", "label"], [["l1", "a", "A"], ["l1", "b", "B"], ["l2", "x", "X"], ["l2", "y", "Y"]])


def _sheet(rows: list[dict], order=None):
    hs = list(order or [])
    for r in rows:
        for k in r:
            if k not in hs:
                hs.append(k)
    return hs, [[r.get(h) for h in hs] for r in rows]


def family() -> dict[str, WB]:
    f = {}
    f["minimal"] = WB({"survey": (["type", "name", "label"], [["text", "a", "A"], ["integer", "b", "B"]])})
    f["kitchen"] = WB({
        "survey": _sheet([
            {"type": "text", "name": "a", "label": "Your name", "hint": "as on the card", "required": "yes",
             "required_message": "Name is needed", "default": "n/a"},
            {"type": "integer", "name": "n", "label": "How many", "constraint": ". > 0 and . < 10",
             "constraint_message": "between 1 and 9", "required": "true()", "readonly": "no"},
            {"type": "decimal", "name": "d", "label": "Weight", "readonly": "TRUE", "required": "No"},
            {"type": "select_one l1", "name": "s", "label": "Pick one", "relevant": "${a} != 'nobody'",
             "appearance": "minimal", "image": "pick.png"},
            {"type": "select_multiple l2", "name": "m", "label": "Pick some", "choice_filter": "w > 1 or name = 'x'",
             "required": "FALSE"},
            {"type": "image", "name": "p1", "label": "Photo one", "parameters": "max-pixels=640", "default": "logo.png"},
            {"type": "image", "name": "p2", "label": "Photo two"},
            {"type": "note", "label": "A note without a name ${a}"},
            {"type": "begin group", "name": "g"},
            {"type": "text", "name": "t", "label": "In group", "readonly": "yes"},
            {"type": "calculate", "name": "c", "calculation": "concat(${a}, ' - ', \"x y\")"},
            {"type": "begin repeat", "name": "r", "label": "Again", "repeat_count": "${n} + 1"},
            {"type": "text", "name": "rt", "label": "Repeated text", "guidance_hint": "think twice"},
            {"type": "end repeat"},
            {"type": "end group"},
            {"type": "note", "label": "second nameless note"},
        ]),
        "choices": (["list_name", "name", "label", "w", "code"], [
            ["l1", "a", "A", None, "c1"], ["l1", "b", "B", None, None],
            ["l2", "x", "X", "1", "c3"], ["l2", "y", "Y", "2", None], ["l2", "z", "Z", "3", "c5"]]),
        "settings": (["form_title", "form_id", "version", "instance_name"], [["Kitchen sink", "kitchen", "7", "concat('k-', ${a})"]]),
    })
    f["lang_double"] = WB({
        "survey": _sheet([
            {"type": "text", "name": "a", "label::English (en)": "Name", "label::French (fr)": "Nom",
             "hint::English (en)": "full"},
            {"type": "select_one l1", "name": "s", "label::English (en)": "One", "label::French (fr)": "Un",
             "media::image::English (en)": "en.png", "media::image::French (fr)": "fr.png",
             "constraint": ". != 'b'", "constraint_message::English (en)": "not b", "constraint_message::French (fr)": "pas b"},
            {"type": "image", "name": "p", "label::English (en)": "Photo", "label::French (fr)": "Photo"},
            {"type": "begin_group", "name": "g", "label::English (en)": "G"},
            {"type": "note", "name": "n", "label::English (en)": "Hello ${a}", "label::French (fr)": "Salut ${a}"},
            {"type": "end_group"},
        ]),
        "choices": (["list_name", "name", "label::English (en)", "label::French (fr)", "image::English (en)"], [
            ["l1", "a", "A", "Ah", "a.png"], ["l1", "b", "B", "Be", None]]),
        "settings": (["id_string", "default_language"], [["langs", "French (fr)"]]),
    })
    f["lang_single"] = WB({
        "survey": _sheet([
            {"type": "text", "name": "a", "label:English (en)": "Name", "label:Deutsch (de)": "Name (de)",
             "hint:English (en)": "full", "hint:Deutsch (de)": "voll"},
            {"type": "select one l1", "name": "s", "label:English (en)": "One", "label:Deutsch (de)": "Eins",
             "image:English (en)": "en.png"},
        ]),
        "choices": (["list name", "name", "label:English (en)", "label:Deutsch (de)"], [
            ["l1", "a", "A", "Ah"], ["l1", "b", "B", "Be"]]),
    })
    f["lang_one_plain"] = WB({
        "survey": _sheet([
            {"type": "text", "name": "a", "label": "Plain", "label::Swahili (sw)": "Jina", "hint": "h"},
            {"type": "select_multiple l1", "name": "m", "label": "M", "label::Swahili (sw)": "Mm",
             "audio::Swahili (sw)": "m.mp3"},
        ]),
        "choices": (["list_name", "name", "label", "label::Swahili (sw)"], [["l1", "a", "A", "Aa"], ["l1", "b", "B", None]]),
    })
    f["table_list"] = WB({
        "survey": _sheet([
            {"type": "text", "name": "first", "label": "First"},
            {"type": "begin group", "name": "tl", "label": "Table", "appearance": "table-list", "hint": "rate them"},
            {"type": "select_one l1", "name": "q1", "label": "Q1"},
            {"type": "select_one l1", "name": "q2", "label": "Q2"},
            {"type": "end group"},
            {"type": "begin group", "name": "tl2", "label": "Table two", "appearance": "table-list"},
            {"type": "select_multiple l2", "name": "q3", "label": "Q3"},
            {"type": "end group"},
            {"type": "note", "label": "bye"},
        ]),
        "choices": CH,
    })
    f["warnings"] = WB({
        "survey": _sheet([
            {"type": "text", "name": "a", "label": "A", "disabled": "no"},
            {"remark": "a comment row"},
            {"type": "imei", "name": "dev"},
            {"type": "begin repeat", "name": "r"},
            {"type": "photo", "name": "p", "label": "P"},
            {"type": "select_one l1", "name": "s", "label": "S"},
            {"type": "end repeat"},
            {"type": "begin group", "name": "g"},
            {"type": "simserial", "name": "sim"},
            {"type": "text", "name": "skipped", "label": "S", "disabled": "yes"},
            {"type": "end group"},
        ], order=["type", "name", "label", "disabled", "remark"]),
        "choices": (["list_name", "name", "label"], [["l1", "a", "A"], ["l1", "b", None], ["l1", "a", "A again"],
                                                      ["l2", "x", None], ["l1", "c", "C"]]),
        "settings": (["allow_choice_duplicates"], [["yes"]]),
    })
    f["external"] = WB({
        "survey": _sheet([
            {"type": "select_one states", "name": "state", "label": "State"},
            {"type": "select_one_external cities", "name": "city", "label": "City", "choice_filter": "state=${state}"},
            {"type": "select_one_from_file f.csv", "name": "ff", "label": "From file"},
        ]),
        "choices": (["list_name", "name", "label"], [["states", "1", "One"], ["states", "2", "Two"]]),
        "external_choices": (["list_name", "name", "label", "state"], [["cities", "11", "C11", "1"], ["cities", "21", "C21", "2"]]),
        "settings": (["form_id"], [["ext"]]),
    })
    f["entities"] = WB({
        "survey": (["type", "name", "label", "save_to"], [["text", "tree", "Tree", "species"], ["integer", "h", "Height", None]]),
        "entities": (["list_name", "label"], [["trees", "${tree}"]]),
        "settings": (["form_id", "version"], [["ent", "3"]]),
    })
    f["sheets_mixed"] = WB({
        "Settings": (["Form_ID", "form title"], [["mixed", "Mixed"]]),
        "notes": (["x"], [["free text"]]),
        "CHOICES": (["List Name", "Name", "Label"], [["l1", "a", "A"], ["l1", "b", "B"]]),
        "Survey": (["Type", "Name", "Label", "Relevance"], [["select1 l1", "s", "S", None], ["int", "i", "I", "${s} = ‘a’"],
                                                              ["photo", "p", "P", None]]),
    })
    f["logic_alias"] = WB({
        "survey": _sheet([
            {"type": "string", "name": "a", "caption": "A", "bind::required": "Yes"},
            {"type": "int", "name": "b", "caption": "B", "relevance": "${a} = \"go\"", "calculate": "1 + 1",
             "read only": "true", "bind::jr:constraintMsg": "no", "bind::constraint": ". < 5"},
            {"type": "select all that apply l1", "name": "m", "caption": "M", "media::audio": "m.mp3",
             "required message": "pick", "bind::required": "true()"},
            {"type": "begin_repeat", "name": "r", "caption": "R", "repeat count": "2"},
            {"type": "photo", "name": "p", "caption": "P", "parameters": "max-pixels=100"},
            {"type": "end_repeat"},
        ]),
        "choices": (["list name", "name", "caption", "media::image"], [["l1", "a", "A", "a.png"], ["l1", "b", "B", None]]),
        "settings": (["id_string", "form_title"], [["logic", "Logic"]]),
    })
    return f


def _tiny_forms() -> dict[str, WB]:
    """Small-scope family: one question type per form x image/photo, with the columns the type reacts to."""
    out = {}
    types = ["text", "string", "integer", "int", "image", "photo", "select_one l1", "select one l1", "select1 l1",
             "select_multiple l1", "select all that apply l1", "note", "audio", "range", "select_one l1 or_other"]
    for i, t in enumerate(types):
        rows = [{"type": t, "name": "q", "label": "Q"}]
        if t in ("image", "photo"):
            rows.append({"type": t, "name": "q2", "label": "Q2", "parameters": "max-pixels=320", "default": "d.png"})
        if t in ("text", "string"):
            rows.append({"type": t, "name": "q2", "label": "Q2", "parameters": "rows=2"})
        if i % 2:
            rows = [{"type": "begin group", "name": "g", "label": "G"}, *rows, {"type": "end group"}]
        wb = WB({"survey": _sheet(rows)})
        if "l1" in t:
            wb["choices"] = (list(CH[0]), [list(r) for r in CH[1]])
        out[f"tiny{i:02d}_{norm_name(t)}"] = wb
    return out


def cases(tier: str, seed: int) -> list[Case]:
    out = []
    for name, wb in {**family(), **_tiny_forms()}.items():
        out.append(Case(f"C13-{name}", wb=wb, origin="C13-family", tags={"c13-full"}))
    # generated forms of the shared grammar, every one with the exhaustive single-site treatment (capped in quick)
    n = 20 if tier == "quick" else 120
    for c in corpus.generated(seed + 1313, n, "mixed"):
        out.append(Case("C13-half-" + c.name, wb=c.wb, origin="C13-generated", tags={"c13-half"}))
    for c in corpus.generated(seed + 1314, n // 2, "lang"):
        out.append(Case("C13-lang-" + c.name, wb=c.wb, origin="C13-generated", tags={"c13-half"}))
    return out
