"""C18 (bounded e2e): validator verdicts are honoured and failures leave no residue.

Property (properties.jsonl, C18), clause by clause, and what the oracle demands for each:

 R  validation requested + validator rejects (exit status > 0, arbitrary stderr):
      library: convert(validate=True) raises the library's validation error (ODKValidateError);
      its message carries every diagnostic line the validator printed, with each instance path shown
      as ${<last path segment>}, and contains no Java stack frames ("\\tat pkg.Class.m(File.java:NN)");
      CLI --json: response code 999 (and the same demands on the message), no XForm written to the output
      path (absent, or a pre-existing file left byte-identical);
      CLI plain: an error is logged, no success is announced, the output file does not exist afterwards
      (also when it existed before).
 A  validation requested + validator accepts (exit 0): the conversion succeeds; every stderr line of
      the validator is surfaced in the warnings (library list / JSON "warnings" / plain-mode log);
      JSON code is 101 when there are warnings, else 100; the file written is byte-identical to the
      library result for the same input (convert(path, pretty_print=<flag>)); itemsets.csv is written
      beside the output file, equal to the library's itemsets, when the form has external choices.
 S  validation not requested (--skip_validate, also combined with --odk_validate; convert(validate=False)):
      there is no verdict; the result is as in A with a silent validator whatever the `java` on PATH does
      (or if there is none).
 T  every outcome (accept, accept with stderr, reject, validator killed by a signal, Java missing,
      conversion error): the private TMPDIR is empty after the call, nothing is left in the working
      directory, nothing besides the XForm / itemsets.csv appears in the output directory, and the file
      that was handed to the validator no longer exists.

`java` is a scripted stand-in (a /bin/sh script in a private directory that is the only PATH entry):
it logs its last argument, prints scripted stdout/stderr and exits with a scripted status or kills
itself. The diagnostics quote instance paths taken from the form (bind nodesets). Expected messages are
computed from the scripted text by this oracle, never with pyxform's ErrorCleaner.

Library scenarios run in-process in check() (once per case: all validator behaviours); CLI scenarios run
`python -m pyxform.xls2xform` in subprocesses from check_global() (private sandbox each, in parallel).
"""
from __future__ import annotations

import json
import os
import random
import re
import shutil
import subprocess
import sys
import tempfile
from concurrent.futures import ThreadPoolExecutor
from dataclasses import dataclass, field

from bounded import corpus
from bounded.corpus import Case, Result, WB

USES_DEFAULT_CORPUS = False
TIME_BUDGET_S = {"quick": 60, "thorough": 900}
N_GENERIC = {"quick": 40, "thorough": 400}
N_CLI_EXTRA = {"quick": 60, "thorough": 1200}

REJECT_CODES = [1, 2, 3, 64, 137, 255]


# ----------------------------------------------------------------------------- validator behaviours


@dataclass
class Behaviour:
    name: str
    kind: str  # accept | accept-stderr | reject | killed | absent
    rc: int = 0
    sig: int = 0
    stderr: str = ""
    stdout: str = ""
    demanded: list = field(default_factory=list)  # substrings the error message / warnings must carry
    paths: list = field(default_factory=list)  # raw instance paths quoted in stderr
    shape: str = "plain"


STDOUT_NOISE = ("Picked up JAVA_TOOL_OPTIONS: -Xmx64m\n[main] INFO org.javarosa.xform.parse.XFormParser - "
                "Parsing form...\n\n>> Xform parsing completed! See above for any warnings.\n\n")
WARN_STDERR = ("WARNING: An illegal reflective access operation has occurred\n"
               "WARNING: Please consider reporting this to the maintainers of org.kxml2.io.KXmlParser\n"
               "XForm Parse Warning: Warning: 2 Unrecognized attributes found in Element bind and will be ignored: [esri:fieldType, esri:fieldLength]\n")
STACK = ["\tat org.javarosa.xform.parse.XFormParser.parse(XFormParser.java:301)",
         "\tat org.javarosa.xform.parse.XFormParser.parseDoc(XFormParser.java:544)",
         "\tat org.opendatakit.validate.FormValidator.validate(FormValidator.java:120)",
         "\tat org.opendatakit.validate.FormValidator.main(FormValidator.java:77)"]
RE_STACK = re.compile(r"^\s+at\s+[\w.$<>]+\([^()\n]*\.java:\d+\)\s*$", re.M)

# (noise prefix that may or may not be kept, diagnostic body that must be carried) ; None = stack block ;
# ("neutral", text) = may stay or go. {P} target leaf, {Q} other leaf, {G} container (or leaf), {N} target name.
TEMPLATES = {
    "calc": [
        ("org.javarosa.xform.parse.XFormParseException: ", "Invalid calculate for the bind attached to \"{P}\" : cannot handle function 'nope'. Well-formedness problem near {P}"),
        None,
        ("", ">> Something broke the parser. See above for a hint."),
        ("", "Problem found at nodeset: {P}"),
        ("", "Result: Invalid"),
    ],
    "constraint": [
        ("Exception in thread \"main\" java.lang.RuntimeException: ", "Error evaluating field '{N}' ({P}): The problem was located in Constraint expression for {P}"),
        ("", "XPath evaluation: type mismatch: cannot compare {Q} with {G}"),
        ("", "XPath evaluation: type mismatch: cannot compare {Q} with {G}"),
        None,
        ("neutral", "Caused by: org.javarosa.xpath.XPathTypeMismatchException: type mismatch at {Q}"),
        None,
        ("neutral", "\t... 8 more"),
        ("", "Dependency cycles amongst the xpath expressions in relevant/calculate: {Q}, {P}, {Q}"),
        ("", "Result: Invalid"),
    ],
    "nopaths": [
        ("", "Error: A JNI error has occurred, please check your installation and try again"),
        ("", "java.lang.OutOfMemoryError: Java heap space"),
        None,
    ],
    "corruptjar": [
        ("", "Error: Invalid or corrupt jarfile"),
    ],
    "empty": [],
}


def _shape_of(path: str) -> str:
    segs = [s for s in path.split("/") if s]
    if any(ord(ch) > 127 for s in segs for ch in s):
        return "nonascii"
    if any("." in s for s in segs):
        return "dot"
    if path.endswith("/item/value") or path.startswith(("/root/item", "/html/body", "/html/head/model/bind")):
        return "reserved-words"
    if any("-" in s for s in segs):
        return "hyphen"
    return "plain"


_SHAPE_RANK = ["plain", "hyphen", "reserved-words", "dot", "nonascii"]


def _tok(path: str) -> str:
    return "${" + path.rsplit("/", 1)[-1] + "}"


def make_reject(name: str, rc: int, template: str, paths: dict) -> Behaviour:
    """paths: {"P":..., "Q":..., "G":...} raw instance paths of the form."""
    raw = dict(paths, N=paths["P"].rsplit("/", 1)[-1])
    tok = {k: _tok(v) for k, v in paths.items()}
    tok["N"] = raw["N"]
    lines, demanded = [], []
    for item in TEMPLATES[template]:
        if item is None:
            lines.extend(STACK)
            continue
        prefix, body = item
        if prefix == "neutral":
            lines.append(body.format(**raw))
            continue
        lines.append(prefix + body.format(**raw))
        demanded.append(body.format(**tok))
    if template == "corruptjar":
        lines[0] += " /opt/pyxform/validators/odk_validate/bin/ODK_Validate.jar"
    used = [v for k, v in paths.items() if template in ("calc", "constraint") and ("{" + k + "}") in str(TEMPLATES[template])]
    shape = max((_shape_of(p) for p in used), key=_SHAPE_RANK.index, default="plain")
    return Behaviour(name, "reject", rc=rc, stderr="\n".join(lines) + ("\n" if lines else ""), stdout=STDOUT_NOISE,
                     demanded=demanded, paths=sorted(set(used)), shape=shape)


def behaviours(paths: dict) -> list[Behaviour]:
    out = [
        Behaviour("accept-silent", "accept"),
        Behaviour("accept-stdout-noise", "accept", stdout=STDOUT_NOISE),
        Behaviour("accept-stderr", "accept-stderr", stderr=WARN_STDERR, stdout=STDOUT_NOISE,
                  demanded=[ln for ln in WARN_STDERR.splitlines() if ln]),
    ]
    tpls = ["calc", "constraint", "nopaths", "calc", "constraint", "nopaths"]
    for rc, tpl in zip(REJECT_CODES, tpls):
        out.append(make_reject(f"reject-rc{rc}-{tpl}", rc, tpl, paths))
    out.append(make_reject("reject-rc1-constraint", 1, "constraint", paths))
    out.append(make_reject("reject-rc2-calc", 2, "calc", paths))
    out.append(make_reject("reject-rc1-corruptjar", 1, "corruptjar", paths))
    out.append(make_reject("reject-rc1-empty-stderr", 1, "empty", paths))
    out.append(make_reject("reject-rc255-empty-stderr", 255, "empty", paths))
    out.append(Behaviour("killed-9", "killed", sig=9, stderr="partial output before the kill\n"))
    out.append(Behaviour("killed-15", "killed", sig=15))
    out.append(Behaviour("java-absent", "absent"))
    return out


def _sq(s: str) -> str:
    return "'" + s.replace("'", "'\\''") + "'"


def install_java(bin_dir: str, beh: Behaviour, invoked_log: str):
    path = os.path.join(bin_dir, "java")
    if os.path.exists(path):
        os.unlink(path)
    if beh.kind == "absent":
        return
    end = f"kill -{beh.sig} $$\n" if beh.kind == "killed" else f"exit {beh.rc}\n"
    script = ("#!/bin/sh\n"
              'last=""\nfor a in "$@"; do last="$a"; done\n'
              f"printf '%s\\n' \"$last\" >> {_sq(invoked_log)}\n"
              f"printf '%s' {_sq(beh.stdout)}\n"
              f"printf '%s' {_sq(beh.stderr)} >&2\n" + end)
    with open(path, "w", encoding="utf-8") as f:
        f.write(script)
    os.chmod(path, 0o755)


# ----------------------------------------------------------------------------- forms


def _form(group_names, q1, q2, root=None, repeat=False, extra_rows=()):
    """text q1 + calculate q2 nested in the given groups (outermost first)."""
    headers = ["type", "name", "label", "calculation"]
    rows = []
    for i, g in enumerate(group_names):
        rows.append([("begin repeat" if repeat and i == 0 else "begin group"), g, f"G{i}", None])
    rows.append(["integer", q1, "Age?", None])
    rows.append(["calculate", q2, None, "${%s} + 1" % q1])
    rows.extend(extra_rows)
    for i, g in reversed(list(enumerate(group_names))):
        rows.append([("end repeat" if repeat and i == 0 else "end group"), None, None, None])
    wb = WB()
    wb["survey"] = (headers, rows)
    if root:
        wb["settings"] = (["name", "form_id"], [[root, "fid"]])
    return wb


# (tag, groups, q1, q2, root)
NAME_SHAPES = [
    ("plain", ["hh_info"], "head_age", "age_calc", None),
    ("plain-top", [], "head_age", "age_calc", None),
    ("plain-deep", ["sec_a", "sub_1", "blk"], "q_1", "c_1", None),
    ("plain-mixedcase", ["Section4"], "Q1", "CalcTwo", None),
    ("plain-root", ["g"], "q", "c", "household_survey"),
    ("hyphen", ["hh-info"], "head-age", "age-calc", None),
    ("hyphen-top", [], "head-age", "age-calc", None),
    ("hyphen-last-only", ["Section4"], "Q1", "calc-2", None),
    ("hyphen-group-only", ["hh-info"], "age", "calc", None),
    ("hyphen-deep", ["a-b", "c-d-e", "f_g"], "q-1", "x-", None),
    ("hyphen-multi", ["s1"], "q1-2-3", "a-b-c-d", None),
    ("hyphen-underscore-mix", ["_g-1_"], "_q-1_", "c_-_d", None),
    ("hyphen-root", ["g"], "q", "c", "my-form"),
    ("hyphen-root-and-names", ["hh-info"], "head-age", "age-calc", "my-form-2"),
    ("hyphen-repeat", ["rep-1", "grp-2"], "q-q", "c-c", None),
    ("dot", ["hh.info"], "head.age", "age.calc", None),
    ("dot-last-only", ["g"], "q", "calc.v2", None),
    ("nonascii", ["ménage"], "âge", "calcul_é", None),
    ("nonascii-last-only", ["g"], "q", "año", None),
    ("reserved-item-value", ["item"], "q", "value", None),
]


def _shape_cases() -> list[Case]:
    out = []
    for tag, groups, q1, q2, root in NAME_SHAPES:
        wb = _form(groups, q1, q2, root=root, repeat="repeat" in tag)
        out.append(Case(f"names:{tag}", wb=wb, origin="C18", tags={"shape"}))
    return out


def _other_cases() -> list[Case]:
    out = []
    # form with pyxform's own warnings
    out.append(Case("warned-form", md="""
| survey |
|        | type | name | label::Klingon | hint |
|        | text | q1   | Q1             | h    |
|        | note | n-1  | N              |      |
""", origin="C18", tags={"warned"}))
    wb = WB()
    wb["survey"] = (["type", "name", "label", "choice_filter"], [
        ["text", "state", "State", None],
        ["select_one_external cities", "city-1", "City", "state=${state}"]])
    wb["choices"] = (["list_name", "name", "label"], [["states", "s1", "S1"]])
    wb["external_choices"] = (["list_name", "name", "label", "state"], [
        ["cities", "c1", "C 1, \"q\"", "s1"], ["cities", "c2", "C2", "s1"]])
    out.append(Case("external-choices", wb=wb, origin="C18", tags={"itemsets"}))
    out.append(Case("invalid:unmatched-end", md="""
| survey |
|        | type      | name | label |
|        | text      | q1   | Q     |
|        | end group |      |       |
""", origin="C18", tags={"invalid"}))
    out.append(Case("invalid:unknown-ref-at-generation", md="""
| survey |
|        | type | name | label       |
|        | text | q-1  | Q ${nope}   |
""", origin="C18", tags={"invalid"}))
    out.append(Case("invalid:no-survey-sheet", md="""
| choices |
|         | list_name | name | label |
|         | l1        | a    | A     |
""", origin="C18", tags={"invalid"}))
    return out


def cases(tier: str, seed: int) -> list[Case]:
    out = _shape_cases() + _other_cases()
    gen = corpus.generated(seed + 18, N_GENERIC[tier])
    for c in gen:
        c.tags = set(c.tags) | {"generic"}
    return out + gen


def _paths_of(res: Result) -> dict | None:
    """Instance paths a validator could quote: the bind nodesets of the XForm it is given."""
    xf, err = corpus.parse_ok(res.xform)
    if xf is None:
        return None
    nodesets = [b.get("nodeset") for b in xf.binds() if b.get("nodeset", "").count("/") >= 2]
    nodesets = [p for p in nodesets if "/meta/" not in p] or nodesets
    if not nodesets:
        return None
    all_paths = set(nodesets)
    leaves = sorted(nodesets, key=lambda p: (-p.count("/"), p))
    P = leaves[0]
    Q = next((p for p in leaves[1:] if p != P), P)
    parent = P.rsplit("/", 1)[0]
    G = parent if parent.count("/") >= 2 else Q
    del all_paths
    return {"P": P, "Q": Q, "G": G}


# ----------------------------------------------------------------------------- message / warning checks


def check_reject_message(msg: str, beh: Behaviour, where: str) -> list[dict]:
    out = []
    msg = msg or ""
    lost = [d for d in beh.demanded if d not in msg]
    if lost:
        out.append({"key": f"C18:reject:message:diagnostic-lost:{beh.shape}",
                    "what": f"[{where}; {beh.name}] validator diagnostic line not carried by the error (paths as ${{name}}): expected {lost[0]!r} in {msg!r}"})
    raw = [p for p in beh.paths if re.search(re.escape(p) + r"(?![\w\-./])", msg)]
    if raw:
        out.append({"key": f"C18:reject:message:raw-path:{beh.shape}",
                    "what": f"[{where}; {beh.name}] raw instance path {raw[0]!r} left in the error message {msg!r}"})
    m = RE_STACK.search(msg)
    if m:
        out.append({"key": "C18:reject:message:stack-noise",
                    "what": f"[{where}; {beh.name}] Java stack frame left in the error message: {m.group(0)!r}"})
    return out


def _residue(listing_before, listing_after, what, outcome, label):
    extra = sorted(set(listing_after) - set(listing_before))
    if extra:
        return [{"key": f"C18:residue:{what}:{outcome}", "what": f"[{label}] files left behind in {what}: {extra[:5]}"}]
    return []


# ----------------------------------------------------------------------------- library scenarios (check)


class _LibSandbox:
    def __init__(self):
        self.root = tempfile.mkdtemp(prefix="c18lib_")
        self.bin = os.path.join(self.root, "bin")
        self.tmp = os.path.join(self.root, "tmp")
        self.cwd = os.path.join(self.root, "cwd")
        for d in (self.bin, self.tmp, self.cwd):
            os.mkdir(d)
        self.log = os.path.join(self.root, "invoked.log")

    def __enter__(self):
        self.saved = (os.environ.get("PATH"), os.environ.get("TMPDIR"), tempfile.tempdir, os.getcwd())
        os.environ["PATH"] = self.bin
        os.environ["TMPDIR"] = self.tmp
        tempfile.tempdir = self.tmp
        os.chdir(self.cwd)
        return self

    def __exit__(self, *exc):
        path, tmpdir, ttd, cwd = self.saved
        os.chdir(cwd)
        tempfile.tempdir = ttd
        for k, v in (("PATH", path), ("TMPDIR", tmpdir)):
            if v is None:
                os.environ.pop(k, None)
            else:
                os.environ[k] = v

    def invoked(self):
        if not os.path.exists(self.log):
            return []
        with open(self.log, encoding="utf-8") as f:
            lines = f.read().splitlines()
        os.unlink(self.log)
        return lines

    def close(self):
        shutil.rmtree(self.root, ignore_errors=True)


def _lib_sandbox(ctx) -> _LibSandbox:
    sb = ctx.get("C18_sandbox")
    if sb is None:
        sb = ctx["C18_sandbox"] = _LibSandbox()
        import atexit

        atexit.register(sb.close)
    return sb


def check(case: Case, res: Result, ctx: dict) -> list[dict]:
    from pyxform.validators.odk_validate import ODKValidateError

    out: list[dict] = []
    sb = _lib_sandbox(ctx)
    rnd = random.Random(f"{ctx.get('seed', 0)}:{case.name}")
    pretty = rnd.random() < 0.3
    if not res.ok:
        if res.internal_error:
            return out  # C17's business
        # conversion error with validation requested: only the no-residue clause applies
        with sb:
            for beh in (Behaviour("accept-silent", "accept"), Behaviour("java-absent", "absent")):
                install_java(sb.bin, beh, sb.log)
                r = corpus.convert_case(case, validate=True)
                sb.invoked()
                out += _residue([], os.listdir(sb.tmp), "tmpdir", "conversion-error", beh.name)
                out += _residue([], os.listdir(sb.cwd), "cwd", "conversion-error", beh.name)
                if r.ok:
                    out.append({"key": "C18:conversion-error:accepted-with-validate", "what": "form rejected without validation converts with validate=True"})
        return out
    paths = _paths_of(res)
    if paths is None:
        return out
    behs = behaviours(paths)
    if "generic" in case.tags:
        fixed = [b for b in behs if b.name in ("accept-stderr", "java-absent")]
        behs = fixed + rnd.sample([b for b in behs if b not in fixed], 5)
    base_warnings = [str(w) for w in (res.warnings or [])]
    with sb:
        for beh in behs:
            install_java(sb.bin, beh, sb.log)
            label = f"{beh.name}, convert(validate=True{', pretty_print=True' if pretty else ''})"
            r = corpus.convert_case(case, validate=True, pretty_print=pretty)
            handed = sb.invoked()
            tmp_left, cwd_left = os.listdir(sb.tmp), os.listdir(sb.cwd)
            out += _residue([], tmp_left, "tmpdir", beh.kind, label)
            out += _residue([], cwd_left, "cwd", beh.kind, label)
            for p in handed:
                if p and os.path.exists(p):
                    out.append({"key": f"C18:residue:validated-file:{beh.kind}", "what": f"[{label}] the file handed to the validator still exists: {p}"})
                    os.unlink(p)
            for d, names in ((sb.tmp, tmp_left), (sb.cwd, cwd_left)):
                for nme in names:
                    pth = os.path.join(d, nme)
                    shutil.rmtree(pth, ignore_errors=True) if os.path.isdir(pth) else os.unlink(pth)
            if beh.kind == "reject":
                if r.ok:
                    out.append({"key": "C18:reject:lib:not-raised", "what": f"[{label}] validator exit status {beh.rc} but conversion succeeded (warnings={r.warnings!r:.200})"})
                elif not isinstance(r.error, ODKValidateError):
                    out.append({"key": f"C18:reject:lib:wrong-error-type:{type(r.error).__name__}", "what": f"[{label}] expected the validation error, got {type(r.error).__name__}: {r.error!s:.200}"})
                else:
                    out += check_reject_message(str(r.error), beh, "library exception")
                if not handed:
                    out.append({"key": "C18:validator-not-run", "what": f"[{label}] validation requested but java was never started"})
            elif beh.kind in ("accept", "accept-stderr"):
                if not r.ok:
                    out.append({"key": f"C18:accept:lib:raised:{type(r.error).__name__}", "what": f"[{label}] validator accepted (exit 0) but conversion failed: {r.error!s:.200}"})
                    continue
                ws = [str(w) for w in r.warnings]
                joined = "\n".join(ws)
                missing = [d for d in beh.demanded if d not in joined]
                if missing:
                    out.append({"key": "C18:accept:lib:stderr-not-in-warnings", "what": f"[{label}] validator stderr line {missing[0]!r} not surfaced in warnings {ws!r:.300}"})
                if beh.kind == "accept" and ws != base_warnings:
                    out.append({"key": "C18:accept:lib:warnings-changed-by-silent-validator", "what": f"[{label}] validator printed nothing on stderr but warnings are {ws!r:.300} instead of {base_warnings!r:.300}"})
                if beh.kind == "accept-stderr" and len(ws) <= len(base_warnings):
                    out.append({"key": "C18:accept:lib:stderr-not-in-warnings", "what": f"[{label}] no warning added for validator stderr: {ws!r:.300}"})
                if not pretty and r.xform != res.xform:
                    out.append({"key": "C18:accept:lib:xform-changed-by-validation", "what": f"[{label}] XForm differs from convert(validate=False)"})
            # killed / absent: only the no-residue clause (above)
        # validation not requested: java must not matter
        for beh in (behs[3], Behaviour("java-absent", "absent")):
            install_java(sb.bin, beh, sb.log)
            r = corpus.convert_case(case, validate=False)
            sb.invoked()
            out += _residue([], os.listdir(sb.tmp), "tmpdir", "not-requested", beh.name)
            if not r.ok or r.xform != res.xform or [str(w) for w in r.warnings] != base_warnings:
                out.append({"key": "C18:not-requested:lib:outcome-depends-on-java", "what": f"[{beh.name}] convert(validate=False) differs with this java on PATH: {r.error!r:.200}"})
    return out


# ----------------------------------------------------------------------------- CLI scenarios (check_global)

MODES = {
    # name: (flags, validation requested, json)
    "default": ([], True, False),
    "json": (["--json"], True, True),
    "odk_validate": (["--odk_validate"], True, False),
    "odk_validate+json": (["--odk_validate", "--json"], True, True),
    "skip_validate": (["--skip_validate"], False, False),
    "skip_validate+json": (["--skip_validate", "--json"], False, True),
    "odk_validate+skip_validate+json": (["--odk_validate", "--skip_validate", "--json"], False, True),
}


@dataclass
class CliForm:
    name: str
    filename: str
    content: bytes
    valid: bool
    paths: dict | None
    ref: dict = field(default_factory=dict)  # pretty(bool) -> Result of the library on the same file


@dataclass
class Scenario:
    k: int
    form: CliForm
    mode: str
    beh: Behaviour
    preexisting: bool
    pretty: bool
    out_omitted: bool
    obs: dict = field(default_factory=dict)

    @property
    def label(self):
        return (f"{self.form.name} | {self.mode}{' --pretty_print' if self.pretty else ''} | java: {self.beh.name} | "
                f"output {'pre-existing' if self.preexisting else 'absent'}{', path omitted' if self.out_omitted else ''}")


def _cli_forms(work: str) -> list[CliForm]:
    forms = []

    def add(name, filename, content, valid):
        forms.append(CliForm(name, filename, content, valid, None))

    md = corpus.wb_to_md
    add("hyphen-md", "my-form.md", md(_form(["hh-info"], "head-age", "age-calc")).encode(), True)
    add("plain-root-xlsx", "survey_a.xlsx", corpus.wb_to_xlsx(_form(["sec_a", "sub_1"], "q_1", "c_1", root="household")), True)
    oc = {c.name: c for c in _other_cases()}
    add("warned-md", "warned.md", oc["warned-form"].md.encode(), True)
    add("external-choices-xlsx", "ext choices.xlsx", corpus.wb_to_xlsx(oc["external-choices"].wb), True)
    add("external-choices-md", "ext-md.md", md(oc["external-choices"].wb).encode(), True)
    add("invalid-parse-md", "bad-1.md", oc["invalid:unmatched-end"].md.encode(), False)
    add("invalid-generation-md", "bad-2.md", oc["invalid:unknown-ref-at-generation"].md.encode(), False)
    add("invalid-garbage-xlsx", "garbage.xlsx", b"PK\x03\x04 this is not a workbook", False)
    add("dot-md", "dotted.md", md(_form(["hh.info"], "head.age", "age.calc")).encode(), True)
    refs = os.path.join(work, "refs")
    os.mkdir(refs)
    from pyxform.xls2xform import convert

    for f in forms:
        p = os.path.join(refs, f.filename)
        with open(p, "wb") as fh:
            fh.write(f.content)
        for pretty in (False, True):
            try:
                r = convert(xlsform=p, validate=False, pretty_print=pretty)
                f.ref[pretty] = Result(True, r.xform, [str(w) for w in r.warnings], r.itemsets)
            except Exception as e:  # noqa: BLE001
                f.ref[pretty] = Result(False, error=e)
        if f.valid != f.ref[False].ok:
            raise RuntimeError(f"C18: CLI form {f.name} validity mismatch: {f.ref[False].error}")
        if f.valid:
            f.paths = _paths_of(f.ref[False])
    return forms


def _plan(tier: str, seed: int, forms: list[CliForm]) -> list[Scenario]:
    rnd = random.Random(seed * 7 + 18)
    plan = []
    dummy = {"P": "/data/g/q", "Q": "/data/g/q", "G": "/data/g"}

    def behs_for(f):
        return behaviours(f.paths or dummy)

    def add(f, mode, beh, pre, pretty=False, omitted=False):
        plan.append(Scenario(len(plan), f, mode, beh, pre, pretty, omitted))

    core = forms[0]
    if tier == "quick":
        for beh in behs_for(core):
            for mode in ("default", "json"):
                for pre in (False, True):
                    add(core, mode, beh, pre)
            for mode in ("odk_validate", "odk_validate+json", "skip_validate", "skip_validate+json", "odk_validate+skip_validate+json"):
                add(core, mode, beh, rnd.random() < 0.5, pretty=rnd.random() < 0.3)
        sel = {"accept-silent", "accept-stderr", "reject-rc1-constraint", "reject-rc137-calc", "reject-rc2-calc", "killed-9", "java-absent"}
        for f in forms[1:]:
            for beh in behs_for(f):
                if beh.name in sel:
                    for mode in ("default", "json"):
                        add(f, mode, beh, rnd.random() < 0.5, pretty=rnd.random() < 0.3, omitted=rnd.random() < 0.25)
        for _ in range(N_CLI_EXTRA[tier]):
            f = rnd.choice(forms)
            add(f, rnd.choice(list(MODES)), rnd.choice(behs_for(f)), rnd.random() < 0.5, rnd.random() < 0.5, rnd.random() < 0.3)
    else:
        for f in forms:
            for beh in behs_for(f):
                for mode in MODES:
                    for pre in (False, True):
                        add(f, mode, beh, pre, pretty=rnd.random() < 0.3, omitted=rnd.random() < 0.2)
    return plan


def _run_scenario(s: Scenario, work: str):
    root = os.path.join(work, f"s{s.k}")
    d = {n: os.path.join(root, n) for n in ("bin", "tmp", "cwd", "in", "out")}
    os.mkdir(root)
    for p in d.values():
        os.mkdir(p)
    log = os.path.join(root, "invoked.log")
    inp = os.path.join(d["in"], s.form.filename)
    with open(inp, "wb") as f:
        f.write(s.form.content)
    out_path = os.path.splitext(inp)[0] + ".xml" if s.out_omitted else os.path.join(d["out"], "result.xml")
    stale = f"STALE OUTPUT {s.k}\n"
    if s.preexisting:
        with open(out_path, "w", encoding="utf-8") as f:
            f.write(stale)
    install_java(d["bin"], s.beh, log)
    flags, _, _ = MODES[s.mode]
    argv = [sys.executable, "-m", "pyxform.xls2xform", inp] + ([] if s.out_omitted else [out_path]) + flags + (["--pretty_print"] if s.pretty else [])
    env = {"PATH": d["bin"], "TMPDIR": d["tmp"], "PYTHONPATH": corpus.REPO, "PYTHONDONTWRITEBYTECODE": "1",
           "HOME": root, "LANG": "C.UTF-8", "PYTHONIOENCODING": "utf-8"}
    try:
        p = subprocess.run(argv, cwd=d["cwd"], env=env, capture_output=True, timeout=150)
        rc, so, se = p.returncode, p.stdout.decode("utf-8", "replace"), p.stderr.decode("utf-8", "replace")
    except subprocess.TimeoutExpired:
        rc, so, se = None, "", "TIMEOUT"

    def read(path):
        if not os.path.exists(path):
            return None
        with open(path, encoding="utf-8", newline="") as f:
            return f.read()

    out_dir = os.path.dirname(out_path)
    handed = []
    if os.path.exists(log):
        with open(log, encoding="utf-8") as f:
            handed = f.read().splitlines()
    s.obs = {"rc": rc, "stdout": so, "stderr": se, "out": read(out_path), "stale": stale,
             "itemsets": read(os.path.join(out_dir, "itemsets.csv")),
             "tmp": sorted(os.listdir(d["tmp"])), "cwd": sorted(os.listdir(d["cwd"])),
             "outdir": sorted(os.listdir(d["out"])), "indir": sorted(os.listdir(d["in"])),
             "handed": handed, "handed_alive": [h for h in handed if h and os.path.exists(h)],
             "out_name": os.path.basename(out_path)}
    shutil.rmtree(root, ignore_errors=True)
    return s


def _json_response(stderr: str):
    for line in reversed(stderr.splitlines()):
        line = line.strip()
        if line.startswith("{") and line.endswith("}"):
            try:
                d = json.loads(line)
            except ValueError:
                continue
            if isinstance(d, dict) and "code" in d:
                return d
    return None


def _evaluate(s: Scenario) -> list[dict]:
    o, beh, f = s.obs, s.beh, s.form
    flags, requested, is_json = MODES[s.mode]
    out: list[dict] = []
    L = s.label
    mode_kind = "cli-json" if is_json else "cli-plain"
    if o["rc"] is None:
        return [{"key": "C18:cli:timeout", "what": f"[{L}] the command line tool did not finish in 150 s"}]
    if not f.valid:
        outcome = "conversion-error"
    elif not requested:
        outcome = "not-requested"
    else:
        outcome = beh.kind
    ref = f.ref[s.pretty]
    resp = _json_response(o["stderr"]) if is_json else None

    # ---- T: no residue, under every outcome
    out += _residue([], o["tmp"], "tmpdir", outcome, L)
    out += _residue([], o["cwd"], "cwd", outcome, L)
    allowed_out = {"result.xml", "itemsets.csv"}
    out += _residue(allowed_out, o["outdir"], "output-dir", outcome, L)
    allowed_in = {f.filename} | ({o["out_name"], "itemsets.csv"} if s.out_omitted else set())
    out += _residue(allowed_in, o["indir"], "input-dir", outcome, L)
    if o["handed_alive"]:
        out.append({"key": f"C18:residue:validated-file:{outcome}", "what": f"[{L}] the file handed to the validator still exists: {o['handed_alive'][0]}"})
    if outcome in ("conversion-error", "killed", "absent"):
        return out

    accept_like = outcome in ("accept", "accept-stderr", "not-requested")
    if accept_like:
        want_stderr = beh.demanded if outcome == "accept-stderr" else []
        if o["out"] is None:
            out.append({"key": f"C18:{outcome}:{mode_kind}:file-missing", "what": f"[{L}] no XForm at the output path; stderr: {o['stderr'][-300:]!r}"})
        elif o["out"] != ref.xform:
            what = "still the stale pre-existing content" if o["out"] == o["stale"] else corpus_text_diff(ref.xform, o["out"])
            out.append({"key": f"C18:{outcome}:{mode_kind}:file-differs", "what": f"[{L}] file written differs from the library result: {what}"})
        if ref.itemsets is not None:
            if o["itemsets"] is None:
                out.append({"key": f"C18:{outcome}:{mode_kind}:itemsets-missing", "what": f"[{L}] form has external choices but no itemsets.csv beside the output file"})
            elif o["itemsets"] != ref.itemsets:
                out.append({"key": f"C18:{outcome}:{mode_kind}:itemsets-differs", "what": f"[{L}] itemsets.csv differs from the library's itemsets: {corpus_text_diff(ref.itemsets, o['itemsets'])}"})
        if is_json:
            if resp is None:
                out.append({"key": f"C18:{outcome}:cli-json:no-response", "what": f"[{L}] no JSON response on stderr: {o['stderr'][-300:]!r}"})
                return out
            ws = [str(w) for w in resp.get("warnings") or []]
            joined = "\n".join(ws)
            missing = [d for d in want_stderr if d not in joined]
            if missing:
                out.append({"key": f"C18:{outcome}:cli-json:stderr-not-in-warnings", "what": f"[{L}] validator stderr line {missing[0]!r} not in JSON warnings {ws!r:.300}"})
            expect_code = 101 if (want_stderr or ref.warnings) else 100
            if resp.get("code") != expect_code:
                out.append({"key": f"C18:{outcome}:cli-json:code", "what": f"[{L}] expected code {expect_code} ({len(ref.warnings)} form warnings, validator stderr {'present' if want_stderr else 'empty/not requested'}), got {resp!r:.300}"})
            if (resp.get("code") == 101) != bool(ws) and resp.get("code") in (100, 101):
                out.append({"key": f"C18:{outcome}:cli-json:code-vs-warnings", "what": f"[{L}] code {resp.get('code')} with warnings {ws!r:.200}"})
        else:
            missing = [d for d in want_stderr if d not in o["stderr"]]
            if missing:
                out.append({"key": f"C18:{outcome}:cli-plain:warnings-not-logged", "what": f"[{L}] validator stderr line {missing[0]!r} not logged as a warning; log: {o['stderr'][-300:]!r}"})
        return out

    # ---- R: reject
    assert outcome == "reject"
    if is_json:
        if resp is None:
            out.append({"key": "C18:reject:cli-json:no-response", "what": f"[{L}] no JSON response on stderr: {o['stderr'][-300:]!r}"})
        else:
            if resp.get("code") != 999:
                out.append({"key": "C18:reject:cli-json:code", "what": f"[{L}] validator exit status {beh.rc}: expected code 999, got {resp!r:.300}"})
            else:
                out += check_reject_message(str(resp.get("message") or ""), beh, "CLI --json message")
        if o["out"] is not None and not (s.preexisting and o["out"] == o["stale"]):
            out.append({"key": "C18:reject:cli-json:xform-written", "what": f"[{L}] something was written to the output path although the validator rejected: {o['out'][:80]!r}"})
    else:
        if o["out"] is not None:
            kind = "stale pre-existing file not removed" if o["out"] == o["stale"] else "an XForm was written"
            out.append({"key": "C18:reject:cli-plain:output-exists", "what": f"[{L}] output file exists after a rejection ({kind})"})
        if "Conversion complete" in o["stderr"] or not o["stderr"].strip():
            out.append({"key": "C18:reject:cli-plain:no-error-logged", "what": f"[{L}] no error logged / success announced: {o['stderr'][-300:]!r}"})
    if not o["handed"]:
        out.append({"key": "C18:validator-not-run", "what": f"[{L}] validation requested but java was never started"})
    return out


def corpus_text_diff(a: str, b: str) -> str:
    a, b = a or "", b or ""
    i = next((i for i, (x, y) in enumerate(zip(a, b)) if x != y), min(len(a), len(b)))
    return f"at char {i}: {a[max(0, i - 30):i + 50]!r} vs {b[max(0, i - 30):i + 50]!r}"


def check_global(tier: str, seed: int, ctx: dict):
    work = tempfile.mkdtemp(prefix="c18cli_")
    violations: list[dict] = []
    try:
        forms = _cli_forms(work)
        plan = _plan(tier, seed, forms)
        par = max(2, min(12, (os.cpu_count() or 4) - 2))
        with ThreadPoolExecutor(max_workers=par) as ex:
            done = list(ex.map(lambda s: _run_scenario(s, work), plan))
        for s in done:
            for v in _evaluate(s):
                v.setdefault("case", s.form.name)
                violations.append(v)
    finally:
        shutil.rmtree(work, ignore_errors=True)
        sb = ctx.pop("C18_sandbox", None)
        if sb is not None:
            sb.close()
    return violations, len(plan)
