"""C10 (bounded e2e): defaults and triggered calculations are applied exactly once.

Expectation, from the source workbook only (bounded.corpus.sv_* reader of the survey sheet) and the XLSForm /
ODK XForms conventions quoted in the property:

 defaults (rows with a `default` cell)
  * the cell is classified here, independently, and only when its spelling is unambiguous:
      static  - a number / negative number, an ISO date, time or dateTime, plain words (letters, digits, _ with inner
                - or .) separated by single blanks or , ; : ! ?, a blank separated list of numbers (geo literals);
      dynamic - the whole cell is one function call name(...), one ${ref}, or operands (numbers, ${ref}, calls)
                joined by ` + `, ` - `, ` * `, ` div `, ` mod `;
      anything else (and, for date / geo types, arithmetic whose first operator is a bare `-` after plain numbers)
      stays unclassified: then only "exactly once" is demanded (literal XOR setvalue), never which of the two.
  * static  => every copy of the question's instance node (the jr:template copy and the ordinary copy of every
               enclosing repeat) has exactly the literal as text, and no first-load setvalue targets the node;
  * dynamic => every copy of the node is empty and exactly one non-trigger setvalue in the whole document has
               ref = the node's absolute path; its value is the cell with ${ref}s substituted (any XPath ending in
               /ref is accepted - the right path is C03's business).  Outside repeats it is a child of <model> with
               event "odk-instance-first-load"; inside a repeat it sits in the body, its nearest <repeat> ancestor
               is the innermost enclosing repeat, its events are odk-instance-first-load and odk-new-repeat, and
               nothing for it is in the model;
  * rows without a default cell have an empty node and no first-load setvalue (the literal is "nowhere else").

 triggers (rows with a `trigger` cell naming one question ${q})
  * exactly one action with event "xforms-value-changed" and ref = the row's node path exists in the whole
    document; it is a <setvalue> (<odk:setgeopoint> for background-geopoint) nested inside q's body control (the
    control whose ref is q's node path); its value is the row's calculation with references substituted (no
    value attribute when the row has no calculation); the row's bind carries no `calculate`;
  * rows without a trigger are the target of no value-changed action;
  * a trigger cell that is not one plain reference, or that names a question without a body control (hidden,
    metadata...), is outside the stated pairing; only "the calculation is not silently lost" is demanded for it
    (own keys, see FINDINGS_C10.md).

Every setvalue / setgeopoint whose ref is a survey row's node must be accounted for by one of the two rules.
Nothing is computed with pyxform.
"""
from __future__ import annotations

import itertools
import random
import re

from bounded import corpus
from bounded.corpus import Case, Result, WB, XForm

USES_DEFAULT_CORPUS = True
N_GENERATED = {"quick": 150, "thorough": 1500}
TIME_BUDGET_S = {"quick": 90, "thorough": 1200}

XF = corpus.XF
ODK = "{http://www.opendatakit.org/xforms}"
JR = "{http://openrosa.org/javarosa}"
GEO_DATE_TYPES = {"date", "dateTime", "datetime", "geopoint", "geotrace", "geoshape"}
IMAGE_TYPES = {"image", "photo"}
FIRST_LOAD, NEW_REPEAT, VALUE_CHANGED = "odk-instance-first-load", "odk-new-repeat", "xforms-value-changed"


def V(key, what):
    return {"key": f"C10:{key}", "what": what}


# ----------------------------------------------------------------------------- independent classification

NUM = r"-?\d+(?:\.\d+)?"
RE_NUM = re.compile(rf"^{NUM}$")
RE_DATE = re.compile(r"^\d{4}-\d{2}-\d{2}$")
RE_TIME = re.compile(r"^\d{2}:\d{2}:\d{2}(?:\.\d+)?(?:Z|[+-]\d{2}:\d{2})?$")
RE_DATETIME = re.compile(r"^\d{4}-\d{2}-\d{2}T\d{2}:\d{2}:\d{2}(?:\.\d+)?(?:Z|[+-]\d{2}:\d{2})?$")
RE_NUMLIST = re.compile(rf"^{NUM}(?:;? {NUM})*;?$")
RE_REF = re.compile(r"^\$\{(?:last-saved#)?[A-Za-z_][A-Za-z0-9_.\-]*\}$")
RE_FUNC_HEAD = re.compile(r"^[A-Za-z_][A-Za-z0-9_.\-]*(?::[A-Za-z_][A-Za-z0-9_.\-]*)?\($")
XPATH_WORDS = {"div", "mod", "and", "or"}


def _is_word(w: str) -> bool:
    """letters/digits/_ with single inner '-' or '.'; starts with a letter or _ (so never a number or operator)."""
    if not w or not (w[0].isalpha() or w[0] == "_"):
        return False
    prev_sep = False
    for ch in w:
        if ch.isalnum() or ch == "_":
            prev_sep = False
        elif ch in "-." and not prev_sep:
            prev_sep = True
        else:
            return False
    return not prev_sep


def _split_operands(text: str):
    """Split `a op b op c` at top level (outside quotes and parentheses) on ' + ', ' - ', ' * ', ' div ', ' mod '.
    Returns (operands, operators) or None when quotes / parentheses do not balance."""
    ops_found, operands = [], []
    depth, quote, start, i = 0, None, 0, 0
    while i < len(text):
        ch = text[i]
        if quote:
            if ch == quote:
                quote = None
        elif ch in "'\"":
            quote = ch
        elif ch == "(":
            depth += 1
        elif ch == ")":
            depth -= 1
            if depth < 0:
                return None
        elif depth == 0 and ch == " ":
            for op in (" + ", " - ", " * ", " div ", " mod "):
                if text.startswith(op, i):
                    operands.append(text[start:i])
                    ops_found.append(op.strip())
                    i += len(op) - 1
                    start = i + 1
                    break
        i += 1
    if quote or depth:
        return None
    operands.append(text[start:])
    return operands, ops_found


def _is_call(text: str) -> bool:
    """name( ... ) where the opening parenthesis after the name closes at the very last character."""
    m = re.match(r"^[A-Za-z_][A-Za-z0-9_.\-]*(?::[A-Za-z_][A-Za-z0-9_.\-]*)?\(", text)
    if not m or not text.endswith(")"):
        return False
    depth, quote = 0, None
    for i in range(m.end() - 1, len(text)):
        ch = text[i]
        if quote:
            if ch == quote:
                quote = None
        elif ch in "'\"":
            quote = ch
        elif ch == "(":
            depth += 1
        elif ch == ")":
            depth -= 1
            if depth == 0:
                return i == len(text) - 1
    return False


def classify(text: str, qtype: str | None):
    """'static' | 'dynamic' | None (spelling not unambiguous: nothing is demanded about the class)."""
    t = text
    if RE_NUM.match(t) or RE_DATE.match(t) or RE_TIME.match(t) or RE_DATETIME.match(t):
        return "static"
    if RE_NUMLIST.match(t):
        # "1 -2" may be read as a subtraction unless the type makes it a coordinate list
        return "static" if (qtype in GEO_DATE_TYPES or " -" not in t) else None
    if RE_REF.match(t) or _is_call(t):
        return "dynamic"
    sp = _split_operands(t)
    if sp is not None and sp[1]:
        operands, ops = sp
        kinds = []
        for o in operands:
            if RE_NUM.match(o):
                kinds.append("n")
            elif RE_REF.match(o) or _is_call(o):
                kinds.append("x")
            else:
                return None
        if qtype in GEO_DATE_TYPES:
            # "2020 - 01", "1 - 2": a hyphen between plain numbers may be a literal for these types
            for k, op in zip(kinds, ops):
                if k == "x" or op != "-":
                    break
                return None
        return "dynamic"
    # plain text: words / numbers separated by single blanks, light punctuation glued to the end of a word
    toks = t.split(" ")
    if all(toks):
        ok = True
        for tok in toks:
            core = tok.rstrip(",;:!?")
            if len(tok) - len(core) > 1:
                ok = False
            elif RE_NUM.match(core):
                continue
            elif not _is_word(core) or core in XPATH_WORDS:
                ok = False
            if not ok:
                break
        if ok:
            return "static"
    return None


# ----------------------------------------------------------------------------- reading the XForm


class Doc:
    def __init__(self, x: XForm):
        self.x = x
        self.parent = {c: p for p in x.root.iter() for c in p}
        self.nodes = x.instance_paths()
        self.actions = []          # dicts: el, tag, ref, event, value, in_model, repeat (nodeset of nearest repeat), controls
        for e in x.root.iter():
            tag = XForm.local(e.tag)
            if tag not in ("setvalue", "setgeopoint"):
                continue
            anc, p = [], self.parent.get(e)
            while p is not None:
                anc.append(p)
                p = self.parent.get(p)
            in_body = x.body is not None and x.body in anc
            rep = next((a.get("nodeset") for a in anc if XForm.local(a.tag) == "repeat"), None)
            ctrl_refs = [a.get("ref") for a in anc if a.get("ref") is not None and XForm.local(a.tag) != "repeat"]
            self.actions.append({"el": e, "tag": tag, "ref": e.get("ref"), "event": e.get("event") or "",
                                 "value": e.get("value"), "in_model": bool(anc) and anc[0] is x.model, "in_body": in_body,
                                 "repeat": rep, "parent_ref": anc[0].get("ref") if anc else None,
                                 "parent_tag": XForm.local(anc[0].tag) if anc else None, "ctrl_refs": ctrl_refs})
        self.binds = {}
        for b in x.binds():
            self.binds.setdefault(b.get("nodeset"), []).append(b)

    def where(self, a):
        if a["in_model"]:
            return "model"
        if a["in_body"]:
            return f"body (nearest repeat {a['repeat']}, parent <{a['parent_tag']} ref={a['parent_ref']}>)"
        return "elsewhere"


def _value_matches(cell: str, value: str | None) -> bool:
    if value is None:
        return False
    if "${" in cell:
        return bool(corpus.sv_ref_regex(cell).match(value))
    return value == cell


# ----------------------------------------------------------------------------- check

SKIP_TYPES = {"audit", "xml-external", "csv-external"}


def check(case: Case, res: Result, ctx: dict) -> list[dict]:
    if not res.ok or res.xform is None:
        return []
    wb = corpus.sv_case_wb(case)
    if wb is None:
        return []
    x, _ = corpus.parse_ok(res.xform)
    if x is None or x.iroot is None:
        return []
    try:
        rows = corpus.sv_survey_model(wb)
        settings = corpus.sv_settings_record(wb)
    except corpus.SvUnsupported:
        return []
    if any(str(k).strip().lower() in ("flat", "add_none_option") for k in settings):
        return []
    root = XForm.local(x.iroot.tag)
    doc = Doc(x)
    out = []

    live = [r for r in rows if r.kind in ("question", "group", "repeat")]
    by_path, by_name = {}, {}
    for r in live:
        p = "/" + "/".join((root, *r.path))
        if p in by_path:
            return []                      # duplicate sibling names: not this property's domain
        by_path[p] = r
        by_name.setdefault(r.name, []).append((p, r))

    def inner_repeat(r):
        """absolute path of the innermost enclosing repeat of a row, or None."""
        idx = [i for i, k in enumerate(r.parent_kinds) if k == "repeat"]
        if not idx:
            return None
        return "/" + "/".join((root, *r.parents[: idx[-1] + 1]))

    actions_by_ref = {}
    for a in doc.actions:
        actions_by_ref.setdefault(a["ref"], []).append(a)

    for p, r in by_path.items():
        if r.kind != "question":
            continue
        cells = r.cells
        default = corpus.sv_row_get(cells, "default")
        trigger = corpus.sv_row_get(cells, "trigger")
        calc = corpus.sv_row_get(cells, "bind", "calculate")
        acts = actions_by_ref.get(p, [])
        changed = [a for a in acts if VALUE_CHANGED in a["event"].split()]
        load = [a for a in acts if VALUE_CHANGED not in a["event"].split()]
        if r.raw_type == "start-geopoint":
            # the type itself is "capture a geopoint on first load": its own action, not a default
            load = [a for a in load if a["tag"] != "setgeopoint"]
        nodes = doc.nodes.get(p, [])
        desc = f"row {r.idx + 2} ({r.raw_type}) {p}"
        if r.raw_type in SKIP_TYPES or not nodes:
            continue
        texts = [(n.text or "") for n in nodes]
        leafs = all(len(n) == 0 for n in nodes)

        # ------------------------------------------------------------------ defaults
        if default is None:
            if leafs and any(t.strip() for t in texts):
                out.append(V("no-default:node-has-content", f"{desc}: no default cell, yet the instance node holds {texts!r}"))
            if load:
                out.append(V("no-default:first-load-setvalue",
                             f"{desc}: no default cell, yet {len(load)} action(s) target the node: "
                             f"{[(a['tag'], a['event'], a['value'], doc.where(a)) for a in load]}"))
        elif leafs:
            cls = classify(default, r.type or r.raw_type)
            literal_ok = [default]
            if (r.type or r.raw_type) in IMAGE_TYPES and "jr://images/" not in default:
                literal_ok.append("jr://images/" + default)       # XLSForm image default convention
            is_literal = all(t in literal_ok for t in texts)
            is_empty = all(t == "" for t in texts)
            show_acts = [(a["tag"], a["event"], a["value"], doc.where(a)) for a in load]
            if cls == "static":
                if not is_literal:
                    k = "static-default:node-empty" if is_empty else "static-default:node-text-differs"
                    if not is_empty and len(set(texts)) > 1:
                        k = "static-default:copies-disagree"
                    out.append(V(k, f"{desc}: static default {default!r} but the node copies hold {texts!r}"))
                if load:
                    out.append(V("static-default:also-setvalue", f"{desc}: static default {default!r} yet actions {show_acts}"))
            elif cls == "dynamic":
                if not is_empty:
                    out.append(V("dynamic-default:node-not-empty",
                                 f"{desc}: dynamic default {default!r} but the node copies hold {texts!r}"))
                if len(load) != 1:
                    out.append(V("dynamic-default:setvalue-count:" + ("none" if not load else "several"),
                                 f"{desc}: dynamic default {default!r}: expected exactly 1 setvalue, found {len(load)}: {show_acts}"))
            else:
                if not ((is_literal and not load) or (is_empty and len(load) == 1)):
                    out.append(V("default:not-exactly-once",
                                 f"{desc}: default {default!r}: node copies {texts!r}, actions {show_acts} "
                                 f"(wanted the literal XOR one setvalue)"))
            if len(load) == 1 and cls != "static" and (cls == "dynamic" or is_empty):
                a = load[0]
                rep = inner_repeat(r)
                if a["tag"] != "setvalue":
                    out.append(V("dynamic-default:wrong-action", f"{desc}: dynamic default emitted as <{a['tag']}>"))
                if not _value_matches(default, a["value"]):
                    val = a["value"] or ""
                    k = "dynamic-default:wrong-value"
                    if val.startswith("jr://images/") and _value_matches(default, val[len("jr://images/"):]):
                        k += ":image-prefix-in-expression"
                    out.append(V(k, f"{desc}: default {default!r} but setvalue value={a['value']!r}"))
                ev = a["event"].split()
                if rep is None:
                    if not a["in_model"]:
                        out.append(V("dynamic-default:outside-repeat:not-in-model",
                                     f"{desc}: setvalue is in {doc.where(a)}, expected a child of <model>"))
                    if ev != [FIRST_LOAD]:
                        out.append(V("dynamic-default:outside-repeat:wrong-event", f"{desc}: event={a['event']!r}"))
                else:
                    if a["in_model"] or not a["in_body"]:
                        out.append(V("dynamic-default:in-repeat:not-in-body",
                                     f"{desc}: setvalue is in {doc.where(a)}, expected inside <repeat nodeset={rep}>"))
                    elif a["repeat"] != rep:
                        out.append(V("dynamic-default:in-repeat:wrong-repeat",
                                     f"{desc}: setvalue is in {doc.where(a)}, expected inside <repeat nodeset={rep}>"))
                    if sorted(ev) != sorted([FIRST_LOAD, NEW_REPEAT]):
                        out.append(V("dynamic-default:in-repeat:wrong-event", f"{desc}: event={a['event']!r}"))

        # ------------------------------------------------------------------ triggers
        if trigger is None:
            if changed:
                out.append(V("no-trigger:value-changed-action",
                             f"{desc}: no trigger cell, yet {[(a['tag'], a['value'], doc.where(a)) for a in changed]}"))
            continue
        m = re.fullmatch(r"\$\{\s*([^\s{}$#]+)\s*\}", trigger)
        lost = ((calc is not None or r.raw_type == "background-geopoint") and not acts
                and not any(b.get("calculate") is not None for b in doc.binds.get(p, [])))
        if not m:
            if lost:
                out.append(V("trigger-not-single-reference:calculation-lost",
                             f"{desc}: trigger {trigger!r}, calculation {calc!r}: no action targets the node and its bind "
                             f"has no calculate - the calculation is emitted nowhere"))
            continue
        cands = by_name.get(m.group(1), [])
        if len(cands) != 1 or cands[0][1].kind != "question" or len(by_name.get(r.name, [])) != 1:
            continue
        qpath, qrow = cands[0]
        if qrow.type is None:
            continue                       # a type outside the XLSForm type table: nothing known about its control
        qspec = corpus.SV_XLSFORM_TYPES.get(qrow.type)
        if qspec is None or qspec["control"] is None:
            # the triggering question has no body control by the type table (hidden, calculate, metadata...): there
            # is no control to nest the action in; only "not silently lost" is demanded (see FINDINGS_C10.md)
            if lost:
                out.append(V("trigger-question-without-control:calculation-lost",
                             f"{desc}: trigger {trigger!r} names a {qrow.raw_type} question (no body control), calculation "
                             f"{calc!r}: the form is accepted but no action targets the node and its bind has no calculate"))
            continue
        want_tag = "setgeopoint" if r.raw_type == "background-geopoint" else "setvalue"
        showc = [(a["tag"], a["event"], a["value"], doc.where(a)) for a in changed]
        if not changed:
            out.append(V("trigger:action-missing", f"{desc}: trigger {trigger!r} but no value-changed action targets the node"))
        elif len(changed) > 1:
            out.append(V("trigger:action-duplicated", f"{desc}: trigger {trigger!r}: {len(changed)} value-changed actions {showc}"))
        else:
            a = changed[0]
            if a["tag"] != want_tag:
                out.append(V("trigger:wrong-action", f"{desc}: <{a['tag']}> instead of <{want_tag}>"))
            if not a["in_body"] or qpath not in a["ctrl_refs"]:
                out.append(V("trigger:not-in-triggering-control",
                             f"{desc}: action is in {doc.where(a)}, expected nested in the control of {qpath}"))
            if a["event"].split() != [VALUE_CHANGED]:
                out.append(V("trigger:wrong-event", f"{desc}: event={a['event']!r}"))
            if want_tag == "setvalue":
                if calc is None:
                    if a["value"] not in (None, ""):
                        out.append(V("trigger:value-without-calculation", f"{desc}: no calculation but value={a['value']!r}"))
                elif calc in corpus.SV_YES or calc in corpus.SV_NO:
                    pass
                elif not _value_matches(calc, a["value"]):
                    out.append(V("trigger:wrong-value", f"{desc}: calculation {calc!r} but value={a['value']!r}"))
        if calc is not None:
            for b in doc.binds.get(p, []):
                if b.get("calculate") is not None:
                    out.append(V("trigger:also-bind-calculate",
                                 f"{desc}: trigger {trigger!r} and the bind still has calculate={b.get('calculate')!r}"))

    seen, uniq = set(), []
    for v in out:
        if v["key"] not in seen:
            seen.add(v["key"])
            uniq.append(v)
    return uniq


# ----------------------------------------------------------------------------- case families

CHOICES = (["list_name", "name", "label"], [["l1", "a", "A"], ["l1", "b", "B"], ["l1", "x-y", "XY"], ["l1", "yes", "Yes"]])

# question types that take a default (extra cells); label None = no label cell
TYPES = [
    ("text", {}), ("integer", {}), ("decimal", {}), ("date", {}), ("time", {}), ("dateTime", {}), ("note", {}),
    ("select_one l1", {}), ("select_multiple l1", {}), ("select_one l1 or_other", {}), ("rank l1", {}),
    ("select_one_from_file f.csv", {}), ("range", {"parameters": "start=0 end=50 step=1"}),
    ("geopoint", {}), ("geotrace", {}), ("geoshape", {}), ("barcode", {}), ("image", {}), ("file", {}), ("acknowledge", {}),
    ("calculate", {"label": None, "calculation": "1"}), ("hidden", {"label": None}),
]

# default texts; {n} = a top-level integer question, {s} = a sibling in the innermost container
STATIC_DEFAULTS = ["hello", "two words", "x-y", "a b", "yes", "v1.2", "Hello, world!", "7", "-3", "1.5", "-0.25", "0",
                   "2020-01-31", "2020-01-31T10:20:30", "2020-01-31T10:20:30.000-07:00", "10:20:30",
                   "12.5 -3.25 0 0", "1 2 0 0; 3 4 0 0; 1 2 0 0", "pic-1.png", "Ünï_cødé"]
DYNAMIC_DEFAULTS = ["today()", "now()", "once(uuid())", "concat('a', 'b')", "concat('a-b', ${{{s}}})",
                    "if(${{{n}}} - 1 > 0, 'x', 'y')", "${{{n}}}", "${{{s}}}", "${{{n}}} + 1", "${{{n}}} - 1", "1 + 1", "2 * 3",
                    "10 div 2", "7 mod 2", "today() - 7", "now() - 1", "${{{s}}} - ${{{n}}}", "today() + 7",
                    "format-date(today(), '%Y-%m-%d')", "-1 * ${{{n}}}", "string-length(${{{s}}}) * -1", "1 + 2 - 3",
                    "decimal-date-time(now()) - ${{{n}}} div 2", "random()", "coalesce(${{{s}}}, 'none')",
                    "concat(${{{n}}}, ' - ', ${{{s}}})"]
# spellings the oracle leaves unclassified (only "exactly once" is demanded)
AMBIGUOUS_DEFAULTS = ["1-1", "a/b", "3 - 2", "2020 - 01 - 01", "1 -2", "a div b", "x and y", "(1)", "it's", "a | b",
                      "f (x)", "{n}", "$n", "2020-01-31 - 7", "-2020-01-31", "a[1]", "1+1", "../x", "."]
ALL_DEFAULTS = [*STATIC_DEFAULTS, *DYNAMIC_DEFAULTS, *AMBIGUOUS_DEFAULTS]

PLACEMENTS = {
    "top": [], "g": ["group"], "r": ["repeat"], "rg": ["repeat", "group"], "rr": ["repeat", "repeat"],
    "gr": ["group", "repeat"], "rgg": ["repeat", "group", "group"], "rgrg": ["repeat", "group", "repeat", "group"],
    "grgrg": ["group", "repeat", "group", "repeat", "group"],
}
CORE_PLACEMENTS = ["top", "g", "r", "rg", "rr"]


def _sheet(rows, order=None):
    return corpus.sheet_from_dicts(rows, order or ["type", "name", "label"])


def _wb(rows, order=None, settings=None):
    wb = WB()
    wb["survey"] = _sheet(rows, order)
    wb["choices"] = ([*CHOICES[0]], [list(r) for r in CHOICES[1]])
    if settings:
        wb["settings"] = corpus.sheet_from_dicts([settings])
    return wb


def _q(t, extra, name, **cells):
    row = {"type": t, "name": name, "label": f"L {name}"}
    for k, v in {**extra, **cells}.items():
        if v is None:
            row.pop(k, None)
        else:
            row[k] = v
    return row


def _wrap(inner_rows, kinds, tag, sib=True):
    """Put rows inside nested containers; at every level a sibling text question s_<tag>_<level> comes first."""
    rows = []
    for lvl, k in enumerate(kinds):
        rows.append({"type": f"begin {k}", "name": f"c_{tag}_{lvl}", "label": f"C{lvl}"})
        if sib:
            rows.append({"type": "text", "name": f"s_{tag}_{lvl}", "label": "S"})
    rows.extend(inner_rows)
    for k in reversed(kinds):
        rows.append({"type": f"end {k}"})
    return rows


def _sibling(kinds, tag):
    return f"s_{tag}_{len(kinds) - 1}" if kinds else "s_top"


HEAD = [{"type": "integer", "name": "n0", "label": "N0"}, {"type": "text", "name": "s_top", "label": "S top"}]


def default_family(tier, rnd):
    out = []
    places = list(PLACEMENTS) if tier != "quick" else [*CORE_PLACEMENTS, "rgrg"]
    # (a) one type, every default text, one placement
    for ti, (t, extra) in enumerate(TYPES):
        for pn in places:
            kinds = PLACEMENTS[pn]
            sib = _sibling(kinds, "p")
            qs = []
            for di, d in enumerate(ALL_DEFAULTS):
                qs.append(_q(t, extra, f"q{di}", default=d.format(n="n0", s=sib)))
                if di % 7 == 3:
                    qs.append(_q(t, extra, f"plain{di}"))          # a neighbour without default
            out.append(Case(f"C10-type-{ti}-{pn}", wb=_wb([*HEAD, *_wrap(qs, kinds, "p")]), origin="C10"))
    # (b) one default text, every type, one placement (types mixed in one container)
    for di, d in enumerate(ALL_DEFAULTS):
        for pi, pn in enumerate(places):
            if tier == "quick" and (di + pi) % 3:
                continue
            kinds = PLACEMENTS[pn]
            sib = _sibling(kinds, "p")
            qs = [_q(t, extra, f"q{ti}", default=d.format(n="n0", s=sib)) for ti, (t, extra) in enumerate(TYPES)]
            out.append(Case(f"C10-default-{di}-{pn}", wb=_wb([*HEAD, *_wrap(qs, kinds, "p")]), origin="C10"))
    return out


def _chains(max_len):
    for n in range(max_len + 1):
        yield from itertools.product(["group", "repeat"], repeat=n)


def nesting_family(tier, rnd):
    """Every container chain up to length 4 (5 thorough): at every level a dynamic default, a static default, a
    plain question, a second dynamic default and a triggered calculation whose trigger lives one level up."""
    out = []
    for ci, kinds in enumerate(_chains(4 if tier == "quick" else 5)):
        for variant in range(2):
            rows = list(HEAD)
            rows += [_q("integer", {}, "d_top", default="${n0} + 1"), _q("text", {}, "st_top", default="lit top"),
                     _q("date", {}, "dd_top", default="today() - 1")]
            stack_sib = ["s_top"]
            closing = []
            for lvl, k in enumerate(kinds):
                rows.append({"type": f"begin {k}", "name": f"c{lvl}", "label": f"C{lvl}"})
                closing.append(k)
                up = stack_sib[-1]
                block = [
                    _q("text", {}, f"s{lvl}"),
                    _q("integer", {}, f"d{lvl}", default="${%s} * %d" % ("n0", lvl + 2)),
                    _q("text", {}, f"st{lvl}", default=f"lit {lvl}"),
                    _q("text", {}, f"p{lvl}"),
                    _q("text", {}, f"e{lvl}", default="concat(${s%d}, '-', ${%s})" % (lvl, up)),
                    _q("date", {}, f"dd{lvl}", default="today() - %d" % (lvl + 1)),
                    _q("calculate", {"label": None}, f"t{lvl}", calculation="${%s} + %d" % ("n0", lvl), trigger="${%s}" % up),
                    _q("text", {}, f"u{lvl}", calculation="concat('u', ${s%d})" % lvl, trigger="${s%d}" % lvl,
                       default=f"ud {lvl}" if variant else None),
                ]
                if variant:
                    block.reverse()
                    block.insert(0, block.pop())     # keep the sibling first so that the level reads naturally
                rows.extend(block)
                stack_sib.append(f"s{lvl}")
            for k in reversed(closing):
                rows.append({"type": f"end {k}"})
            rows.append(_q("text", {}, "tail", default="uuid()"))
            out.append(Case(f"C10-nest-{''.join(k[0] for k in kinds) or 'flat'}-{variant}", wb=_wb(rows), origin="C10"))
    # two sibling repeats / groups with several dynamic defaults each, names that are prefixes of each other
    for ka, kb in itertools.product(["group", "repeat"], repeat=2):
        rows = [*HEAD,
                {"type": f"begin {ka}", "name": "rep", "label": "A"},
                _q("text", {}, "y", default="concat('y', ${n0})"), _q("text", {}, "y1", default="${y}"),
                _q("integer", {}, "y10", default="3"), _q("integer", {}, "y2", default="${n0} - 1"),
                {"type": "begin group", "name": "rep_g", "label": "AG"},
                _q("text", {}, "y3", default="now()"), _q("text", {}, "y4", default="four"),
                {"type": "end group"},
                {"type": f"end {ka}"},
                {"type": f"begin {kb}", "name": "rep2", "label": "B"},
                _q("text", {}, "z", default="${s_top}"), _q("text", {}, "z1", default="once(random())"),
                {"type": "begin repeat", "name": "rep2_in", "label": "BI"},
                _q("text", {}, "z2", default="${z}"), _q("date", {}, "z3", default="2021-12-31"),
                _q("date", {}, "z4", default="${z3} - 1"),
                {"type": "end repeat"},
                _q("text", {}, "z5", default="position(..)"),
                {"type": f"end {kb}"}]
        out.append(Case(f"C10-siblings-{ka[0]}{kb[0]}", wb=_wb(rows), origin="C10"))
    return out


TRIGGER_TYPES = [("text", {}), ("integer", {}), ("select_one l1", {}), ("select_multiple l1", {}), ("date", {}),
                 ("range", {"parameters": "start=1 end=5 step=1"}), ("geopoint", {}), ("image", {}), ("acknowledge", {}),
                 ("rank l1", {}), ("barcode", {}), ("decimal", {}), ("select_one l1 or_other", {}), ("note", {})]


def trigger_family(tier, rnd):
    out = []
    places = CORE_PLACEMENTS + ["gr", "rgrg"]
    n = 0
    for pt, pq in itertools.product(places, repeat=2):
        for shared in ((True, False) if pt == pq and pt != "top" else (False,)):
            for order in ("trigger-first", "targets-first"):
                n += 1
                tt, textra = TRIGGER_TYPES[n % len(TRIGGER_TYPES)]
                tt2, textra2 = TRIGGER_TYPES[(n + 5) % len(TRIGGER_TYPES)]
                trig = [_q(tt, textra, "trg"), _q(tt2, textra2, "trg2"), _q("text", {}, "trg_unused")]
                targets = [
                    _q("calculate", {"label": None}, "c1", calculation="${n0} + 1", trigger="${trg}"),
                    _q("text", {}, "c2", calculation="concat('x', ${trg})", trigger="${trg}"),
                    _q("integer", {}, "c3", trigger="${trg}"),                       # no calculation: value cleared
                    _q("background-geopoint", {"label": None}, "c4", trigger="${trg}"),
                    _q("calculate", {"label": None}, "c5", calculation="now()", trigger="${trg2}"),
                    _q("decimal", {}, "c6", calculation="${n0} div 2", trigger="${trg2}", default="1.5"),
                    _q("dateTime", {}, "c7", calculation="now()", trigger=" ${trg2} ", default="now()"),
                    _q("background-geopoint", {"label": None}, "c8", trigger="${trg2}"),
                    _q("calculate", {"label": None}, "c9", calculation="${n0} * 9"),  # ordinary calculate: no trigger
                ]
                if n % 2:
                    targets.reverse()
                kt, kq = PLACEMENTS[pt], PLACEMENTS[pq]
                if shared:
                    inner = [*trig, *targets] if order == "trigger-first" else [*targets, *trig]
                    rows = [*HEAD, *_wrap(inner, kt, "t")]
                else:
                    a, b = _wrap(trig, kt, "t"), _wrap(targets, kq, "q")
                    rows = [*HEAD, *(a + b if order == "trigger-first" else b + a)]
                out.append(Case(f"C10-trigger-{pt}-{pq}-{'same' if shared else 'apart'}-{order}", wb=_wb(rows), origin="C10"))
    # three and more targets per trigger spread over containers; trigger inside a group inside a repeat
    for k in range(1, 6):
        rows = [*HEAD, {"type": "begin repeat", "name": "r", "label": "R"}, {"type": "begin group", "name": "g", "label": "G"},
                _q("text", {}, "trg"), {"type": "end group"}]
        for i in range(k):
            rows.append(_q("calculate", {"label": None}, f"in{i}", calculation="${trg} + %d" % i, trigger="${trg}"))
        rows.append({"type": "end repeat"})
        for i in range(k):
            rows.append(_q("text", {}, f"out{i}", calculation="concat(${n0}, '%d')" % i, trigger="${trg}"))
            rows.append(_q("text", {}, f"chain{i}", calculation="${out%d}" % i, trigger="${out%d}" % i))
        out.append(Case(f"C10-trigger-many-{k}", wb=_wb(rows), origin="C10"))
    # header aliases and column orders
    for hi, (hc, order) in enumerate([("calculate", ["trigger", "calculate", "default", "type", "name", "label"]),
                                      ("bind::calculate", ["default", "type", "bind::calculate", "name", "trigger", "label"]),
                                      ("calculation", ["label", "name", "type", "calculation", "trigger", "default"])]):
        rows = [*HEAD, _q("text", {}, "trg"),
                {"type": "calculate", "name": "c1", hc: "${trg} + 1", "trigger": "${trg}"},
                {"type": "text", "name": "c2", "label": "C2", hc: "now()", "trigger": "${trg}", "default": "today()"},
                {"type": "text", "name": "c3", "label": "C3", "default": "plain"}]
        out.append(Case(f"C10-trigger-alias-{hi}", wb=_wb(rows, order), origin="C10"))
    # triggers naming a question that has no body control (hidden / metadata): nothing to nest the action in
    for ti, tt in enumerate(["hidden", "start", "today", "deviceid", "background-audio"]):
        rows = [*HEAD, {"type": tt, "name": "ht"}, _q("text", {}, "c1", calculation="${n0} + 1", trigger="${ht}"),
                _q("text", {}, "c2", default="d2")]
        out.append(Case(f"C10-trigger-no-control-{ti}", wb=_wb(rows), origin="C10"))
    # a trigger cell listing two references: outside the stated pairing, the calculation must at least survive
    rows = [*HEAD, _q("text", {}, "ta"), _q("text", {}, "tb"),
            _q("calculate", {"label": None}, "c1", calculation="${ta} + 1", trigger="${ta}, ${tb}")]
    out.append(Case("C10-trigger-list", wb=_wb(rows), origin="C10"))
    return out


def random_family(tier, rnd):
    out = []
    for i in range({"quick": 400, "thorough": 6000}[tier]):
        rows, stack, names, visible = list(HEAD), [], [], ["s_top"]
        k = 0
        scope = [["n0", "s_top"]]
        for _ in range(rnd.randint(3, 12)):
            x = rnd.random()
            k += 1
            if x < 0.22 and len(stack) < 4:
                kind = rnd.choice(["group", "repeat", "repeat"])
                rows.append({"type": f"begin {kind}", "name": f"c{k}", "label": "C"})
                stack.append(kind)
                scope.append([])
                continue
            if x < 0.34 and stack and rows[-1]["type"].split()[0] != "begin":
                rows.append({"type": f"end {stack.pop()}"})
                scope.pop()
                continue
            t, extra = rnd.choice(TYPES)
            name = f"q{k}"
            cells = {}
            refs = [n for lvl in scope for n in lvl]
            y = rnd.random()
            if y < 0.6:
                d = rnd.choice(ALL_DEFAULTS if rnd.random() < 0.8 else DYNAMIC_DEFAULTS)
                cells["default"] = d.format(n=rnd.choice(refs), s=rnd.choice(refs))
            if rnd.random() < 0.3 and visible:
                cells["trigger"] = "${%s}" % rnd.choice(visible)
                if rnd.random() < 0.8:
                    cells["calculation"] = rnd.choice(["now()", "${%s} + 1" % rnd.choice(refs), "concat('a', 'b')", "7"])
            elif rnd.random() < 0.1 and t.split()[0] not in ("calculate",):
                cells["calculation"] = "${%s}" % rnd.choice(refs)
            row = _q(t, extra, name, **cells)
            rows.append(row)
            scope[-1].append(name)
            if "label" in row and not (("calculation" in row or "trigger" in row) and False):
                visible.append(name)
        while stack:
            if rows[-1]["type"].split()[0] == "begin":
                rows.append(_q("text", {}, f"fill{len(rows)}"))
            rows.append({"type": f"end {stack.pop()}"})
        order = ["type", "name", "label", "default", "calculation", "trigger", "parameters"]
        if rnd.random() < 0.5:
            rnd.shuffle(order)
        out.append(Case(f"C10-rand-{i}", wb=_wb(rows, order), origin="C10"))
    return out


def cases(tier: str, seed: int) -> list[Case]:
    rnd = random.Random(seed * 611953 + 10)
    return [*nesting_family(tier, rnd), *trigger_family(tier, rnd), *default_family(tier, rnd), *random_family(tier, rnd)]
