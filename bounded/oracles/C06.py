"""C06 (bounded e2e): user text is data, never markup.

What is demanded (and nothing else):

  (R) recovery -- for every text-bearing cell of the source workbook (labels, hints, guidance hints,
      constraint/required messages, choice labels, extra choice columns, static defaults, form title, version,
      appearance, custom bind::/body::/instance::/settings attribute:: values) an XML parser reads the cell
      text back, character for character modulo whitespace collapsing, from the place the XLSForm / ODK XForms
      conventions assign to it (control <label>/<hint>, itext <value> of the translation named by the column's
      language, bind @jr:constraintMsg / @jr:requiredMsg or the itext entry they point to, primary instance
      node text / attribute, secondary instance <item> children, h:title, primary instance root attributes).
      With ${ref}s: the place holds exactly one <output> element per reference, and the text between them is
      the text between the references.
  (S) structure -- replacing the text of those cells by the benign word "T" (references kept) yields an XForm
      with exactly the same tree of element names and attribute names: text can not add, remove or rename an
      element or attribute.  (Metamorphic: only the *shape* of the benign variant is used, never its text.)
  (W) the XForm parses at all, and conversion does not die with a non-PyXFormError, when the same form with
      benign text converts fine.

Expected values come from the workbook only (interpret()).  Whitespace: pyxform documents stripping and
collapsing of runs of spaces, the XML parser normalises line ends and attribute whitespace, and mixed content is
written with a space at either end; so all comparisons are modulo XML-whitespace runs and outer whitespace.
Not in the domain (see corpus.ADV_TOKENS): characters XML 1.0 cannot carry, smart quotes (documented
replacement), defaults that the XLSForm docs call dynamic (operators, brackets, parentheses, braces).
"""
from __future__ import annotations

import random
import re
import xml.etree.ElementTree as ET

from bounded import corpus
from bounded.corpus import LANG1, LANG2, NS, WB, XF, XH, Case

USES_DEFAULT_CORPUS = False  # harvested forms are Markdown only; the generic generator is added in cases()
TIME_BUDGET_S = {"quick": 75, "thorough": 900}

JR = "{%s}" % NS["jr"]
RE_REF = re.compile(r"\$\{[^}]*\}")
RE_WS = re.compile(r"[ \t\r\n]+")
RE_ITEXT = re.compile(r"^jr:itext\('(.*)'\)$", re.S)
RE_NCNAME = re.compile(r"^[A-Za-z_][A-Za-z0-9_.\-]*$")
TRANSLATABLE = ("label", "hint", "guidance_hint", "constraint_message", "required_message")
LABELLED_TYPES = {"text", "integer", "decimal", "date", "time", "datetime", "note", "geopoint", "barcode", "image",
                  "audio", "acknowledge", "range", "file", "geotrace", "geoshape", "video"}
STD_BIND = {"nodeset", "type", "relevant", "required", "constraint", "readonly", "calculate", "preload",
            "preloadparams", "saveincomplete"}
STD_BODY = {"ref", "nodeset", "appearance", "class", "mediatype", "accuracythreshold", "intent", "start", "end",
            "step", "query", "rows", "autoplay", "value", "src"}
DYNAMIC_DEFAULT = re.compile(r"[-+*|\[\](){}]| div | mod ")


def norm(s):
    return RE_WS.sub(" ", s or "").strip()


# ----------------------------------------------------------------------------- source side: expectations


class Exp:
    __slots__ = ("kind", "cell", "place", "lang", "text", "loc")

    def __init__(self, kind, cell, place, lang, text, loc):
        self.kind, self.cell, self.place, self.lang, self.text, self.loc = kind, cell, place, lang, text, loc

    @property
    def has_ref(self):
        return bool(RE_REF.search(self.text))


def _split_header(h):
    """'label::French (fr)' -> ('label', 'French (fr)'); 'bind::foo' -> ('bind::foo', None)."""
    if h is None:
        return None, None
    for col in TRANSLATABLE:
        if h == col:
            return col, None
        if h.startswith(col + "::"):
            return col, h[len(col) + 2:]
    return h, None


def interpret(wb: WB) -> list[Exp]:
    """Every text-bearing cell of the workbook with the place where the conventions put it.
    loc = (sheet, row index, header) to build variants."""
    exps: list[Exp] = []
    if wb is None or "survey" not in wb:
        return exps
    settings = {}
    if "settings" in wb:
        sh, srows = wb["settings"]
        if srows:
            settings = {h: c for h, c in zip(sh, srows[0]) if h is not None and c not in (None, "")}
            for h, c in settings.items():
                if not isinstance(c, str) or not c.strip():
                    continue
                if h == "form_title":
                    exps.append(Exp("settings.form_title", h, ("title",), None, c, ("settings", 0, h)))
                elif h == "version":
                    exps.append(Exp("settings.version", h, ("rootattr", "version"), None, c, ("settings", 0, h)))
                elif h.startswith("attribute::") and RE_NCNAME.match(h[11:]) and h[11:] not in ("id", "version"):
                    exps.append(Exp("settings.attribute", h, ("rootattr", h[11:]), None, c, ("settings", 0, h)))
    deflang = settings.get("default_language")

    headers, rows = wb["survey"]
    stack, used_lists = [], set()
    for ri, row in enumerate(rows):
        cells = {h: c for h, c in zip(headers, row) if h is not None and c not in (None, "")}
        typ = cells.get("type")
        if not isinstance(typ, str):
            continue
        toks = typ.replace("_", " ").split()
        low = [t.lower() for t in toks]
        if low[:1] == ["end"] and len(low) == 2 and low[1] in ("group", "repeat"):
            if stack:
                stack.pop()
            continue
        name = cells.get("name")
        if not isinstance(name, str):
            continue
        is_section = low[:1] == ["begin"] and len(low) == 2 and low[1] in ("group", "repeat")
        path = [*stack, name]
        if is_section:
            stack.append(name)
        is_select = (typ.split()[0] in ("select_one", "select_multiple", "rank")) and len(typ.split()) >= 2
        if is_select:
            used_lists.add(typ.split()[1])
        simple = typ.strip().lower() in LABELLED_TYPES
        if not (is_section or is_select or simple):
            continue
        explicit = {(c, L) for c, L in map(_split_header, cells)}
        for h, c in cells.items():
            if not isinstance(c, str) or not c.strip():
                continue
            col, lang = _split_header(h)
            loc = ("survey", ri, h)
            if col in TRANSLATABLE:
                if deflang and (col, deflang) in explicit and (col, None) in explicit and lang in (None, deflang):
                    continue  # plain column and the default language's own column collide: not specified
                what = {"label": "label", "hint": "hint", "guidance_hint": "guidance",
                        "constraint_message": "constraintMsg", "required_message": "requiredMsg"}[col]
                if col == "constraint_message" and "constraint" not in cells:
                    continue
                if col == "required_message" and "required" not in cells:
                    continue
                if is_section and col != "label":
                    continue
                exps.append(Exp(f"survey.{col}", h, ("q", tuple(path), what), lang, c, loc))
            elif is_section:
                continue
            elif col == "default" and (simple and typ.strip().lower() in ("text", "note", "barcode")):
                if not DYNAMIC_DEFAULT.search(c) and "${" not in c:
                    exps.append(Exp("survey.default", h, ("q", tuple(path), "default"), None, c, loc))
            elif col == "appearance" and simple:
                exps.append(Exp("survey.appearance", h, ("q", tuple(path), "appearance"), None, c, loc))
            elif col.startswith("bind::") and RE_NCNAME.match(col[6:]) and col[6:].lower() not in STD_BIND:
                exps.append(Exp("survey.bind-attr", h, ("q", tuple(path), "bind@" + col[6:]), None, c, loc))
            elif col.startswith("body::") and RE_NCNAME.match(col[6:]) and col[6:].lower() not in STD_BODY:
                exps.append(Exp("survey.body-attr", h, ("q", tuple(path), "body@" + col[6:]), None, c, loc))
            elif col.startswith("instance::") and RE_NCNAME.match(col[10:]):
                exps.append(Exp("survey.instance-attr", h, ("q", tuple(path), "inst@" + col[10:]), None, c, loc))

    if "choices" in wb:
        ch, crows = wb["choices"]
        ln_h = next((h for h in ch if h in ("list_name", "list name")), None)
        if ln_h and "name" in ch:
            idx = {}
            cexplicit_all = [_split_header(h) for h in ch]
            for ri, row in enumerate(crows):
                cells = {h: c for h, c in zip(ch, row) if h is not None and c not in (None, "")}
                ln, nm = cells.get(ln_h), cells.get("name")
                if ln is None or nm is None:
                    continue
                ln = str(ln).strip()
                i = idx.get(ln, 0)
                idx[ln] = i + 1
                if ln not in used_lists:
                    continue
                explicit = {_split_header(h) for h in cells}
                for h, c in cells.items():
                    if h in (ln_h, "name") or not isinstance(c, str) or not c.strip():
                        continue
                    col, lang = _split_header(h)
                    loc = ("choices", ri, h)
                    if col == "label":
                        if deflang and ("label", deflang) in explicit and ("label", None) in explicit \
                                and lang in (None, deflang):
                            continue
                        exps.append(Exp("choices.label", h, ("choice", ln, i, "label"), lang, c, loc))
                    elif col in TRANSLATABLE or "::" in h or h in ("image", "audio", "video", "big-image", "sms_option"):
                        continue
                    elif RE_NCNAME.match(h) and h not in ("label", "name", "itextId", "item", "value"):
                        exps.append(Exp("choices.extra", h, ("choice", ln, i, "col:" + h), None, c, loc))
            del cexplicit_all
    return exps


def expected_parts(text):
    """(text segments, number of references) of a cell."""
    return [norm(s) for s in RE_REF.split(text)], len(RE_REF.findall(text))


# ----------------------------------------------------------------------------- XForm side: places


class Doc:
    def __init__(self, text):
        self.root = ET.fromstring(text.encode("utf-8"))
        self.head = self.root.find(f"{XH}head")
        self.body = self.root.find(f"{XH}body")
        self.model = self.head.find(f"{XF}model")
        self.title = self.head.find(f"{XH}title")
        inst = self.model.findall(f"{XF}instance")
        self.iroot = list(inst[0])[0]
        self.rootname = self.iroot.tag.rsplit("}", 1)[-1]
        self.secondary = {i.get("id"): i for i in inst[1:]}
        self.itext = {}
        it = self.model.find(f"{XF}itext")
        if it is not None:
            for tr in it.findall(f"{XF}translation"):
                d = self.itext.setdefault(tr.get("lang"), {})
                for t in tr.findall(f"{XF}text"):
                    d.setdefault(t.get("id"), []).extend(t.findall(f"{XF}value"))
        self.binds = {}
        for b in self.model.findall(f"{XF}bind"):
            self.binds.setdefault(b.get("nodeset"), b)
        self.controls = {}
        for e in self.body.iter():
            r = e.get("ref")
            if r and e.tag != f"{XF}label" and e.tag != f"{XF}hint" and e.tag != f"{XF}value" \
                    and e.tag != f"{XF}output" and e.tag != f"{XF}setvalue":
                self.controls.setdefault(r, e)

    def abspath(self, path):
        return "/" + "/".join((self.rootname, *path))

    def inst_nodes(self, path):
        cur = [self.iroot]
        for p in path:
            cur = [c for e in cur for c in e if c.tag.rsplit("}", 1)[-1] == p]
        return cur

    # -- resolution of a "place" to {lang or None: content}; content = ("attr", str) | ("elem", Element)
    def via_itext(self, tid, form):
        out = {}
        for lang, d in self.itext.items():
            vals = [v for v in d.get(tid, []) if v.get("form") == form]
            if vals:
                out[lang] = [("elem", v) for v in vals]
        return out

    def place(self, place):
        """None if the place does not exist; else dict lang|None -> list of contents."""
        if place[0] == "title":
            return None if self.title is None else {None: [("elem", self.title)]}
        if place[0] == "rootattr":
            v = self.iroot.get(place[1])
            return None if v is None else {None: [("attr", v)]}
        if place[0] == "choice":
            _, ln, i, what = place
            inst = self.secondary.get(ln)
            if inst is None or not len(inst):
                return None
            items = [c for c in list(inst)[0] if c.tag == f"{XF}item"]
            if i >= len(items):
                return None
            item = items[i]
            if what == "label":
                lab = item.find(f"{XF}label")
                if lab is not None:
                    return {None: [("elem", lab)]}
                tid = item.find(f"{XF}itextId")
                if tid is not None:
                    return self.via_itext(tid.text, None) or None
                return None
            col = item.findall(XF + what[4:])
            return {None: [("elem", c) for c in col]} if col else None
        _, path, what = place
        ap = self.abspath(path)
        if what in ("label", "hint", "guidance"):
            ctl = self.controls.get(ap)
            if ctl is None:
                return None
            e = ctl.find(XF + ("label" if what == "label" else "hint"))
            if e is None:
                return None
            m = RE_ITEXT.match(e.get("ref") or "")
            if m:
                return self.via_itext(m.group(1), "guidance" if what == "guidance" else None) or None
            if what == "guidance":
                return None
            return {None: [("elem", e)]}
        if what in ("constraintMsg", "requiredMsg"):
            b = self.binds.get(ap)
            v = None if b is None else b.get(JR + what)
            if v is None:
                return None
            m = RE_ITEXT.match(v)
            if m:
                return self.via_itext(m.group(1), None) or None
            return {None: [("attr", v)]}
        if what == "default":
            nodes = self.inst_nodes(path)
            return {None: [("elem", n) for n in nodes]} if nodes else None
        if what == "appearance":
            ctl = self.controls.get(ap)
            v = None if ctl is None else ctl.get("appearance")
            return None if v is None else {None: [("attr", v)]}
        if what.startswith("bind@"):
            b = self.binds.get(ap)
            v = None if b is None else b.get(what[5:])
            return None if v is None else {None: [("attr", v)]}
        if what.startswith("body@"):
            ctl = self.controls.get(ap)
            v = None if ctl is None else ctl.get(what[5:])
            return None if v is None else {None: [("attr", v)]}
        if what.startswith("inst@"):
            vals = [n.get(what[5:]) for n in self.inst_nodes(path)]
            vals = [v for v in vals if v is not None]
            return {None: [("attr", v) for v in vals]} if vals else None
        return None


def content_mismatch(content, text):
    """None if the content holds exactly `text` (mod whitespace); else a description."""
    segs, nref = expected_parts(text)
    kind, v = content
    if kind == "attr":
        if nref:
            return None  # references inside attribute values: no convention to state
        return None if norm(v) == segs[0] else f"attribute value {v!r}"
    got = [norm(v.text)]
    kids = list(v)
    for k in kids:
        got.append(norm(k.tail))
    bad_kids = [k.tag.rsplit('}', 1)[-1] for k in kids if k.tag != f"{XF}output"]
    if bad_kids:
        return f"child elements {bad_kids} inside <{v.tag.rsplit('}', 1)[-1]}>"
    if len(kids) != nref:
        return f"{len(kids)} <output> children for {nref} references, text {got!r}"
    if got != segs:
        return f"text {got!r}"
    return None


def check_exp(doc: Doc, e: Exp, deflang):
    """None if fine or if the place does not exist at all (that is left to the structure check); else
    (failure class, description): "cell-dropped" when the place exists but this cell's text is absent from it
    (no entry for the column's language, or only the "-" filler of missing translations), "not-recovered" when
    a different text / element content is found."""
    res = doc.place(e.place)
    if not res:
        return None
    if e.lang is not None:
        if e.lang not in res:
            return ("cell-dropped", f"no value for language {e.lang!r} (languages with a value: {list(res)})")
        cands = res[e.lang]
    elif None in res:
        cands = res[None]
    else:
        lang = "default" if "default" in res else deflang
        if lang not in res:
            return None
        cands = res[lang]
    for c in cands:
        m = content_mismatch(c, e.text)
        if m:
            filler = c[0] == "elem" and not len(c[1]) and norm(c[1].text) == "-"
            return ("cell-dropped" if filler else "not-recovered", m)
    return None


# ----------------------------------------------------------------------------- structure (metamorphic)


def skeleton(elem):
    return (elem.tag, tuple(sorted(elem.keys())), tuple(skeleton(c) for c in elem))


def skeleton_diff(a, b, path=""):
    """First difference between two skeletons, as text."""
    p = f"{path}/{a[0].rsplit('}', 1)[-1]}"
    if a[0] != b[0]:
        return f"{p}: element {a[0]} vs {b[0]}"
    if a[1] != b[1]:
        return f"{p}: attributes {list(a[1])} vs benign {list(b[1])}"
    if len(a[2]) != len(b[2]):
        return (f"{p}: children {[c[0].rsplit('}', 1)[-1] for c in a[2]]} vs benign "
                f"{[c[0].rsplit('}', 1)[-1] for c in b[2]]}")
    for x, y in zip(a[2], b[2]):
        d = skeleton_diff(x, y, p)
        if d:
            return d
    return None


def benign_text(text):
    """Same references, every text segment replaced by the word T (empty segments stay empty)."""
    refs = RE_REF.findall(text)
    segs = RE_REF.split(text)
    out = []
    for i, s in enumerate(segs):
        out.append(" T " if s.strip() else s)
        if i < len(refs):
            out.append(refs[i])
    return "".join(out).strip() or "T"


def variant(wb: WB, exps, keep=None) -> WB:
    """Copy of wb with the text of all expectation cells made benign, except those in `keep`."""
    w = wb.copy()
    for e in exps:
        if keep is not None and e in keep:
            continue
        sheet, ri, h = e.loc
        hs, rows = w[sheet]
        rows[ri][hs.index(h)] = benign_text(e.text)
    return w


_baseline_cache: dict = {}


def baseline(wb, exps, kwargs):
    w = variant(wb, exps)
    key = repr(sorted(corpus.wb_to_dict(w).items(), key=lambda kv: kv[0])) + repr(sorted(kwargs.items()))
    if key not in _baseline_cache:
        if len(_baseline_cache) > 4000:
            _baseline_cache.clear()
        r = corpus.convert_case(Case("baseline", wb=w, kwargs=kwargs))
        sk = None
        if r.ok:
            try:
                sk = skeleton(ET.fromstring(r.xform.encode("utf-8")))
            except ET.ParseError:
                sk = None
        _baseline_cache[key] = (r.ok, sk)
    return _baseline_cache[key]


def kind_key(e: Exp):
    return e.kind + ("+ref" if e.has_ref else "")


_attributed: set = set()


def attribute_failure(case, exps, failing, cls):
    """Which single cell reproduces a case-wide failure (bad parse, crash, structure change)?  `failing(res)`
    says whether a conversion result shows the failure.  Returns [(kind, exp)] (at most 3 new ones), or
    [("combination", None)] when no single cell reproduces it.  Kinds already attributed for this failure
    class earlier in the run are not tried again (bounds the cost when something is broken everywhere)."""
    kinds, skipped = [], False
    seen = set()
    for e in exps:
        if benign_text(e.text) == e.text:
            continue
        k = kind_key(e)
        if k in seen:
            continue
        if (cls, k) in _attributed:
            skipped = True
            continue
        w = variant(case.wb, exps, keep={e})
        r = corpus.convert_case(Case("single", wb=w, kwargs=case.kwargs))
        if failing(r):
            seen.add(k)
            _attributed.add((cls, k))
            kinds.append((k, e))
            if len(kinds) >= 3:
                break
    if not kinds and not skipped:
        return [("combination", None)]
    return kinds


# ----------------------------------------------------------------------------- check


_lookup_cache: dict = {}


def _recover_wb(case, ctx):
    """Replay support: a replayed case carries no workbook; find the generated case of the same name."""
    if case.name not in _lookup_cache:
        _lookup_cache.clear()
        for tier in ("quick", "thorough"):
            for c in cases(tier, ctx.get("seed", 0)):
                _lookup_cache.setdefault(c.name, c)
    c = _lookup_cache.get(case.name)
    return (c.wb, c.kwargs) if c is not None else (None, {})


def check(case, res, ctx):
    wb, kwargs = case.wb, case.kwargs
    if wb is None and case.md is None:
        wb, kwargs = _recover_wb(case, ctx)
        case = Case(case.name, wb=wb, kwargs=kwargs)
    if wb is None:
        return []
    exps = interpret(wb)
    if not exps:
        return []
    out = []

    def parse_fail(r):
        if not r.ok:
            return False
        try:
            ET.fromstring(r.xform.encode("utf-8"))
            return False
        except ET.ParseError:
            return True

    if not res.ok:
        if not res.internal_error:
            return []  # rejected with the library's own error: outside the property
        ok, _ = baseline(wb, exps, kwargs)
        if not ok:
            return []
        ename = type(res.error).__name__
        hits = attribute_failure(case, exps, lambda r: (not r.ok) and r.internal_error
                                 and type(r.error).__name__ == ename, "internal-error")
        for k, e in hits:
            out.append({"key": f"C06:internal-error:{k}",
                        "what": f"conversion dies with {ename}: {res.error} although the same form with benign text "
                                f"converts; cell {e.cell if e else '?'} = {e.text if e else '?'!r}"})
        return out

    try:
        doc = Doc(res.xform)
    except ET.ParseError as err:
        hits = attribute_failure(case, exps, parse_fail, "not-well-formed")
        for k, e in hits:
            out.append({"key": f"C06:not-well-formed:{k}",
                        "what": f"XForm does not parse ({err}); cell {e.cell if e else '?'} = "
                                f"{e.text if e else '?'!r}"})
        return out
    except (AttributeError, IndexError) as err:
        return [{"key": "C06:no-skeleton", "what": f"XForm lacks head/model/primary instance: {err}"}]

    deflang = None
    if "settings" in wb and wb["settings"][1]:
        sh, srows = wb["settings"]
        if "default_language" in sh:
            deflang = srows[0][sh.index("default_language")]

    for e in exps:
        m = check_exp(doc, e, deflang)
        if m:
            cls, m = m
            out.append({"key": f"C06:{cls}:{e.kind if cls == 'cell-dropped' else kind_key(e)}",
                        "what": f"cell {e.cell} (row {e.loc[1]} of {e.loc[0]}, lang {e.lang}) = {e.text!r} but the "
                                f"XForm holds {m} at {e.place}"})

    ok, sk = baseline(wb, exps, kwargs)
    if ok and sk is not None:
        mine = skeleton(doc.root)
        d = skeleton_diff(mine, sk)
        if d:
            def changed(r):
                if not r.ok:
                    return False
                try:
                    return skeleton(ET.fromstring(r.xform.encode("utf-8"))) != sk
                except ET.ParseError:
                    return False
            hits = attribute_failure(case, exps, changed, "structure-changed")
            for k, e in hits:
                out.append({"key": f"C06:structure-changed:{k}",
                            "what": f"element/attribute tree differs from the same form with benign text: {d}; "
                                    f"cell {e.cell if e else '?'} = {e.text if e else '?'!r}"})
    return out


# ----------------------------------------------------------------------------- cases


def _with_refs(s, refs, r, shape):
    """Mix text with references in one of several shapes."""
    if not refs:
        return s
    a = "${%s}" % refs[0]
    b = "${%s}" % refs[-1]
    if shape == 0:
        return f"{s} {a}"
    if shape == 1:
        return f"{a} {s}"
    if shape == 2:
        return f"{s} {a} {s}"
    if shape == 3:
        return f"{s}{a}{s}"
    if shape == 4:
        return f"{a}{s}{b}"
    return f"{s} {a} x {b} {s}"


def _usable_with_ref(s):
    # a "$" or "{" glued to a reference would change which reference is meant; keep those for no-ref cases
    return not s.endswith("$") and "${" not in s and not s.endswith("\\")


def cases(tier: str, seed: int) -> list[Case]:
    r = random.Random(seed * 104729 + 6)
    n_strings = 150 if tier == "quick" else 700
    strings = corpus.adv_strings(seed, n_strings)
    core = corpus.ADV_CORE
    static_strings = [s for s in strings if not DYNAMIC_DEFAULT.search(s) and "${" not in s]
    out = []

    # cell inventory of the template (ids, translatable?, refs allowed)
    inventory = []
    corpus.text_form(lambda cid, lang, refs: inventory.append((cid, lang is not None, refs)) or None, multi=True)
    cell_ids = []
    for cid, _, refs in inventory:
        if cid not in [c for c, _ in cell_ids]:
            cell_ids.append((cid, refs))
    translatable_ids = {cid for cid, tr, _ in inventory if tr}

    # Family A: every cell adversarial at once, strings rotating over the cells so that each (cell, string)
    # pair of the list occurs; single and multi language, with and without references, with and without
    # references elsewhere in the form (tail question).
    n_a = len(strings)
    step = 1 if tier == "thorough" else 2
    for multi in (False, True):
        for with_ref in (False, True):
            for i in range(0, n_a, step):
                tail = bool((i // step) % 2)
                pos = {}

                def fill(cid, lang, refs, i=i, pos=pos, with_ref=with_ref):
                    k = pos.setdefault((cid, lang), len(pos))
                    s = strings[(i + k * 7) % len(strings)]
                    if cid.endswith(".default"):
                        s = static_strings[(i + k * 7) % len(static_strings)]
                    if with_ref and refs and cid in translatable_ids and _usable_with_ref(s):
                        return _with_refs(s, refs, r, (i + k) % 6)
                    return s

                wb = corpus.text_form(fill, multi=multi, tail_ref=tail)
                out.append(Case(f"c06/all/{'multi' if multi else 'mono'}/{'ref' if with_ref else 'plain'}/{i}", wb=wb))

    # Family B: one cell adversarial, everything else benign.  thorough: every cell x (core + sample) strings x
    # language placement x with/without references.  quick: every *kind* of cell (column) x every core string x
    # language placement x with/without references, the concrete cell (context) rotating.
    def kind_of(cid):
        sheet, _, col = cid.split(".", 2) if not cid.startswith("choices.") else ("choices", "", cid.rsplit(".", 1)[1]
                                                                                 if not cid.endswith("x.col") else "x.col")
        return f"{sheet}.{col}"

    by_kind = {}
    for cid, refs in cell_ids:
        by_kind.setdefault(kind_of(cid), []).append((cid, refs))
    per_cell = core if tier == "quick" else core + strings[len(core):len(core) + 20]
    n_b = 0
    for multi in (False, True):
        for ki, (kind, cells_of_kind) in enumerate(by_kind.items()):
            is_tr = cells_of_kind[0][0] in translatable_ids
            for which_lang in ((LANG1, LANG2) if (multi and is_tr) else (None,)):
                for j, s in enumerate(per_cell):
                    if kind.endswith(".default") and DYNAMIC_DEFAULT.search(s):
                        continue
                    if tier == "thorough" or len(cells_of_kind) <= 2:
                        targets = cells_of_kind
                    else:
                        targets = [cells_of_kind[(j + ki + d) % len(cells_of_kind)] for d in (0, len(cells_of_kind) // 2)]
                    for cid, refs in targets:
                        variants = [s]
                        if is_tr and refs and _usable_with_ref(s):
                            variants.append(_with_refs(s, refs, r, (ki + len(cid)) % 6))
                        for vi, v in enumerate(variants):
                            def fill(c, lang, _refs, cid=cid, v=v, which_lang=which_lang):
                                if c == cid and (which_lang is None or lang == which_lang):
                                    return v
                                return None
                            n_b += 1
                            wb = corpus.text_form(fill, multi=multi, tail_ref=bool(n_b % 2))
                            lang_tag = "mono" if not multi else ("multi" if which_lang is None else which_lang[:2])
                            out.append(Case(f"c06/one/{cid}/{lang_tag}/{j}.{vi}", wb=wb))

    # Family C: untranslated columns next to translated ones, default_language setting, whitespace kept
    # (clean_text_values=no), random subsets of adversarial cells.
    n_c = 60 if tier == "quick" else 600
    for i in range(n_c):
        p = r.random()
        chosen = {cid for cid, _ in cell_ids if r.random() < p}

        def fill(cid, lang, refs, chosen=chosen, rr=random.Random(seed * 31 + i)):
            if cid not in chosen:
                return None
            s = rr.choice(strings)
            if cid.endswith(".default") and DYNAMIC_DEFAULT.search(s):
                return None
            if refs and cid in translatable_ids and rr.random() < 0.4 and _usable_with_ref(s):
                return _with_refs(s, refs, rr, rr.randrange(6))
            return s

        multi = r.random() < 0.6
        settings = {}
        if multi and r.random() < 0.4:
            settings["default_language"] = r.choice([LANG1, LANG2])
        clean = r.choice([None, None, "no", "yes"])
        wb = corpus.text_form(fill, multi=multi, tail_ref=r.random() < 0.5, settings=settings, clean=clean)
        if multi and r.random() < 0.5:
            # drop the language suffix of one language on a random subset of columns (plain + translated mix)
            for sheet in ("survey", "choices"):
                hs, rows = wb[sheet]
                for hi, h in enumerate(hs):
                    if h and h.endswith("::" + LANG1) and r.random() < 0.5 and h[:-len("::" + LANG1)] not in hs:
                        hs[hi] = h[:-len("::" + LANG1)]
        out.append(Case(f"c06/mix/{i}", wb=wb))

    # Family D: column orders.  Untranslated column before / between / after its translated columns.
    import itertools
    for pi, perm in enumerate(itertools.permutations(("plain", LANG1, LANG2))):
        for vi in range(2 if tier == "quick" else 8):
            rr = random.Random(seed * 977 + pi * 10 + vi)

            def fill(cid, lang, refs, rr=rr, vi=vi):
                if vi == 0 or cid.endswith(".default"):
                    return None
                return rr.choice(core)

            wb = corpus.text_form(fill, multi=True, tail_ref=bool(vi % 2))
            for sheet in ("survey", "choices"):
                hs, rows = wb[sheet]
                bases = [h[:-len("::" + LANG1)] for h in hs if h.endswith("::" + LANG1)]
                order = [h for h in hs if "::" + LANG1 not in h and "::" + LANG2 not in h]
                for b in bases:
                    order.extend({"plain": b, LANG1: f"{b}::{LANG1}", LANG2: f"{b}::{LANG2}"}[x] for x in perm)
                new_rows = []
                for row in rows:
                    d = dict(zip(hs, row))
                    for b in bases:
                        if d.get(f"{b}::{LANG1}") is not None:
                            d[b] = f"plain {b} " + (rr.choice(core) if vi else "text")
                    new_rows.append([d.get(h) for h in order])
                wb[sheet] = (order, new_rows)
            out.append(Case(f"c06/order/{pi}.{vi}", wb=wb))

    # Generic generator: other nestings, types, column orders (its TEXTS hold metacharacters too).
    out.extend(corpus.generated(seed, 150 if tier == "quick" else 1500))
    return out
