"""C05 (bounded e2e): logic cells reach the right bind unchanged, with the type the table prescribes.

Expectation (from the source workbook only; bounded.corpus.sv_* helpers):
 * every question / group / repeat / audit row has at most one <bind>, whose nodeset is the row's node;
 * its attribute set is exactly: the XLSForm type table's data type (+ jr:preload / jr:preloadParams for
   metadata, readonly for notes, decimal for ranges with decimal parameters), the row's logic cells
   (relevant, required, readonly, constraint, calculate, jr:constraintMsg, jr:requiredMsg,
   jr:noAppErrorString, bind::x under any alias / column order) and the parameter-derived bind attributes
   (audit odk:*, image orx:max-pixels, audio odk:quality, geo odk:allow-mock-accuracy, save_to);
 * values equal the cell text after ${ref} substitution and yes/no -> true()/false(); translated messages (and
   messages with ${ref}) are carried by a jr:itext() reference.  "After reference substitution" is taken from the
   source workbook alone (class RefText): each ${name} whose name designates exactly one node of the survey tree is
   replaced by an XPath that, walked from the row's own node, arrives at that node (absolute, or relative with
   optional current()/), and that is *relative* whenever the target's innermost enclosing repeat also strictly
   encloses the row (the XLSForm rule; indexed-repeat() arguments and ${last-saved#..} excepted).  Nothing else in
   the form - in particular the names of unrelated rows in other sections - may change that text;
 * rows with no logic get no logic attribute, rows that produce nothing (disabled, comment, external
   instance) get no bind, and no bind exists for a node that is neither a row nor a documented generated node.
Not demanded: where `calculate` goes on rows with a trigger (setvalue; C10), the type of rows with a bind::type
cell or of types outside the table, yes/no normalisation in expression columns (either spelling accepted).
"""
from __future__ import annotations

import itertools
import random
import re

from bounded import corpus
from bounded.corpus import Case, Result, WB, XForm

USES_DEFAULT_CORPUS = True
N_GENERATED = {"quick": 150, "thorough": 1500}
TIME_BUDGET_S = {"quick": 60, "thorough": 900}

ITEXT = re.compile(r"^jr:itext\('[^']+'\)$")
CONVERTIBLE = {"readonly", "required", "relevant", "constraint", "calculate"}
STRICT_YESNO = {"readonly", "required"}
MESSAGES = {"jr:constraintMsg", "jr:requiredMsg", "jr:noAppErrorString"}
RE_TL = re.compile(r"^(generated_table_list_label_|reserved_name_for_field_list_labels_)\d+$")
ANY = object()


def V(key, what):
    return {"key": f"C05:{key}", "what": what}


def _extra_ns(settings: dict) -> dict:
    out = {}
    ns = settings.get("namespaces")
    if ns:
        for part in ns.split():
            if part.count("=") == 1:
                p, u = part.split("=")
                out[u.strip("\"'")] = p
    return out


RE_REF = re.compile(r"\$\{(last-saved#)?([^}]*)\}")


def _walk(context: tuple, path: str):
    """Node reached by the location path `path` (steps: names, `.`, `..`) from `context`; None if it leaves the tree
    or is not a plain location path."""
    path = path.strip()
    if path.startswith("/"):
        node, steps = (), path[1:].split("/")
    else:
        node, steps = tuple(context), path.split("/")
    for st in steps:
        if st == "..":
            if len(node) <= 1:
                return None
            node = node[:-1]
        elif st == ".":
            continue
        elif corpus.SV_RE_XML_NAME.match(st):
            node = (*node, st)
        else:
            return None
    return node


class RefText:
    """Expected value of a logic cell holding ${..} references, for the row whose node is `context`.
    `nodes`: {name: [(path tuple, innermost enclosing repeat's path or None), ...]} for every node of the survey tree."""

    def __init__(self, cell: str, context: tuple, nodes: dict):
        self.cell, self.context, self.nodes = cell, tuple(context), nodes
        out, pos, self.refs = [], 0, []
        for m in RE_REF.finditer(cell):
            out.append(re.escape(cell[pos:m.start()]))
            nm = m.group(2).strip()
            pre = r"(instance\('__last-saved'\))" if m.group(1) else r"((?:current\(\)/)?)"
            out.append(r"\s*" + pre + r"((?:\.\.|/)[^\s,()\[\]='\"]*?(?<=/)" + re.escape(nm) + r")\s*")
            self.refs.append((nm, bool(m.group(1))))
            pos = m.end()
        out.append(re.escape(cell[pos:]))
        self.pattern = "^" + "".join(out) + "$"
        self.rx = re.compile(self.pattern, re.S)
        self.free_form = "indexed-repeat(" in cell

    def problem(self, have: str):
        """None if `have` is the cell text after reference substitution, else a short explanation."""
        m = self.rx.match(have)
        if m is None:
            return "is not the cell text with each ${name} replaced by a path to name"
        for i, (nm, last_saved) in enumerate(self.refs):
            path = m.group(2 * i + 2)
            targets = self.nodes.get(nm, [])
            if len(targets) != 1:
                continue        # not a (unique) node of the modelled tree: nothing more to say here
            tpath, trepeat = targets[0]
            if last_saved:
                if _walk((), path) != tpath:
                    return f"${{last-saved#{nm}}} became {path!r}, which is not /{'/'.join(tpath)} in the last-saved instance"
                continue
            if _walk(self.context, path) != tpath:
                return (f"${{{nm}}} became {path!r}, which from /{'/'.join(self.context)} does not arrive at "
                        f"/{'/'.join(tpath)}")
            encloses = (trepeat is not None and len(self.context) > len(trepeat)
                        and self.context[:len(trepeat)] == trepeat)
            if encloses and not self.free_form and path.startswith("/"):
                return (f"${{{nm}}} became the absolute {path!r} although the row and the target are both inside "
                        f"the repeat /{'/'.join(trepeat)} (a relative path is due)")
        return None


def expected_binds(wb: WB, rootname: str):
    """({nodeset: (SRow, {attr: expected})}, generated-nodeset predicate). Expected values: str (exact),
    regex (must match), tuple of alternatives, ANY (present, value free), or the key is in `free` (may be absent)."""
    rows = corpus.sv_survey_model(wb)
    settings = {k.strip(): v for k, v in corpus.sv_settings_record(wb).items()}
    if any(k.lower() in ("flat", "add_none_option") for k in settings):
        raise corpus.SvUnsupported("flat/add_none_option")
    exp, generated = {}, set()
    nodes: dict[str, list] = {}
    for sr in rows:
        if sr.kind in ("nothing", "end"):
            continue
        reps = [i for i, k in enumerate(sr.parent_kinds) if k == "repeat"]
        nodes.setdefault(sr.name, []).append(
            ((rootname, *sr.path), (rootname, *sr.parents[:reps[-1] + 1]) if reps else None))
    for sr in rows:
        if sr.kind in ("nothing", "end", "external"):
            continue
        nodeset = "/" + "/".join((rootname, *sr.path))
        if nodeset in exp:
            raise corpus.SvUnsupported("duplicate path")
        attrs, free = {}, set()
        cells = sr.cells
        has_trigger = corpus.sv_row_get(cells, "trigger") is not None
        if sr.kind in ("question", "audit"):
            spec = corpus.SV_XLSFORM_TYPES.get(sr.type) if sr.type else None
            if spec is None:
                free |= {"type", "jr:preload", "jr:preloadParams", "constraint", "readonly"}
            else:
                attrs["type"] = spec["bind"]
                if spec["preload"]:
                    attrs["jr:preload"] = spec["preload"]
                    attrs["jr:preloadParams"] = spec["params"]
                if spec["readonly"]:
                    attrs["readonly"] = spec["readonly"]
            try:
                params = corpus.sv_parse_parameters(corpus.sv_row_get(cells, "parameters"))
            except corpus.SvUnsupported:
                params = None
            if params is None:
                free |= {"type"}
            elif sr.type == "range":
                dotted = [v for v in params.values() if "." in v]
                if dotted:
                    try:
                        nonzero = any(float(v) != 0 for v in dotted)
                    except ValueError:
                        nonzero = None
                    if nonzero:
                        attrs["type"] = "decimal"
                    else:
                        free.add("type")
                        attrs.pop("type", None)
            elif sr.type in ("image", "photo") and "max-pixels" in params:
                attrs["orx:max-pixels"] = params["max-pixels"]
            elif sr.type == "audio" and "quality" in params:
                attrs["odk:quality"] = params["quality"]
            elif sr.type in ("geopoint", "geotrace", "geoshape") and "allow-mock-accuracy" in params:
                attrs["odk:allow-mock-accuracy"] = params["allow-mock-accuracy"]
            elif sr.type == "audit":
                for k in ("track-changes", "identify-user", "track-changes-reasons", "location-priority",
                          "location-min-interval", "location-max-age"):
                    if k in params:
                        attrs[f"odk:{k}"] = params[k]
        for tok, val in cells.items():
            if tok[0] != "bind" or len(tok) < 2:
                continue
            k = tok[1]
            if len(tok) > 3:
                raise corpus.SvUnsupported("deep bind column")
            if len(tok) == 3:
                if k not in MESSAGES:
                    raise corpus.SvUnsupported("translated non-message bind column")
                attrs[k] = ITEXT
                continue
            if any(len(t2) == 3 and t2[:2] == tok for t2 in cells):
                continue    # a translated spelling of the same message exists: carried by itext
            if k == "type":
                attrs["type"] = ANY
                continue
            if k == "calculate" and has_trigger:
                attrs.pop(k, None)
                free.add(k)
                continue
            if k in ("jr:constraintMsg", "jr:requiredMsg") and "${" in val:
                attrs[k] = ITEXT
            elif k in CONVERTIBLE and (val in corpus.SV_YES or val in corpus.SV_NO):
                norm = "true()" if val in corpus.SV_YES else "false()"
                attrs[k] = norm if k in STRICT_YESNO else (norm, val)
            elif "${" in val:
                attrs[k] = RefText(val, (rootname, *sr.path), nodes)
            else:
                attrs[k] = val
        exp[nodeset] = (sr, attrs, free)
        parent = nodeset.rsplit("/", 1)[0]
        if sr.kind == "repeat":
            cnt = corpus.sv_row_get(cells, "control", "jr:count")
            if cnt is not None and not corpus.SV_RE_PLAIN_REF.match(cnt):
                generated.add(f"{parent}/{sr.name}_count")
        if sr.kind == "question" and sr.or_other:
            generated.add(f"{nodeset}_other")
    metaprefix = f"/{rootname}/meta/"

    def is_generated(ns_: str) -> bool:
        if ns_ in generated:
            return True
        if ns_.startswith(metaprefix) and ns_ != metaprefix + "audit":
            return True
        return bool(RE_TL.match(ns_.rsplit("/", 1)[-1]))

    return exp, is_generated, _extra_ns(settings)


def _value_ok(want, have: str) -> bool:
    if want is ANY:
        return True
    if isinstance(want, tuple):
        return have in want
    if isinstance(want, RefText):
        return want.problem(have) is None
    if hasattr(want, "match"):
        return bool(want.match(have))
    return have == want


def _show(want):
    if want is ANY:
        return "<any>"
    if isinstance(want, RefText):
        return f"the cell {want.cell!r} after reference substitution"
    if hasattr(want, "pattern"):
        return f"/{want.pattern}/"
    return repr(want)


def check(case: Case, res: Result, ctx: dict) -> list[dict]:
    if not res.ok or res.xform is None:
        return []
    wb = corpus.sv_case_wb(case)
    if wb is None:
        return []
    x, err = corpus.parse_ok(res.xform)
    if x is None or x.iroot is None:
        return []
    rootname = XForm.local(x.iroot.tag)
    try:
        exp, is_generated, extra_ns = expected_binds(wb, rootname)
    except corpus.SvUnsupported:
        return []
    out = []
    by_nodeset: dict[str, list] = {}
    for b in x.binds():
        by_nodeset.setdefault(b.get("nodeset"), []).append(b)
    for ns_, bs in by_nodeset.items():
        if len(bs) > 1:
            out.append(V("duplicate-bind", f"{len(bs)} binds for nodeset {ns_}"))
        if ns_ not in exp and not is_generated(ns_ or ""):
            out.append(V("bind-for-non-row", f"bind {dict(bs[0].attrib)} belongs to no survey row / documented generated node"))
    for ns_, (sr, attrs, free) in exp.items():
        bs = by_nodeset.get(ns_, [])
        kind = sr.type if sr.kind in ("question", "audit") and sr.type else sr.kind
        if not bs:
            if attrs:
                what = sorted(attrs)
                cls = "type-only" if set(attrs) <= {"type", "jr:preload", "jr:preloadParams"} else "logic"
                out.append(V(f"missing-bind:{cls}", f"row {sr.idx + 2} ({kind}) {ns_}: no bind, expected attributes {what}"))
            continue
        got = {corpus.sv_qname_prefixed(k, extra_ns): v for k, v in bs[0].attrib.items() if k != "nodeset"}
        for k, want in attrs.items():
            if k not in got:
                out.append(V(f"dropped:{k}", f"row {sr.idx + 2} ({kind}) {ns_}: attribute {k} (expected {_show(want)}) is missing; "
                                             f"bind has {got}"))
            elif isinstance(want, RefText) and want.rx.match(got[k]):
                why = want.problem(got[k])
                if why:
                    out.append(V(f"wrong-ref:{k}", f"row {sr.idx + 2} ({kind}) {ns_}: {k}={got[k]!r}, expected "
                                                   f"{_show(want)}: {why}"))
            elif not _value_ok(want, got[k]):
                out.append(V(f"wrong-value:{k}", f"row {sr.idx + 2} ({kind}) {ns_}: {k}={got[k]!r}, expected {_show(want)}"))
        for k, v in got.items():
            if k not in attrs and k not in free:
                out.append(V(f"unsourced:{k}", f"row {sr.idx + 2} ({kind}) {ns_}: attribute {k}={v!r} has no source cell / "
                                               f"type-table entry (cells: { {'::'.join(t): c for t, c in sr.cells.items()} })"))
    seen, uniq = set(), []
    for v in out:
        if v["key"] not in seen:
            seen.add(v["key"])
            uniq.append(v)
    return uniq


# ----------------------------------------------------------------------------- cases

CHOICES = (["list_name", "name", "label"], [["l1", "a", "A"], ["l1", "b", "B"]])

# canonical logic column -> header spellings (aliases)
SPELL = {
    "relevant": ["relevant", "relevance", "bind::relevant"],
    "required": ["required", "bind::required"],
    "readonly": ["readonly", "read_only", "bind::readonly"],
    "constraint": ["constraint", "bind::constraint"],
    "constraint_message": ["constraint_message", "constraining_message", "bind::jr:constraintMsg"],
    "required_message": ["required_message", "requiredmsg", "bind::jr:requiredMsg"],
    "calculation": ["calculation", "calculate", "bind::calculate"],
    "custom": ["bind::foo"],
    "custom2": ["bind::odk:length"],
    "noapp": ["no_app_error_string", "noapperrorstring", "bind::jr:noAppErrorString"],
}
LOGIC = ["relevant", "required", "readonly", "constraint", "constraint_message", "required_message", "calculation",
         "custom"]
BASE = ["type", "name", "label", "parameters", "trigger", "appearance", "hint"]

# (type, extra cells, may carry a calculation cell, may carry a trigger)
TYPES = [
    ("text", {}), ("integer", {}), ("decimal", {}), ("note", {}), ("date", {}), ("time", {}), ("dateTime", {}),
    ("geopoint", {"parameters": "allow-mock-accuracy=true"}), ("geotrace", {}), ("geoshape", {}), ("barcode", {}),
    ("image", {"parameters": "max-pixels=320"}), ("audio", {"parameters": "quality=normal"}), ("video", {}), ("file", {}),
    ("acknowledge", {}), ("select_one l1", {}), ("select_multiple l1", {}), ("select_one l1 or_other", {}),
    ("rank l1", {}), ("select_one_from_file f.csv", {}),
    ("range", {}), ("range", {"parameters": "start=1 end=9 step=2"}),
    ("range", {"parameters": "start=0.5 end=4.5 step=0.5"}), ("range", {"parameters": "start=0;end=1;step=0.1"}),
    ("range", {"parameters": "start=1.0, end=10, step=1"}),
    ("calculate", {"label": None}), ("hidden", {"label": None}),
    ("start", {"label": None}), ("end", {"label": None}), ("today", {"label": None}), ("deviceid", {"label": None}),
    ("username", {"label": None}), ("email", {"label": None}), ("phonenumber", {"label": None}),
    ("start-geopoint", {"label": None}),
]


def cell_value(col: str, i: int, style: int = 0) -> str:
    """Distinct per (column, row index) so that any cross-row / cross-column mix-up is visible."""
    if col == "relevant":
        return ["${first} > %d" % i, "${first} != '' and ${second} < %d" % i, "true() or %d" % i][style % 3]
    if col == "required":
        return ["yes", "no", "true()", "${first} = %d" % i, "TRUE", "false()"][style % 6]
    if col == "readonly":
        return ["yes", "${second} = %d" % i, "no", "true()", "False"][style % 5]
    if col == "constraint":
        return [". < %d00" % i, ". != ${first} and . > -%d" % i, "regex(., '^[a-z]{%d}$')" % i][style % 3]
    if col == "constraint_message":
        return ["cm %d" % i, "Must be < %d & > 0 \"q\"" % i][style % 2]
    if col == "required_message":
        return ["rm %d" % i, "Need <it> %d" % i][style % 2]
    if col == "calculation":
        return ["%d + 1" % i, "${first} * %d" % i, "concat('c', '%d')" % i, "if(${second} > %d, 'a', 'b')" % i][style % 4]
    if col == "custom":
        return ["bar%d" % i, "${first}-%d" % i][style % 2]
    if col == "custom2":
        return str(100 + i)
    if col == "noapp":
        return "no app %d" % i
    raise KeyError(col)


def build(rows: list[dict], order: list[str], spell: dict[str, str], settings=None) -> WB:
    """rows use canonical column ids; `order` is the column order (canonical ids), `spell` the header spelling."""
    used = [c for c in order if any(c in r for r in rows)]
    for r in rows:
        for c in r:
            if c not in used:
                used.append(c)
    headers = [spell.get(c, c) for c in used]
    wb = WB()
    wb["survey"] = (headers, [[r.get(c) for c in used] for r in rows])
    wb["choices"] = ([*CHOICES[0]], [list(r) for r in CHOICES[1]])
    if settings:
        wb["settings"] = (list(settings), [list(settings.values())])
    return wb


def mkrow(t, extra, name, i, cols, style=0, trigger=False):
    r = {"type": t, "name": name, "label": f"L {name}"}
    for k, v in extra.items():
        if v is None:
            r.pop(k, None)
        else:
            r[k] = v
    for c in cols:
        r[c] = cell_value(c, i, style + len(c))
    if t == "calculate" and "calculation" not in r:
        r["calculation"] = cell_value("calculation", i, style)
    if trigger:
        r["trigger"] = "${first}"
    return r


FIRST = [{"type": "integer", "name": "first", "label": "First"}, {"type": "integer", "name": "second", "label": "Second"}]


def cases(tier: str, seed: int) -> list[Case]:
    rnd = random.Random(seed * 104729 + 5)
    out: list[Case] = []
    std_spell = {c: SPELL[c][0] for c in SPELL}

    def add(name, rows, order=None, spell=None, settings=None):
        out.append(Case(f"C05-{name}", wb=build(rows, order or [*BASE, *LOGIC, "custom2", "noapp"], spell or std_spell,
                                              settings), origin="C05"))

    # 1. every type x every single logic column (alias spelling rotates), neighbours carry different values
    n = 0
    for ti, (t, extra) in enumerate(TYPES):
        for ci, col in enumerate([*LOGIC, "custom2", "noapp"]):
            n += 1
            spell = {c: SPELL[c][(ti + ci) % len(SPELL[c])] for c in SPELL}
            others = [c for c in LOGIC if c != col and c != "calculation"]
            rows = [*FIRST,
                    mkrow("text", {}, "before", 1, [others[(ti + ci) % len(others)]], ti),
                    mkrow(t, extra, "target", 2, [col], ti + ci),
                    mkrow("integer", {}, "after", 3, [others[(ti + ci + 1) % len(others)]], ci)]
            add(f"type-col-{n}", rows, spell=spell)
        # all logic columns at once + nothing at all
        add(f"type-all-{ti}", [*FIRST, mkrow(t, extra, "target", 2, LOGIC, ti), mkrow("text", {}, "plain", 3, [])])
        add(f"type-none-{ti}", [*FIRST, mkrow("text", {}, "before", 1, LOGIC, ti), mkrow(t, extra, "target", 2, []),
                                mkrow("text", {}, "after", 3, LOGIC, ti + 1)])

    # 2. all subsets of the logic columns on a mixed form (trigger rows, decimal ranges, nesting), several column orders
    cols7 = ["relevant", "required", "readonly", "constraint", "constraint_message", "required_message", "calculation"]
    subsets = [list(s) for k in range(len(cols7) + 1) for s in itertools.combinations(cols7, k)]
    if tier == "quick":
        subsets = [s for s in subsets if len(s) <= 2 or len(s) >= 6] + rnd.sample([s for s in subsets if 2 < len(s) < 6], 30)
    for si, sub in enumerate(subsets):
        order = [*BASE, *LOGIC]
        mode = si % 4
        if mode == 1:
            order = [*LOGIC[::-1], *BASE]
        elif mode == 2:
            order = ["calculation", *BASE, *[c for c in LOGIC if c != "calculation"]]
        elif mode == 3:
            rnd.shuffle(order)
        spell = {c: rnd.choice(SPELL[c]) for c in SPELL}
        nocalc = [c for c in sub if c != "calculation"]
        rows = [*FIRST,
                mkrow("text", {}, "a", 1, sub, si),
                mkrow("range", {"parameters": "start=0.5 end=9.5 step=0.5"}, "rdec", 2, nocalc, si + 1),
                mkrow("text", {}, "trg", 3, sub, si + 2, trigger=True),
                {"type": "begin group", "name": "g", "label": "G", **{c: cell_value(c, 4, si) for c in nocalc
                                                                         if c in ("relevant", "readonly")}},
                mkrow("integer", {}, "b", 5, [], si),
                mkrow("decimal", {}, "trg2", 6, sub, si + 3, trigger=True),
                {"type": "begin repeat", "name": "r", "label": "R", **{c: cell_value(c, 7, si) for c in nocalc
                                                                          if c == "relevant"}},
                mkrow("select_one l1", {}, "c", 8, nocalc, si + 4),
                mkrow("range", {"parameters": "start=1 end=2 step=0.25"}, "rdec2", 9, sub, si + 5),
                mkrow("calculate", {"label": None}, "d", 10, nocalc, si + 6),
                {"type": "end repeat"},
                mkrow("note", {}, "e", 11, nocalc, si + 7),
                {"type": "end group"},
                mkrow("range", {"parameters": "start=1 end=5 step=1"}, "rint", 12, sub, si + 8)]
        add(f"subset-{si}", rows, order=order, spell=spell)

    # 3. column order permutations of a trigger+calculation row with every other logic column
    perm_cols = ["relevant", "required", "calculation", "constraint", "custom"]
    perms = list(itertools.permutations(perm_cols))
    if tier == "quick":
        perms = perms[::3]
    for pi, perm in enumerate(perms):
        rows = [*FIRST, mkrow("text", {}, "t1", 1, perm_cols, pi, trigger=True),
                mkrow("integer", {}, "t2", 2, perm_cols, pi + 1), mkrow("decimal", {}, "t3", 3, ["calculation", "custom"],
                                                                        pi, trigger=True)]
        add(f"perm-{pi}", rows, order=[*perm, *BASE])

    # 4. translated / referencing messages, notes, audit parameters, disabled and comment rows, namespaced bind::
    add("messages-translated", [*FIRST, {"type": "text", "name": "a", "label::English (en)": "A", "label::French (fr)": "Af",
                                         "constraint": ". != 'x'", "constraint_message::English (en)": "no x",
                                         "constraint_message::French (fr)": "pas de x", "required": "yes",
                                         "required_message::French (fr)": "requis"},
                                {"type": "text", "name": "b", "label": "B", "constraint": ". != 'y'",
                                 "constraint_message": "not ${first}", "required": "true()", "required_message": "need ${a}"}],
        order=["type", "name"])
    add("audit", [*FIRST, {"type": "audit", "parameters": "track-changes=true identify-user=true "
                                                          "track-changes-reasons=on-form-edit"}])
    add("audit-location", [*FIRST, {"type": "audit", "name": "audit", "parameters":
                                    "location-priority=balanced location-min-interval=60 location-max-age=120"}])
    add("disabled-and-comments", [*FIRST, {**mkrow("text", {}, "gone", 1, LOGIC), "disabled": "yes"},
                                  {"relevant": "a stray comment"}, {}, mkrow("text", {}, "kept", 2, LOGIC),
                                  {**mkrow("text", {}, "kept2", 3, ["relevant"]), "disabled": "no"}])
    add("external-rows", [*FIRST, {"type": "xml-external", "name": "ext1"}, mkrow("text", {}, "a", 1, LOGIC),
                          {"type": "csv-external", "name": "ext2"}])
    add("custom-ns", [*FIRST, {**mkrow("text", {}, "a", 1, ["relevant"]), "bind::ex:kind": "K1", "bind::odk:length": "12"},
                      {**mkrow("text", {}, "b", 2, []), "bind::ex:kind": "K2"}],
        settings={"namespaces": 'ex="http://example.org/ex"'})
    add("names-prefix", [*FIRST, mkrow("text", {}, "q1", 1, ["relevant"]), mkrow("text", {}, "q10", 2, ["constraint"]),
                         mkrow("text", {}, "q1_other", 3, ["required"]), mkrow("select_one l1 or_other", {}, "q", 4, LOGIC),
                         {"type": "begin repeat", "name": "q1r", "label": "R", "repeat_count": "${first} + 1",
                          "relevant": "${second} = 7"},
                         mkrow("text", {}, "q11", 5, LOGIC), {"type": "end repeat"}])


    # 6. names reused in different sections (legal as long as nobody writes ${that_name}): the bind of a row must
    #    not depend on what unrelated rows elsewhere are called
    out.extend(_reuse_family(tier, rnd))
    for i in range({"quick": 150, "thorough": 3000}[tier]):
        out.append(_random_reuse_case(rnd, i))

    # 5. random sparse forms
    for i in range({"quick": 500, "thorough": 6000}[tier]):
        out.append(_random_case(rnd, i))
    return out


def _random_case(rnd: random.Random, i: int) -> Case:
    rows, stack = list(FIRST), []
    all_cols = [*LOGIC, "custom2", "noapp"]
    k = 0
    for _ in range(rnd.randint(2, 10)):
        k += 1
        x = rnd.random()
        if x < 0.2 and len(stack) < 3:
            kind = rnd.choice(["group", "repeat"])
            r = {"type": f"begin {kind}", "name": f"s{k}", "label": "S"}
            for c in ("relevant", "readonly", "custom"):
                if rnd.random() < 0.3:
                    r[c] = cell_value(c, k, rnd.randrange(6))
            rows.append(r)
            stack.append(kind)
            k += 1
            rows.append(mkrow("text", {}, f"q{k}", k, [c for c in all_cols if rnd.random() < 0.3], rnd.randrange(12)))
            continue
        if x < 0.3 and stack:
            rows.append({"type": f"end {stack.pop()}"})
            continue
        t, extra = rnd.choice(TYPES)
        cols = [c for c in all_cols if rnd.random() < rnd.choice([0.1, 0.3, 0.6])]
        trig = rnd.random() < 0.25 and "label" in {**{"label": 1}, **extra} and extra.get("label", 1) is not None
        r = mkrow(t, extra, f"q{k}", k, cols, rnd.randrange(12), trigger=trig)
        if rnd.random() < 0.05:
            r["disabled"] = rnd.choice(["yes", "no"])
        rows.append(r)
    while stack:
        rows.append({"type": f"end {stack.pop()}"})
    if rows[-1]["type"].startswith("end") and rnd.random() < 0.5:
        rows.append(mkrow("text", {}, "tail", 99, rnd.sample(all_cols, 2)))
    order = [*BASE, *all_cols, "disabled"]
    if rnd.random() < 0.7:
        rnd.shuffle(order)
    spell = {c: rnd.choice(SPELL[c]) for c in SPELL}
    return Case(f"C05-rand-{i}", wb=build(rows, order, spell), origin="C05")


# ------------------------------------------------------------------- name reuse across sections

REF_COLS = ["relevant", "required", "readonly", "constraint", "calculation", "custom", "noapp", "constraint_message",
            "required_message"]


def ref_cell(col: str, i: int, a: str, b: str, style: int = 0) -> str:
    """A cell of logic column `col` that references ${a} (and, in some styles, ${b}); distinct per (col, i)."""
    if col == "relevant":
        return ["${%s} > %d" % (a, i), "${%s} != '' and ${%s} < %d" % (a, b, i), "%d < ${%s}" % (i, b)][style % 3]
    if col == "required":
        return ["${%s} = %d" % (a, i), "${%s}=${%s} or %d" % (b, a, i)][style % 2]
    if col == "readonly":
        return ["${%s} = %d" % (b, i), "not(${%s} > %d)" % (a, i)][style % 2]
    if col == "constraint":
        return [". >= ${%s}" % a, ". != ${%s} and . > ${%s} - %d" % (a, b, i), "(. > ${%s}) or (%d > ${%s})" % (b, i, a)][style % 3]
    if col == "calculation":
        return ["${%s} * %d" % (a, i), "if(${%s} > %d, ${%s}, 'b')" % (b, i, a), "concat(${%s}, '%d', ${%s})" % (a, i, a)][style % 3]
    if col == "custom":
        return ["${%s}-%d" % (a, i), "x ${%s} y ${%s} %d" % (b, a, i)][style % 2]
    if col == "noapp":
        return ["install ${%s} first (%d)" % (a, i), "${%s} or ${%s}: %d" % (b, a, i)][style % 2]
    if col == "constraint_message":
        return "at least ${%s} (%d)" % (a, i)
    if col == "required_message":
        return "needed when ${%s} is %d" % (b, i)
    raise KeyError(col)


def _referrers(prefix: str, i0: int, a: str, b: str, style: int, wname: str | None = None) -> list[dict]:
    """Rows of several types whose logic cells reference ${a} / ${b}: one row with every column, one row per column."""
    w = wname or f"{prefix}w"
    rows = [{"type": "integer", "name": w, "label": "W",
             **{c: ref_cell(c, i0, a, b, style + k) for k, c in enumerate(REF_COLS) if c != "calculation"}},
            {"type": "calculate", "name": f"{prefix}calc", "calculation": ref_cell("calculation", i0 + 1, a, b, style)}]
    types = ["text", "decimal", "select_one l1", "note", "date", "range", "select_multiple l1", "geopoint"]
    for k, c in enumerate(REF_COLS):
        if c in ("constraint_message", "required_message"):
            continue
        rows.append({"type": types[(k + style) % len(types)], "name": f"{prefix}w{k}", "label": f"W{k}",
                     c: ref_cell(c, i0 + 2 + k, a, b, style + k + 1)})
    return rows


def _g(kind, name, *children, **cells):
    return [{"type": f"begin {kind}", "name": name, "label": name.upper(), **cells}, *[r for ch in children for r in
            (ch if isinstance(ch, list) else [ch])], {"type": f"end {kind}"}]


def _q(name, t="integer", **cells):
    return {"type": t, "name": name, "label": name.upper(), **cells}


def _reuse_shapes(N: str, W: str, style: int):
    """(shape name, rows) - forms in which a section called N holds (or is next to) rows with references to their
    neighbours; W is the name of the row that carries every logic column. `top` is a top-level target."""
    top = [_q("top"), _q("top2")]
    inner = [_q("a"), _q("b")]
    return [
        ("repeat", [*top, *_g("repeat", N, *inner, _referrers("", 1, "a", "b", style, W), _referrers("t", 20, "a", "top", style))]),
        ("group-repeat", [*top, *_g("group", "og", _q("oa"), *_g("repeat", N, *inner, _referrers("", 1, "b", "a", style, W),
                                                            _referrers("o", 20, "oa", "b", style)))]),
        ("repeat-repeat", [*top, *_g("repeat", "outer", _q("oa"), _q("ob"),
                                     *_g("repeat", N, *inner, _referrers("", 1, "a", "b", style, W),
                                         _referrers("o", 20, "oa", "a", style), _referrers("t", 40, "top2", "ob", style)),
                                     _referrers("p", 60, "ob", "oa", style))]),
        ("repeat-group", [*top, *_g("repeat", N, _q("ra"), *_g("group", "ig", *inner, _referrers("", 1, "a", "b", style, W),
                                                              _referrers("r", 20, "ra", "a", style)),
                                    _referrers("d", 40, "ra", "a", style))]),
        ("group-in-repeat", [*top, *_g("repeat", "outer", _q("oa"), *_g("group", N, *inner,
                                                                        _referrers("", 1, "a", "oa", style, W)),
                                       _referrers("d", 20, "b", "oa", style))]),
        ("outer-of-two", [*top, *_g("repeat", N, *inner, *_g("repeat", "inr", _q("ia"), _referrers("", 1, "a", "ia", style, W),
                                                            _referrers("t", 20, "ia", "top", style)),
                                    _referrers("d", 40, "b", "a", style))]),
        ("repeat-group-repeat", [*top, *_g("repeat", "outer", _q("oa"), *_g("group", "mg", _q("ma"),
                                           *_g("repeat", N, *inner, _referrers("", 1, "a", "ma", style, W),
                                               _referrers("o", 20, "oa", "b", style))))]),
        ("plain-group", [*top, *_g("group", N, *inner, _referrers("", 1, "a", "b", style, W), _referrers("t", 20, "top", "b", style))]),
    ]


def _reuse_clashes(names: list[str]):
    """(clash name, rows before, rows after): other rows, in other sections, that carry a name of `names` again.
    A name is reused by questions only: two sections may not share a name."""
    n0 = names[0]
    out = [("none", [], [])]
    for nm in names:
        out.append((f"q-after-{nm}", [], _g("group", "contact", _q(nm, "text"), _q("cz"))))
        out.append((f"q-before-{nm}", _g("group", "contact", _q("cz"), _q(nm, "text", relevant="${cz} = 1")), []))
    out.append(("q-deep", [], _g("group", "contact", *_g("repeat", "crep", _q("cz"), *_g("group", "cg", _q(n0, "decimal",
                                                                                      constraint=". > ${cz}"))))))
    out.append(("q-thrice", _g("group", "contact", _q(n0, "text")), _g("repeat", "crep", _q("cz"), _q(n0, "text", required="${cz} = 2"))))
    if len(names) > 1:
        out.append(("q-all", _g("group", "contact", *[_q(nm, "text") for nm in names]),
                    _g("group", "contact2", *[_q(nm, "note") for nm in names[::-1]])))
    return out


def _reuse_family(tier: str, rnd: random.Random) -> list[Case]:
    out = []
    n = 0
    for style in range(1 if tier == "quick" else 3):
        for si in range(len(_reuse_shapes("members", "w", style))):
            sname, rows = _reuse_shapes("members", "w", style)[si]
            sections = [r["name"] for r in rows if r["type"].startswith("begin")]
            # which names come back elsewhere: the section holding the referrers, another section on the path,
            # the referring row itself
            for clash, before, after in _reuse_clashes(["members", *[s_ for s_ in sections if s_ != "members"][:1], "w"]):
                n += 1
                spell = {c: SPELL[c][(n + len(c)) % len(SPELL[c])] for c in SPELL}
                order = [*BASE, *LOGIC] if n % 3 else [*LOGIC[::-1], *BASE]
                out.append(Case(f"C05-reuse-{sname}-{clash}-s{style}", wb=build([*before, *rows, *after], order, spell),
                                origin="C05"))
            # the reused name sits inside the section of that name (repeat members > group > question members)
            sub = _g("group", "own", _q("members", "text", relevant=ref_cell("relevant", 90, "a", "top", style)))
            k = max(i for i, r in enumerate(rows) if r["type"].startswith("end"))
            out.append(Case(f"C05-reuse-{sname}-q-inside-own-section-s{style}",
                            wb=build([*rows[:k], *sub, *rows[k:]], [*BASE, *LOGIC], {c: SPELL[c][0] for c in SPELL}), origin="C05"))
            # the row that carries the logic has the name of its own section
            _, rows2 = _reuse_shapes("members", "members", style)[si]
            out.append(Case(f"C05-reuse-{sname}-row-named-as-its-section-s{style}",
                            wb=build(rows2, [*BASE, *LOGIC], {c: SPELL[c][-1] for c in SPELL}), origin="C05"))
    return out


def _random_reuse_case(rnd: random.Random, i: int) -> Case:
    """Random tree of groups / repeats. Referenced rows have unique names (t1, t2, ...); every other name comes from a
    small pool, unique among siblings only (sections unique in the whole form), so names repeat across sections."""
    pool = ["n1", "n2", "n3", "members", "w"]
    sections_used: set[str] = set()
    targets: list[str] = []
    counter = [0]

    def fresh_target():
        counter[0] += 1
        targets.append(f"t{counter[0]}")
        return targets[-1]

    def section(depth: int, taken: set) -> list:
        rows = []
        for _ in range(rnd.randint(2, 4) if depth else rnd.randint(3, 5)):
            x = rnd.random()
            if x < 0.35 and depth < 3:
                free = [p_ for p_ in pool if p_ not in sections_used and p_ not in taken]
                if not free:
                    continue
                nm = rnd.choice(free)
                sections_used.add(nm)
                taken.add(nm)
                rows.append(("sec", rnd.choice(["repeat", "repeat", "group"]), nm, section(depth + 1, set())))
            elif x < 0.6:
                rows.append(("t", fresh_target()))
            else:
                free = [p_ for p_ in pool if p_ not in taken]
                if not free:
                    continue
                nm = rnd.choice(free)
                taken.add(nm)
                rows.append(("w", nm))
        if not any(r[0] == "t" for r in rows):
            rows.insert(0, ("t", fresh_target()))
        return rows

    tree = section(0, set())
    flat: list[dict] = []
    k = [0]

    def emit(rows, scope: list[str]):
        local = [r[1] for r in rows if r[0] == "t"]
        for r in rows:
            k[0] += 1
            if r[0] == "t":
                flat.append(_q(r[1]))
            elif r[0] == "w":
                near = scope + local
                a = rnd.choice(near) if rnd.random() < 0.8 else rnd.choice(targets)
                b = rnd.choice(near) if rnd.random() < 0.6 else rnd.choice(targets)
                cols = [c for c in REF_COLS if c != "calculation" and rnd.random() < 0.5]
                t = rnd.choice(["integer", "text", "select_one l1", "decimal", "note", "calculate"])
                row = _q(r[1], t, **{c: ref_cell(c, k[0], a, b, rnd.randrange(6)) for c in cols})
                if t == "calculate":
                    row.pop("label")
                    row["calculation"] = ref_cell("calculation", k[0], a, b, rnd.randrange(6))
                flat.append(row)
            else:
                _, kind, nm, children = r
                cells = {}
                if rnd.random() < 0.3 and (scope or local):
                    cells["relevant"] = ref_cell("relevant", k[0], rnd.choice(scope + local), rnd.choice(targets), rnd.randrange(3))
                flat.append({"type": f"begin {kind}", "name": nm, "label": nm.upper(), **cells})
                emit(children, scope + local)
                flat.append({"type": f"end {kind}"})

    emit(tree, [])
    order = [*BASE, *LOGIC]
    if rnd.random() < 0.5:
        rnd.shuffle(order)
    spell = {c: rnd.choice(SPELL[c]) for c in SPELL}
    return Case(f"C05-reuse-rand-{i}", wb=build(flat, order, spell), origin="C05")
