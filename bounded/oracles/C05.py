"""C05 (bounded e2e): logic cells reach the right bind unchanged, with the type the table prescribes.

Expectation (from the source workbook only; bounded.corpus.sv_* helpers):
 * every question / group / repeat / audit row has at most one <bind>, whose nodeset is the row's node;
 * its attribute set is exactly: the XLSForm type table's data type (+ jr:preload / jr:preloadParams for
   metadata, readonly for notes, decimal for ranges with decimal parameters), the row's logic cells
   (relevant, required, readonly, constraint, calculate, jr:constraintMsg, jr:requiredMsg,
   jr:noAppErrorString, bind::x under any alias / column order) and the parameter-derived bind attributes
   (audit odk:*, image orx:max-pixels, audio odk:quality, geo odk:allow-mock-accuracy, save_to);
 * values equal the cell text after ${ref} substitution (any XPath ending in /ref is accepted, the right
   path is C03's business) and yes/no -> true()/false(); translated messages (and messages with ${ref})
   are carried by a jr:itext() reference;
 * rows with no logic get no logic attribute, rows that produce nothing (disabled, comment, external
   instance) get no bind, and no bind exists for a node that is neither a row nor a documented generated node.
Not demanded: where `calculate` goes on rows with a trigger (setvalue; C10), the type of rows with a bind::type
cell or of types outside the table, yes/no normalisation in expression columns (either spelling accepted).
"""
from __future__ import annotations

import itertools
import random
import re

from bounded import corpus
from bounded.corpus import Case, Result, WB, XForm

USES_DEFAULT_CORPUS = True
N_GENERATED = {"quick": 150, "thorough": 1500}
TIME_BUDGET_S = {"quick": 60, "thorough": 900}

ITEXT = re.compile(r"^jr:itext\('[^']+'\)$")
CONVERTIBLE = {"readonly", "required", "relevant", "constraint", "calculate"}
STRICT_YESNO = {"readonly", "required"}
MESSAGES = {"jr:constraintMsg", "jr:requiredMsg", "jr:noAppErrorString"}
RE_TL = re.compile(r"^(generated_table_list_label_|reserved_name_for_field_list_labels_)\d+$")
ANY = object()


def V(key, what):
    return {"key": f"C05:{key}", "what": what}


def _extra_ns(settings: dict) -> dict:
    out = {}
    ns = settings.get("namespaces")
    if ns:
        for part in ns.split():
            if part.count("=") == 1:
                p, u = part.split("=")
                out[u.strip("\"'")] = p
    return out


def expected_binds(wb: WB, rootname: str):
    """({nodeset: (SRow, {attr: expected})}, generated-nodeset predicate). Expected values: str (exact),
    regex (must match), tuple of alternatives, ANY (present, value free), or the key is in `free` (may be absent)."""
    rows = corpus.sv_survey_model(wb)
    settings = {k.strip(): v for k, v in corpus.sv_settings_record(wb).items()}
    if any(k.lower() in ("flat", "add_none_option") for k in settings):
        raise corpus.SvUnsupported("flat/add_none_option")
    exp, generated = {}, set()
    for sr in rows:
        if sr.kind in ("nothing", "end", "external"):
            continue
        nodeset = "/" + "/".join((rootname, *sr.path))
        if nodeset in exp:
            raise corpus.SvUnsupported("duplicate path")
        attrs, free = {}, set()
        cells = sr.cells
        has_trigger = corpus.sv_row_get(cells, "trigger") is not None
        if sr.kind in ("question", "audit"):
            spec = corpus.SV_XLSFORM_TYPES.get(sr.type) if sr.type else None
            if spec is None:
                free |= {"type", "jr:preload", "jr:preloadParams", "constraint", "readonly"}
            else:
                attrs["type"] = spec["bind"]
                if spec["preload"]:
                    attrs["jr:preload"] = spec["preload"]
                    attrs["jr:preloadParams"] = spec["params"]
                if spec["readonly"]:
                    attrs["readonly"] = spec["readonly"]
            try:
                params = corpus.sv_parse_parameters(corpus.sv_row_get(cells, "parameters"))
            except corpus.SvUnsupported:
                params = None
            if params is None:
                free |= {"type"}
            elif sr.type == "range":
                dotted = [v for v in params.values() if "." in v]
                if dotted:
                    try:
                        nonzero = any(float(v) != 0 for v in dotted)
                    except ValueError:
                        nonzero = None
                    if nonzero:
                        attrs["type"] = "decimal"
                    else:
                        free.add("type")
                        attrs.pop("type", None)
            elif sr.type in ("image", "photo") and "max-pixels" in params:
                attrs["orx:max-pixels"] = params["max-pixels"]
            elif sr.type == "audio" and "quality" in params:
                attrs["odk:quality"] = params["quality"]
            elif sr.type in ("geopoint", "geotrace", "geoshape") and "allow-mock-accuracy" in params:
                attrs["odk:allow-mock-accuracy"] = params["allow-mock-accuracy"]
            elif sr.type == "audit":
                for k in ("track-changes", "identify-user", "track-changes-reasons", "location-priority",
                          "location-min-interval", "location-max-age"):
                    if k in params:
                        attrs[f"odk:{k}"] = params[k]
        for tok, val in cells.items():
            if tok[0] != "bind" or len(tok) < 2:
                continue
            k = tok[1]
            if len(tok) > 3:
                raise corpus.SvUnsupported("deep bind column")
            if len(tok) == 3:
                if k not in MESSAGES:
                    raise corpus.SvUnsupported("translated non-message bind column")
                attrs[k] = ITEXT
                continue
            if any(len(t2) == 3 and t2[:2] == tok for t2 in cells):
                continue    # a translated spelling of the same message exists: carried by itext
            if k == "type":
                attrs["type"] = ANY
                continue
            if k == "calculate" and has_trigger:
                attrs.pop(k, None)
                free.add(k)
                continue
            if k in ("jr:constraintMsg", "jr:requiredMsg") and "${" in val:
                attrs[k] = ITEXT
            elif k in CONVERTIBLE and (val in corpus.SV_YES or val in corpus.SV_NO):
                norm = "true()" if val in corpus.SV_YES else "false()"
                attrs[k] = norm if k in STRICT_YESNO else (norm, val)
            elif "${" in val:
                attrs[k] = corpus.sv_ref_regex(val)
            else:
                attrs[k] = val
        exp[nodeset] = (sr, attrs, free)
        parent = nodeset.rsplit("/", 1)[0]
        if sr.kind == "repeat":
            cnt = corpus.sv_row_get(cells, "control", "jr:count")
            if cnt is not None and not corpus.SV_RE_PLAIN_REF.match(cnt):
                generated.add(f"{parent}/{sr.name}_count")
        if sr.kind == "question" and sr.or_other:
            generated.add(f"{nodeset}_other")
    metaprefix = f"/{rootname}/meta/"

    def is_generated(ns_: str) -> bool:
        if ns_ in generated:
            return True
        if ns_.startswith(metaprefix) and ns_ != metaprefix + "audit":
            return True
        return bool(RE_TL.match(ns_.rsplit("/", 1)[-1]))

    return exp, is_generated, _extra_ns(settings)


def _value_ok(want, have: str) -> bool:
    if want is ANY:
        return True
    if isinstance(want, tuple):
        return have in want
    if hasattr(want, "match"):
        return bool(want.match(have))
    return have == want


def _show(want):
    if want is ANY:
        return "<any>"
    if hasattr(want, "pattern"):
        return f"/{want.pattern}/"
    return repr(want)


def check(case: Case, res: Result, ctx: dict) -> list[dict]:
    if not res.ok or res.xform is None:
        return []
    wb = corpus.sv_case_wb(case)
    if wb is None:
        return []
    x, err = corpus.parse_ok(res.xform)
    if x is None or x.iroot is None:
        return []
    rootname = XForm.local(x.iroot.tag)
    try:
        exp, is_generated, extra_ns = expected_binds(wb, rootname)
    except corpus.SvUnsupported:
        return []
    out = []
    by_nodeset: dict[str, list] = {}
    for b in x.binds():
        by_nodeset.setdefault(b.get("nodeset"), []).append(b)
    for ns_, bs in by_nodeset.items():
        if len(bs) > 1:
            out.append(V("duplicate-bind", f"{len(bs)} binds for nodeset {ns_}"))
        if ns_ not in exp and not is_generated(ns_ or ""):
            out.append(V("bind-for-non-row", f"bind {dict(bs[0].attrib)} belongs to no survey row / documented generated node"))
    for ns_, (sr, attrs, free) in exp.items():
        bs = by_nodeset.get(ns_, [])
        kind = sr.type if sr.kind in ("question", "audit") and sr.type else sr.kind
        if not bs:
            if attrs:
                what = sorted(attrs)
                cls = "type-only" if set(attrs) <= {"type", "jr:preload", "jr:preloadParams"} else "logic"
                out.append(V(f"missing-bind:{cls}", f"row {sr.idx + 2} ({kind}) {ns_}: no bind, expected attributes {what}"))
            continue
        got = {corpus.sv_qname_prefixed(k, extra_ns): v for k, v in bs[0].attrib.items() if k != "nodeset"}
        for k, want in attrs.items():
            if k not in got:
                out.append(V(f"dropped:{k}", f"row {sr.idx + 2} ({kind}) {ns_}: attribute {k} (expected {_show(want)}) is missing; "
                                             f"bind has {got}"))
            elif not _value_ok(want, got[k]):
                out.append(V(f"wrong-value:{k}", f"row {sr.idx + 2} ({kind}) {ns_}: {k}={got[k]!r}, expected {_show(want)}"))
        for k, v in got.items():
            if k not in attrs and k not in free:
                out.append(V(f"unsourced:{k}", f"row {sr.idx + 2} ({kind}) {ns_}: attribute {k}={v!r} has no source cell / "
                                               f"type-table entry (cells: { {'::'.join(t): c for t, c in sr.cells.items()} })"))
    seen, uniq = set(), []
    for v in out:
        if v["key"] not in seen:
            seen.add(v["key"])
            uniq.append(v)
    return uniq


# ----------------------------------------------------------------------------- cases

CHOICES = (["list_name", "name", "label"], [["l1", "a", "A"], ["l1", "b", "B"]])

# canonical logic column -> header spellings (aliases)
SPELL = {
    "relevant": ["relevant", "relevance", "bind::relevant"],
    "required": ["required", "bind::required"],
    "readonly": ["readonly", "read_only", "bind::readonly"],
    "constraint": ["constraint", "bind::constraint"],
    "constraint_message": ["constraint_message", "constraining_message", "bind::jr:constraintMsg"],
    "required_message": ["required_message", "requiredmsg", "bind::jr:requiredMsg"],
    "calculation": ["calculation", "calculate", "bind::calculate"],
    "custom": ["bind::foo"],
    "custom2": ["bind::odk:length"],
    "noapp": ["no_app_error_string", "noapperrorstring", "bind::jr:noAppErrorString"],
}
LOGIC = ["relevant", "required", "readonly", "constraint", "constraint_message", "required_message", "calculation",
         "custom"]
BASE = ["type", "name", "label", "parameters", "trigger", "appearance", "hint"]

# (type, extra cells, may carry a calculation cell, may carry a trigger)
TYPES = [
    ("text", {}), ("integer", {}), ("decimal", {}), ("note", {}), ("date", {}), ("time", {}), ("dateTime", {}),
    ("geopoint", {"parameters": "allow-mock-accuracy=true"}), ("geotrace", {}), ("geoshape", {}), ("barcode", {}),
    ("image", {"parameters": "max-pixels=320"}), ("audio", {"parameters": "quality=normal"}), ("video", {}), ("file", {}),
    ("acknowledge", {}), ("select_one l1", {}), ("select_multiple l1", {}), ("select_one l1 or_other", {}),
    ("rank l1", {}), ("select_one_from_file f.csv", {}),
    ("range", {}), ("range", {"parameters": "start=1 end=9 step=2"}),
    ("range", {"parameters": "start=0.5 end=4.5 step=0.5"}), ("range", {"parameters": "start=0;end=1;step=0.1"}),
    ("range", {"parameters": "start=1.0, end=10, step=1"}),
    ("calculate", {"label": None}), ("hidden", {"label": None}),
    ("start", {"label": None}), ("end", {"label": None}), ("today", {"label": None}), ("deviceid", {"label": None}),
    ("username", {"label": None}), ("email", {"label": None}), ("phonenumber", {"label": None}),
    ("start-geopoint", {"label": None}),
]


def cell_value(col: str, i: int, style: int = 0) -> str:
    """Distinct per (column, row index) so that any cross-row / cross-column mix-up is visible."""
    if col == "relevant":
        return ["${first} > %d" % i, "${first} != '' and ${second} < %d" % i, "true() or %d" % i][style % 3]
    if col == "required":
        return ["yes", "no", "true()", "${first} = %d" % i, "TRUE", "false()"][style % 6]
    if col == "readonly":
        return ["yes", "${second} = %d" % i, "no", "true()", "False"][style % 5]
    if col == "constraint":
        return [". < %d00" % i, ". != ${first} and . > -%d" % i, "regex(., '^[a-z]{%d}$')" % i][style % 3]
    if col == "constraint_message":
        return ["cm %d" % i, "Must be < %d & > 0 \"q\"" % i][style % 2]
    if col == "required_message":
        return ["rm %d" % i, "Need <it> %d" % i][style % 2]
    if col == "calculation":
        return ["%d + 1" % i, "${first} * %d" % i, "concat('c', '%d')" % i, "if(${second} > %d, 'a', 'b')" % i][style % 4]
    if col == "custom":
        return ["bar%d" % i, "${first}-%d" % i][style % 2]
    if col == "custom2":
        return str(100 + i)
    if col == "noapp":
        return "no app %d" % i
    raise KeyError(col)


def build(rows: list[dict], order: list[str], spell: dict[str, str], settings=None) -> WB:
    """rows use canonical column ids; `order` is the column order (canonical ids), `spell` the header spelling."""
    used = [c for c in order if any(c in r for r in rows)]
    for r in rows:
        for c in r:
            if c not in used:
                used.append(c)
    headers = [spell.get(c, c) for c in used]
    wb = WB()
    wb["survey"] = (headers, [[r.get(c) for c in used] for r in rows])
    wb["choices"] = ([*CHOICES[0]], [list(r) for r in CHOICES[1]])
    if settings:
        wb["settings"] = (list(settings), [list(settings.values())])
    return wb


def mkrow(t, extra, name, i, cols, style=0, trigger=False):
    r = {"type": t, "name": name, "label": f"L {name}"}
    for k, v in extra.items():
        if v is None:
            r.pop(k, None)
        else:
            r[k] = v
    for c in cols:
        r[c] = cell_value(c, i, style + len(c))
    if t == "calculate" and "calculation" not in r:
        r["calculation"] = cell_value("calculation", i, style)
    if trigger:
        r["trigger"] = "${first}"
    return r


FIRST = [{"type": "integer", "name": "first", "label": "First"}, {"type": "integer", "name": "second", "label": "Second"}]


def cases(tier: str, seed: int) -> list[Case]:
    rnd = random.Random(seed * 104729 + 5)
    out: list[Case] = []
    std_spell = {c: SPELL[c][0] for c in SPELL}

    def add(name, rows, order=None, spell=None, settings=None):
        out.append(Case(f"C05-{name}", wb=build(rows, order or [*BASE, *LOGIC, "custom2", "noapp"], spell or std_spell,
                                              settings), origin="C05"))

    # 1. every type x every single logic column (alias spelling rotates), neighbours carry different values
    n = 0
    for ti, (t, extra) in enumerate(TYPES):
        for ci, col in enumerate([*LOGIC, "custom2", "noapp"]):
            n += 1
            spell = {c: SPELL[c][(ti + ci) % len(SPELL[c])] for c in SPELL}
            others = [c for c in LOGIC if c != col and c != "calculation"]
            rows = [*FIRST,
                    mkrow("text", {}, "before", 1, [others[(ti + ci) % len(others)]], ti),
                    mkrow(t, extra, "target", 2, [col], ti + ci),
                    mkrow("integer", {}, "after", 3, [others[(ti + ci + 1) % len(others)]], ci)]
            add(f"type-col-{n}", rows, spell=spell)
        # all logic columns at once + nothing at all
        add(f"type-all-{ti}", [*FIRST, mkrow(t, extra, "target", 2, LOGIC, ti), mkrow("text", {}, "plain", 3, [])])
        add(f"type-none-{ti}", [*FIRST, mkrow("text", {}, "before", 1, LOGIC, ti), mkrow(t, extra, "target", 2, []),
                                mkrow("text", {}, "after", 3, LOGIC, ti + 1)])

    # 2. all subsets of the logic columns on a mixed form (trigger rows, decimal ranges, nesting), several column orders
    cols7 = ["relevant", "required", "readonly", "constraint", "constraint_message", "required_message", "calculation"]
    subsets = [list(s) for k in range(len(cols7) + 1) for s in itertools.combinations(cols7, k)]
    if tier == "quick":
        subsets = [s for s in subsets if len(s) <= 2 or len(s) >= 6] + rnd.sample([s for s in subsets if 2 < len(s) < 6], 30)
    for si, sub in enumerate(subsets):
        order = [*BASE, *LOGIC]
        mode = si % 4
        if mode == 1:
            order = [*LOGIC[::-1], *BASE]
        elif mode == 2:
            order = ["calculation", *BASE, *[c for c in LOGIC if c != "calculation"]]
        elif mode == 3:
            rnd.shuffle(order)
        spell = {c: rnd.choice(SPELL[c]) for c in SPELL}
        nocalc = [c for c in sub if c != "calculation"]
        rows = [*FIRST,
                mkrow("text", {}, "a", 1, sub, si),
                mkrow("range", {"parameters": "start=0.5 end=9.5 step=0.5"}, "rdec", 2, nocalc, si + 1),
                mkrow("text", {}, "trg", 3, sub, si + 2, trigger=True),
                {"type": "begin group", "name": "g", "label": "G", **{c: cell_value(c, 4, si) for c in nocalc
                                                                         if c in ("relevant", "readonly")}},
                mkrow("integer", {}, "b", 5, [], si),
                mkrow("decimal", {}, "trg2", 6, sub, si + 3, trigger=True),
                {"type": "begin repeat", "name": "r", "label": "R", **{c: cell_value(c, 7, si) for c in nocalc
                                                                          if c == "relevant"}},
                mkrow("select_one l1", {}, "c", 8, nocalc, si + 4),
                mkrow("range", {"parameters": "start=1 end=2 step=0.25"}, "rdec2", 9, sub, si + 5),
                mkrow("calculate", {"label": None}, "d", 10, nocalc, si + 6),
                {"type": "end repeat"},
                mkrow("note", {}, "e", 11, nocalc, si + 7),
                {"type": "end group"},
                mkrow("range", {"parameters": "start=1 end=5 step=1"}, "rint", 12, sub, si + 8)]
        add(f"subset-{si}", rows, order=order, spell=spell)

    # 3. column order permutations of a trigger+calculation row with every other logic column
    perm_cols = ["relevant", "required", "calculation", "constraint", "custom"]
    perms = list(itertools.permutations(perm_cols))
    if tier == "quick":
        perms = perms[::3]
    for pi, perm in enumerate(perms):
        rows = [*FIRST, mkrow("text", {}, "t1", 1, perm_cols, pi, trigger=True),
                mkrow("integer", {}, "t2", 2, perm_cols, pi + 1), mkrow("decimal", {}, "t3", 3, ["calculation", "custom"],
                                                                        pi, trigger=True)]
        add(f"perm-{pi}", rows, order=[*perm, *BASE])

    # 4. translated / referencing messages, notes, audit parameters, disabled and comment rows, namespaced bind::
    add("messages-translated", [*FIRST, {"type": "text", "name": "a", "label::English (en)": "A", "label::French (fr)": "Af",
                                         "constraint": ". != 'x'", "constraint_message::English (en)": "no x",
                                         "constraint_message::French (fr)": "pas de x", "required": "yes",
                                         "required_message::French (fr)": "requis"},
                                {"type": "text", "name": "b", "label": "B", "constraint": ". != 'y'",
                                 "constraint_message": "not ${first}", "required": "true()", "required_message": "need ${a}"}],
        order=["type", "name"])
    add("audit", [*FIRST, {"type": "audit", "parameters": "track-changes=true identify-user=true "
                                                          "track-changes-reasons=on-form-edit"}])
    add("audit-location", [*FIRST, {"type": "audit", "name": "audit", "parameters":
                                    "location-priority=balanced location-min-interval=60 location-max-age=120"}])
    add("disabled-and-comments", [*FIRST, {**mkrow("text", {}, "gone", 1, LOGIC), "disabled": "yes"},
                                  {"relevant": "a stray comment"}, {}, mkrow("text", {}, "kept", 2, LOGIC),
                                  {**mkrow("text", {}, "kept2", 3, ["relevant"]), "disabled": "no"}])
    add("external-rows", [*FIRST, {"type": "xml-external", "name": "ext1"}, mkrow("text", {}, "a", 1, LOGIC),
                          {"type": "csv-external", "name": "ext2"}])
    add("custom-ns", [*FIRST, {**mkrow("text", {}, "a", 1, ["relevant"]), "bind::ex:kind": "K1", "bind::odk:length": "12"},
                      {**mkrow("text", {}, "b", 2, []), "bind::ex:kind": "K2"}],
        settings={"namespaces": 'ex="http://example.org/ex"'})
    add("names-prefix", [*FIRST, mkrow("text", {}, "q1", 1, ["relevant"]), mkrow("text", {}, "q10", 2, ["constraint"]),
                         mkrow("text", {}, "q1_other", 3, ["required"]), mkrow("select_one l1 or_other", {}, "q", 4, LOGIC),
                         {"type": "begin repeat", "name": "q1r", "label": "R", "repeat_count": "${first} + 1",
                          "relevant": "${second} = 7"},
                         mkrow("text", {}, "q11", 5, LOGIC), {"type": "end repeat"}])

    # 5. random sparse forms
    for i in range({"quick": 500, "thorough": 6000}[tier]):
        out.append(_random_case(rnd, i))
    return out


def _random_case(rnd: random.Random, i: int) -> Case:
    rows, stack = list(FIRST), []
    all_cols = [*LOGIC, "custom2", "noapp"]
    k = 0
    for _ in range(rnd.randint(2, 10)):
        k += 1
        x = rnd.random()
        if x < 0.2 and len(stack) < 3:
            kind = rnd.choice(["group", "repeat"])
            r = {"type": f"begin {kind}", "name": f"s{k}", "label": "S"}
            for c in ("relevant", "readonly", "custom"):
                if rnd.random() < 0.3:
                    r[c] = cell_value(c, k, rnd.randrange(6))
            rows.append(r)
            stack.append(kind)
            k += 1
            rows.append(mkrow("text", {}, f"q{k}", k, [c for c in all_cols if rnd.random() < 0.3], rnd.randrange(12)))
            continue
        if x < 0.3 and stack:
            rows.append({"type": f"end {stack.pop()}"})
            continue
        t, extra = rnd.choice(TYPES)
        cols = [c for c in all_cols if rnd.random() < rnd.choice([0.1, 0.3, 0.6])]
        trig = rnd.random() < 0.25 and "label" in {**{"label": 1}, **extra} and extra.get("label", 1) is not None
        r = mkrow(t, extra, f"q{k}", k, cols, rnd.randrange(12), trigger=trig)
        if rnd.random() < 0.05:
            r["disabled"] = rnd.choice(["yes", "no"])
        rows.append(r)
    while stack:
        rows.append({"type": f"end {stack.pop()}"})
    if rows[-1]["type"].startswith("end") and rnd.random() < 0.5:
        rows.append(mkrow("text", {}, "tail", 99, rnd.sample(all_cols, 2)))
    order = [*BASE, *all_cols, "disabled"]
    if rnd.random() < 0.7:
        rnd.shuffle(order)
    spell = {c: rnd.choice(SPELL[c]) for c in SPELL}
    return Case(f"C05-rand-{i}", wb=build(rows, order, spell), origin="C05")
