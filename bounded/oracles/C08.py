"""C08 (bounded e2e): each language shows exactly the text written for it.

For every survey row (question, group, repeat) and every choices row, and every translatable column kind
(label, hint, guidance_hint, constraint_message, required_message, image, audio, video, big-image), the oracle
computes from the XForm what a user of each language is SHOWN (itext value after resolving the jr:itext reference
of the control / bind / choice item, or the inline text when there is no reference) and compares it with the
SOURCE cells of that row:

    expected(row, kind, lang) =  cell[kind::lang]                        if written
                                 cell[kind] (unsuffixed)                 if lang is the form's default language
                                 '-' (text kinds) / absent (media)       otherwise

  * choices rows: EVERY row of every list is compared for EVERY kind and language, also rows (and kinds) for which
    no cell is filled in any language (unlabelled choices are legitimate input, pyxform only warns): such a row must
    show nothing ('-' or no value; media: no value) to every language -- never a sibling row's text. A list is looked
    at wherever it is rendered: its secondary instance (item -> itextId -> translation/text/value, or inline
    <label>), the inline <item>s of every search() select that uses it, and -- per select control that offers it
    through an <itemset> (plain, choice_filter, randomize(), in groups / repeats, next to other selects on the same
    list) -- what that control's own <label ref> designates on each <item> (jr:itext(child) -> the child's text ->
    the language's translation and media forms; a child path -> its inline text): an instance and itext that are
    right do not help a user whose select does not point at them;
  * inline (non-itext) text is shown to every language, which is only legitimate when the row has nothing but the
    unsuffixed cell for that kind;
  * languages checked = all translations of the form + every language written in the row + the default language
    when the row has an unsuffixed cell on an itext-bearing kind (so a missing translation shows up as lost text);
  * no translation may exist for a language that no column header names (the default language is allowed only if
    some unsuffixed translatable cell is filled).

The source model is an independent reading of the XLSForm conventions (name::language / name:language headers,
begin/end nesting for paths, settings.default_language > convert(default_language=) > 'default'). Forms using
header aliases this reader does not model (media::image, bind::jr:constraintMsg, caption, ...) are skipped.
Texts are compared after collapsing whitespace; ${ref} / <output> are compared as opaque tokens.
"""
from __future__ import annotations

import itertools
import random
import re

from bounded import corpus
from bounded.corpus import Case, WB, XF, NS

USES_DEFAULT_CORPUS = True
N_GENERATED = {"quick": 150, "thorough": 1500}
TIME_BUDGET_S = {"quick": 80, "thorough": 900}

P = "C08"
JR = "{%s}" % NS["jr"]

TEXT_KINDS = ("label", "hint", "guidance_hint", "constraint_message", "required_message")
MEDIA_KINDS = ("image", "audio", "video", "big-image")
SURVEY_KINDS = TEXT_KINDS + MEDIA_KINDS
CHOICE_KINDS = ("label",) + MEDIA_KINDS
# first tokens that (de)alias into a translatable kind in ways this reader does not model -> skip the form
UNMODELLED_FIRST = {"media", "bind", "caption", "constraining_message", "requiredmsg", "jr", "control", "body"}
MEDIA_URI = {"image": "jr://images/", "big-image": "jr://images/", "audio": "jr://audio/", "video": "jr://video/"}


def _snake(s):
    return "_".join(s.split()).lower()


def _norm(s):
    if s is None:
        return None
    return " ".join(re.sub(r"\$\{[^}]*\}", "\x00", str(s)).split())


class SheetModel:
    """Translatable columns of one sheet: cols[(kind, lang|None)] = header, order[(kind, lang)] = column index."""

    def __init__(self, headers, kinds):
        self.ok = True
        self.cols, self.order, self.langs = {}, {}, set()
        named = [h for h in headers if h is not None]
        dc = any("::" in h for h in named)
        self.double_colon = dc
        for idx, h in enumerate(headers):
            if h is None:
                continue
            base, lang = corpus.split_lang_header(h, dc)
            first = _snake(base.split("::")[0].split(":")[0]) if base else ""
            if first in UNMODELLED_FIRST:
                self.ok = False
                continue
            kind = _snake(base)
            if lang is not None:
                self.langs.add(lang)
            if kind not in kinds:
                if "::" in (base or "") and _snake(base.split("::")[0]) in kinds:
                    self.ok = False  # label::a::b and the like
                continue
            if lang == "":
                self.ok = False
                continue
            if (kind, lang) in self.cols:
                self.ok = False  # two headers for the same column
                continue
            self.cols[(kind, lang)] = h
            self.order[(kind, lang)] = idx

    def cells(self, row: dict, kind):
        """(unsuffixed text | None, {lang: text})"""
        u, ex = None, {}
        for (k, lang), h in self.cols.items():
            if k != kind:
                continue
            v = row.get(h)
            if v in (None, ""):
                continue
            if lang is None:
                u = v
            else:
                ex[lang] = v
        return u, ex

    def unsuffixed_after_sibling(self, kind, ex_langs):
        """Source condition: the unsuffixed column of this kind stands to the right of a filled ::lang sibling."""
        if (kind, None) not in self.order:
            return False
        return any(self.order[(kind, None)] > self.order[(kind, l)] for l in ex_langs if (kind, l) in self.order)


def _ref_or_inline(e):
    """('ref', id) | ('inline', text) for a <label>/<hint> element."""
    r = e.get("ref")
    if r is not None:
        ids = corpus.literal_itext_ids(r)
        if ids:
            return ("ref", ids[0])
        return ("other", r)
    return ("inline", corpus.flatten_value(e))


def _attr_ref_or_inline(v):
    ids = corpus.literal_itext_ids(v)
    if ids and v.strip().startswith("jr:itext("):
        return ("ref", ids[0])
    return ("inline", v)


_CHILD_PATH = r"(?:\./)?([A-Za-z_][\w.\-]*)"
_NODESET = re.compile(r"^\s*(?:randomize\(\s*)?instance\(\s*'([^']+)'\s*\)/root/item(?![\w.\-/])")


def _itemset_refs(ctl):
    """(instance id, value ref, label ref, nodeset) of a select control that offers the items of an internal
    secondary instance through an <itemset>; None for anything else (inline items, selects from previous answers,
    nodesets this reader does not model)."""
    its = ctl.find(f"{XF}itemset")
    if its is None:
        return None
    m = _NODESET.match(its.get("nodeset") or "")
    val, lab = its.find(f"{XF}value"), its.find(f"{XF}label")
    if m is None or val is None or lab is None or val.get("ref") is None or lab.get("ref") is None:
        return None
    return (m.group(1), val.get("ref").strip(), lab.get("ref").strip(), its.get("nodeset"))


def _item_child(item, ref):
    m = re.fullmatch(_CHILD_PATH, ref)
    return item.find(f"{XF}{m.group(1)}") if m else None


def _resolve_on_item(item, label_ref):
    """What the itemset's label ref designates for one <item>: ('ref', itext id, None) | ('inline', text) |
    ('absent',) when the item has no such child; None when the ref is not a child path / jr:itext(child path)."""
    m = re.fullmatch(r"jr:itext\(\s*" + _CHILD_PATH + r"\s*\)", label_ref)
    if m:
        c = item.find(f"{XF}{m.group(1)}")
        return ("absent",) if c is None else ("ref", c.text or "", None)
    ids = corpus.literal_itext_ids(label_ref)
    if ids and label_ref.startswith("jr:itext("):
        return ("ref", ids[0], None)
    m = re.fullmatch(_CHILD_PATH, label_ref)
    if m:
        c = item.find(f"{XF}{m.group(1)}")
        return ("absent",) if c is None else ("inline", corpus.flatten_value(c))
    return None


def _compare(out, sheet, kind, who, u, ex, observed, it, langs_all, d, order_flag):
    """observed: ('ref', id, form) | ('inline', text) | ('absent',)"""
    is_media = kind in MEDIA_KINDS
    if not u and not ex:
        # NOTHING was written for this (row, kind) in any language: every language must be shown nothing
        # (the '-' placeholder, or no value at all; media: no value at all) -- never a sibling's text.
        if observed[0] == "absent":
            return
        for lang in (langs_all if observed[0] == "ref" else [None]):
            shown = it.shown(lang, observed[1], observed[2]) if observed[0] == "ref" else observed[1]
            if shown is None or (not is_media and _norm(shown) in ("", "-")):
                continue
            how = (f"itext id {observed[1]!r}" + (f" form {observed[2]!r}" if observed[2] else "")
                   if observed[0] == "ref" else "inline text")
            out.append({"key": f"{P}:{sheet}:{kind}:leak",
                        "what": f"{who}: no {kind} cell is filled for this row in any language, but users"
                                + (f" of language {lang!r}" if lang is not None else "")
                                + f" are shown {shown!r} ({how}; translations {langs_all})"})
            return
        return
    langs = list(dict.fromkeys([*langs_all, *ex.keys(), *([d] if u else [])]))
    for lang in langs:
        if lang in ex and lang == d and u:
            accept = [ex[lang], u]
        elif lang in ex:
            accept = [ex[lang]]
        elif lang == d and u:
            accept = [u]
        else:
            accept = [None] if is_media else ["-"]
        if is_media:
            accept = [None if a is None else MEDIA_URI[kind] + a for a in accept]
        if observed[0] == "ref":
            shown = it.shown(lang, observed[1], observed[2])
        elif observed[0] == "inline":
            shown = observed[1]
            if not ex and u and not is_media:
                accept = [u]  # inline text: the unsuffixed cell is what everybody sees
        else:
            shown = None
        if _norm(shown) in [_norm(a) for a in accept]:
            continue
        exp = accept[0]
        if exp in (None, "-"):
            cls = "leak"        # nothing was written for this language but some text/media is shown
        elif shown in (None, "-", ""):
            cls = "lost"        # written text is not shown
        else:
            cls = "wrong"       # some other text is shown
        key = f"{P}:{sheet}:{kind}:{cls}"
        if lang == d and lang in ex and u:
            # SOURCE condition: the row fills both the unsuffixed cell and the default language's own column
            # (either text would be acceptable; this is reported only when neither is shown)
            key = f"{P}:{sheet}:{kind}:unsuffixed-and-default-language-cells-both-filled"
        elif order_flag:
            # sub-class by a SOURCE condition (column order), one key per sheet/kind whatever the symptom
            key = f"{P}:{sheet}:{kind}:unsuffixed-column-after-translated-sibling"
        if observed[0] == "ref":
            how = f"itext id {observed[1]!r}" + (f" form {observed[2]!r}" if observed[2] else "")
        else:
            how = {"inline": "inline text", "absent": "no element/attribute/reference"}[observed[0]]
        out.append({"key": key, "what": f"{who}: {kind} for language {lang!r} should be {exp!r} (cells: unsuffixed="
                                        f"{u!r}, translated={ex!r}, default language {d!r}) but users are shown "
                                        f"{shown!r} ({how}; translations {langs_all})"})
        return  # one report per (row, kind)


def check(case, res, ctx):
    if not res.ok or not res.xform:
        return []
    wb = corpus.case_wb(case)
    if wb is None:
        return []
    xf, _ = corpus.parse_ok(res.xform)
    if xf is None or xf.model is None or xf.iroot is None:
        return []
    sh, _rows = corpus.wb_sheet(wb, "survey")
    ch, _crows = corpus.wb_sheet(wb, "choices")
    sm = SheetModel(sh, SURVEY_KINDS)
    cm = SheetModel(ch, CHOICE_KINDS)
    if not sm.ok or not cm.ok or "disabled" in sh:
        return []
    root = xf.local(xf.iroot.tag)
    elements = corpus.survey_elements(wb, root)
    if elements is None:
        return []
    d = corpus.source_default_language(case, wb)
    it = corpus.IText(xf)
    langs_all = list(dict.fromkeys(it.langs))
    out = []

    controls = corpus.body_controls(xf)
    binds = {b.get("nodeset"): b for b in xf.binds()}
    any_unsuffixed = False

    # ---------------- survey rows
    names_seen = {}
    for el in elements:
        names_seen[el["path"]] = names_seen.get(el["path"], 0) + 1
    for el in elements:
        if names_seen[el["path"]] > 1:
            continue
        cells = el["cells"]
        ctl = controls.get(el["path"])
        bind = binds.get(el["path"])
        who = f"survey row {el['row'] + 2} ({el['type']} {el['name']})"
        label = ctl.find(f"{XF}label") if ctl is not None else None
        hint = ctl.find(f"{XF}hint") if ctl is not None else None
        for kind in SURVEY_KINDS:
            u, ex = sm.cells(cells, kind)
            if u:
                any_unsuffixed = True
            if not u and not ex:
                continue
            if kind in ("constraint_message", "required_message"):
                if bind is None:
                    continue
                attr = JR + ("constraintMsg" if kind == "constraint_message" else "requiredMsg")
                v = bind.get(attr)
                if v is None:
                    observed = ("absent",)
                else:
                    m = _attr_ref_or_inline(v)
                    observed = ("ref", m[1], None) if m[0] == "ref" else ("inline", m[1])
            else:
                if ctl is None:
                    continue  # no body control for this row (calculate, metadata, ...): nothing is shown at all
                if kind == "label":
                    if label is None:
                        observed = ("absent",)
                    else:
                        m = _ref_or_inline(label)
                        if m[0] == "other":
                            continue
                        observed = ("ref", m[1], None) if m[0] == "ref" else ("inline", m[1])
                elif kind == "hint":
                    if hint is None:
                        observed = ("absent",)
                    else:
                        m = _ref_or_inline(hint)
                        if m[0] == "other":
                            continue
                        observed = ("ref", m[1], None) if m[0] == "ref" else ("inline", m[1])
                elif kind == "guidance_hint":
                    m = _ref_or_inline(hint) if hint is not None else ("absent",)
                    observed = ("ref", m[1], "guidance") if m[0] == "ref" else ("absent",)
                else:
                    m = _ref_or_inline(label) if label is not None else ("absent",)
                    observed = ("ref", m[1], kind) if m[0] == "ref" else ("absent",)
            _compare(out, "survey", kind, who, u, ex, observed, it, langs_all, d,
                     sm.unsuffixed_after_sibling(kind, ex.keys()) and bool(u))

    # ---------------- choices rows
    lists = {}
    for i, row in enumerate(corpus.sheet_dicts(wb, "choices")):
        ln = row.get("list_name", row.get("list name"))
        if ln is not None and "name" in row:
            lists.setdefault(ln, []).append((i, row))
    if "name" in ch and ("list_name" in ch or "list name" in ch):
        inst = {iid: e for iid, src, e in corpus.secondary_instances(xf) if src is None}
        # lists rendered inline (search()): EVERY select control that carries <item> children -> its list
        # through the type cell of the survey row
        inline = {}
        for el in elements:
            ctl = controls.get(el["path"])
            if ctl is None or el["kind"] != "question" or names_seen[el["path"]] > 1:
                continue
            items = ctl.findall(f"{XF}item")
            toks = el["type"].split()
            if items and len(toks) >= 2:
                ln = next((t for t in toks[1:] if t in lists), None)
                if ln is not None:
                    inline.setdefault(ln, []).append((f" as shown by survey row {el['row'] + 2} ({el['name']})", items))
        # lists rendered through an <itemset> (plain, choice_filter, randomize(), in groups/repeats, ...): what the
        # user of a language sees for a choice is what the CONTROL's <label ref> resolves to on the <item> of the
        # secondary instance its nodeset names (jr:itext(<child>) -> that child's text -> the language's
        # translation; a plain child path -> that child's inline text, the same for every language).
        via_itemset = {}
        for el in elements:
            ctl = controls.get(el["path"])
            if ctl is None or el["kind"] != "question" or names_seen[el["path"]] > 1:
                continue
            refs = _itemset_refs(ctl)
            toks = el["type"].split()
            if refs is None or len(toks) < 2:
                continue
            ln = next((t for t in toks[1:] if t in lists), None)
            if ln is None or refs[0] != ln or ln not in inst:
                continue  # which list a select offers is C09's business; only the texts of ITS list are looked at
            via_itemset.setdefault(ln, []).append(
                (f" as shown by survey row {el['row'] + 2} ({el['name']}: itemset {refs[3]!r}, label ref {refs[2]!r})",
                 refs))
        for ln, rows in lists.items():
            renderings = []
            if ln in inst:
                renderings.append(("instance", "", inst[ln].findall(f"{XF}root/{XF}item"), None))
            for where, items in inline.get(ln, []):
                renderings.append(("inline", where, items, None))
            for where, refs in via_itemset.get(ln, []):
                renderings.append(("itemset", where, inst[ln].findall(f"{XF}root/{XF}item"), refs))
            reported = set()
            for mode, where, items, refs in renderings:
                for pos, (ri, row) in enumerate(rows):
                    if pos >= len(items):
                        break
                    item = items[pos]
                    if mode == "itemset":
                        val = _item_child(item, refs[1])
                        if val is None or (val.text or "") != row["name"]:
                            break  # list content/order is C09's business; do not guess the pairing
                        obs_label = _resolve_on_item(item, refs[2])
                        if obs_label is None:
                            break  # a label ref this reader does not evaluate
                    elif mode == "instance":
                        nm = item.find(f"{XF}name")
                        if nm is None or (nm.text or "") != row["name"]:
                            break  # list content/order is C09's business; do not guess the pairing
                        tid = item.find(f"{XF}itextId")
                        lab = item.find(f"{XF}label")
                        if tid is not None:
                            obs_label = ("ref", tid.text or "", None)
                        elif lab is not None:
                            obs_label = ("inline", corpus.flatten_value(lab))
                        else:
                            obs_label = ("absent",)
                    else:
                        val = item.find(f"{XF}value")
                        if val is None or (val.text or "") != row["name"]:
                            break
                        lab = item.find(f"{XF}label")
                        if lab is None:
                            obs_label = ("absent",)
                        else:
                            m = _ref_or_inline(lab)
                            if m[0] == "other":
                                continue
                            obs_label = ("ref", m[1], None) if m[0] == "ref" else ("inline", m[1])
                    who = f"choices row {ri + 2} (list {ln!r} choice {row['name']!r}){where}"
                    # every choice row x every kind, INCLUDING rows/kinds with no cell filled in any language
                    for kind in CHOICE_KINDS:
                        if (ri, kind) in reported:
                            continue
                        u, ex = cm.cells(row, kind)
                        if u:
                            any_unsuffixed = True
                        if kind == "label":
                            observed = obs_label
                        else:
                            observed = ("ref", obs_label[1], kind) if obs_label[0] == "ref" else ("absent",)
                        n0 = len(out)
                        _compare(out, "choices", kind, who, u, ex, observed, it, langs_all, d,
                                 cm.unsuffixed_after_sibling(kind, ex.keys()) and bool(u))
                        if len(out) > n0:
                            reported.add((ri, kind))

    # ---------------- no invented translation
    named = set(sm.langs) | set(cm.langs)
    for lang in langs_all:
        if lang in named:
            continue
        if lang == d and any_unsuffixed:
            continue
        if lang == d and _has_dynamic_or_other_source(wb):
            continue
        out.append({"key": f"{P}:language-invented",
                    "what": f"translation {lang!r} exists but no column header names it (header languages "
                            f"{sorted(named)}, default language {d!r}, unsuffixed translatable cells filled: "
                            f"{any_unsuffixed}); translations {langs_all}"})
        break
    return out


def _has_dynamic_or_other_source(wb):
    """Unsuffixed texts on rows this reader did not pair with an element (kept lenient: any unsuffixed
    translatable cell anywhere on the survey/choices sheets)."""
    for sheet, kinds in (("survey", SURVEY_KINDS), ("choices", CHOICE_KINDS)):
        headers, _ = corpus.wb_sheet(wb, sheet)
        m = SheetModel(headers, kinds)
        for row in corpus.sheet_dicts(wb, sheet):
            for (k, lang), h in m.cols.items():
                if lang is None and row.get(h):
                    return True
    return False


# ------------------------------------------------------------------------------------------------ cases


def _h(kind, lang, delim):
    return kind if lang is None else f"{kind}{delim}{lang}"


KCODE = {"label": "LBL", "hint": "HNT", "guidance_hint": "GDN", "constraint_message": "CMS", "required_message": "RMS",
         "image": "IMG", "audio": "AUD", "video": "VID", "big-image": "BIG"}
_SLOT_CODES: dict = {}


def _cell(tag, kind, lang):
    """A text unique per (row, kind, language slot) that never CONTAINS a language name (upper-case codes only):
    the slot code is a stable number per language string."""
    if lang is None:
        slot = "P0"
    else:
        slot = _SLOT_CODES.setdefault(lang, f"T{len(_SLOT_CODES) + 1}")
    if kind in MEDIA_KINDS:
        ext = {"image": "png", "big-image": "jpg", "audio": "mp3", "video": "mp4"}[kind]
        return f"{tag.upper()}_{KCODE[kind]}_{slot}.{ext}"
    return f"{tag.upper()} {KCODE[kind]} {slot}"


def _order_headers(cols, order, rnd=None):
    """cols: list of (kind, lang). order: 'plain-first' | 'plain-last' | 'plain-middle' | 'shuffle'."""
    kinds = list(dict.fromkeys(k for k, _ in cols))
    out = []
    for k in kinds:
        mine = [c for c in cols if c[0] == k]
        plain = [c for c in mine if c[1] is None]
        tr = [c for c in mine if c[1] is not None]
        if order == "plain-first":
            out += plain + tr
        elif order == "plain-last":
            out += tr + plain
        elif order == "plain-middle":
            out += tr[:1] + plain + tr[1:]
        else:
            out += mine
    if order == "shuffle" and rnd is not None:
        rnd.shuffle(out)
    return out


def _configs(a, b):
    return [
        ("none", None, None),
        ("set-a", {"default_language": a}, None),
        ("arg-a", None, {"default_language": a}),
        ("set-other", {"default_language": "Klingon"}, None),
        ("set-b", {"default_language": b}, None),
        ("set-b-arg-a", {"default_language": b}, {"default_language": a}),
        ("arg-other", None, {"default_language": "Klingon"}),
    ]


def _mk(name, survey_rows, survey_headers, choices_rows=None, choices_headers=None, settings=None, kwargs=None):
    wb = WB()
    wb["survey"] = corpus.sheet_from_dicts(survey_rows, survey_headers)
    if choices_rows:
        wb["choices"] = corpus.sheet_from_dicts(choices_rows, choices_headers)
    if settings:
        wb["settings"] = corpus.sheet_from_dicts([settings])
    return Case(name, wb=wb, kwargs=dict(kwargs or {}), origin="C08-family")


def _support_cells(row, kinds_filled):
    """Columns a kind needs to be meaningful (constraint for its message, ...)."""
    if "constraint_message" in kinds_filled:
        row["constraint"] = ". != 'zz'"
    if "required_message" in kinds_filled:
        row["required"] = "yes"


def _survey_rows(shapes, fills, delim, tagp="s"):
    """shapes: per logical row 'q' | 'group' | 'repeat' | 'select'. fills[i] = set of (kind, lang)."""
    rows, logical = [], []
    for i, shape in enumerate(shapes):
        tag = f"{tagp}{i}"
        f = fills[i]
        r = {}
        for (k, lang) in f:
            r[_h(k, lang, delim)] = _cell(tag, k, lang)
        _support_cells(r, {k for k, _ in f})
        if shape == "q":
            rows.append({"type": ["text", "integer", "note"][i % 3], "name": tag, **r})
        elif shape == "select":
            rows.append({"type": "select_one cl", "name": tag, **r})
        else:
            rows.append({"type": f"begin {shape}", "name": tag, **r})
            rows.append({"type": "text", "name": f"{tag}in", "label": f"inner {tag}"})
            rows.append({"type": f"end {shape}"})
    return rows


def _ensure_visible(fill, slots, rnd, group=False):
    """Every row needs a label (or hint) somewhere to be accepted."""
    if not any(k in ("label", "hint") + (() if group else ()) for k, _ in fill):
        fill.add(("label", rnd.choice(slots) if rnd else slots[0]))
    if any(k == "big-image" for k, _ in fill):
        for k, lang in list(fill):
            if k == "big-image":
                fill.add(("image", lang))
    return fill


def fam_single(pairs, orders, delims, configs_of, sheets=("survey", "choices")):
    """One row, one kind, every non-empty fill over {unsuffixed, A, B} x column order x delimiter x default
    language configuration — on the survey sheet and on the choices sheet."""
    out = []
    for (a, b) in pairs:
        slots = (None, a, b)
        subsets = [s for n in (1, 2, 3) for s in itertools.combinations(slots, n)]
        for sheet in sheets:
            kinds = SURVEY_KINDS if sheet == "survey" else CHOICE_KINDS
            for kind in kinds:
                for sub in subsets:
                    for order in orders:
                        if order != "plain-first" and (None not in sub or len(sub) == 1):
                            continue
                        for delim in delims:
                            for cname, st, kw in configs_of(a, b):
                                fill = {(kind, lang) for lang in sub}
                                name = f"single[{sheet}|{a}|{b}|{kind}|{sub}|{order}|{delim}|{cname}]"
                                if sheet == "survey":
                                    if kind not in ("label", "hint"):
                                        fill.add(("label", None))
                                    if kind == "big-image":
                                        fill |= {("image", lang) for lang in sub}
                                    cols = _order_headers(sorted(fill, key=lambda c: (SURVEY_KINDS.index(c[0]), c[1] is not None, str(c[1]))), order)
                                    hdrs = ["type", "name", *[_h(k, l, delim) for k, l in cols]]
                                    rows = _survey_rows(["q"], [fill], delim)
                                    out.append(_mk(name, rows, hdrs, settings=st, kwargs=kw))
                                else:
                                    if kind == "big-image":
                                        fill |= {("image", lang) for lang in sub}
                                    cols = _order_headers(sorted(fill, key=lambda c: (CHOICE_KINDS.index(c[0]), c[1] is not None, str(c[1]))), order)
                                    hdrs = ["list_name", "name", *[_h(k, l, delim) for k, l in cols]]
                                    crow = {"list_name": "cl", "name": "c0"}
                                    for (k, lang) in fill:
                                        crow[_h(k, lang, delim)] = _cell("c0", k, lang)
                                    crows = [crow, {"list_name": "cl", "name": "c1"}]
                                    srows = [{"type": "select_one cl", "name": "s0", "label": "pick"}]
                                    out.append(_mk(name, srows, ["type", "name", "label"], crows, hdrs, st, kw))
    return out


LANG_TRIPLES = [("English", "French", "Swahili"), ("en", "fr", "default"), ("English (en)", "Français (fr)", "x y")]


def fam_random(rnd, n, max_rows=3, max_kinds=4, max_langs=3):
    """(row x kind x language) assignments up to 3 x 4 x 3 on BOTH sheets at once, random column order,
    delimiter style per sheet, default language configuration, group/repeat/select rows, shared list,
    optional search() consumer, translated and untranslated rows mixed, choice rows with no label (media only) or
    with nothing written at all."""
    out = []
    for i in range(n):
        langs = list(rnd.choice(LANG_TRIPLES))[: rnd.randint(1, max_langs)]
        slots = [None, *langs]
        sd = rnd.choice(["::", "::", ":"])
        cd = rnd.choice(["::", "::", ":"])
        if any(":" in l for l in langs):
            sd = cd = "::"
        density = rnd.choice([0.25, 0.5, 0.8])
        # survey
        n_rows = rnd.randint(1, max_rows)
        kinds = rnd.sample(SURVEY_KINDS, rnd.randint(1, max_kinds))
        shapes, fills = [], []
        for r in range(n_rows):
            shape = rnd.choice(["q", "q", "q", "select", "group", "repeat"])
            ks = [k for k in kinds if shape in ("q", "select") or k in ("label",) + MEDIA_KINDS]
            fill = {(k, s) for k in ks for s in slots if rnd.random() < density}
            if rnd.random() < 0.25:
                fill = {(k, s) for (k, s) in fill if s is None}   # an untranslated row among translated ones
            if shape in ("group", "repeat"):
                if not any(k == "label" for k, _ in fill):
                    fill.add(("label", rnd.choice(slots)))
            else:
                _ensure_visible(fill, slots, rnd)
            if any(k == "big-image" for k, _ in fill):
                fill |= {("image", l) for k, l in fill if k == "big-image"}
            shapes.append(shape)
            fills.append(fill)
        cols = sorted({c for f in fills for c in f}, key=lambda c: (SURVEY_KINDS.index(c[0]), c[1] is not None, str(c[1])))
        order = rnd.choice(["plain-first", "plain-last", "plain-middle", "shuffle"])
        cols = _order_headers(cols, order, rnd)
        support = ["constraint", "required"]
        front = ["type", "name"] if rnd.random() < 0.8 else ["name", "type"]
        shdr = [*front, *[_h(k, l, sd) for k, l in cols], *support]
        if rnd.random() < 0.3:
            shdr = [*support, *[_h(k, l, sd) for k, l in cols], *front]
        srows = _survey_rows(shapes, fills, sd)
        # choices
        n_c = rnd.randint(1, max_rows)
        ckinds = rnd.sample(CHOICE_KINDS, rnd.randint(1, min(max_kinds, len(CHOICE_KINDS))))
        if "label" not in ckinds and rnd.random() < 0.8:
            ckinds.append("label")
        cdensity = rnd.choice([0.0, 0.3, 0.6, 0.9])
        crows = []
        ccols = set()
        for c in range(n_c):
            fill = {(k, s) for k in ckinds for s in slots if rnd.random() < cdensity}
            if rnd.random() < 0.3:
                fill = {(k, s) for (k, s) in fill if s is None}
            if n_c > 1 and rnd.random() < 0.2:
                fill = set()    # a choice with nothing written in any language (legitimate: pyxform only warns)
            elif not any(k == "label" for k, _ in fill) and rnd.random() < 0.85:
                fill.add(("label", rnd.choice(slots) if rnd.random() < 0.7 else None))
            if any(k == "big-image" for k, _ in fill):
                fill |= {("image", l) for k, l in fill if k == "big-image"}
            ccols |= fill
            row = {"list_name": "cl", "name": f"c{c}"}
            for (k, lang) in fill:
                row[_h(k, lang, cd)] = _cell(f"c{c}", k, lang)
            crows.append(row)
        if rnd.random() < 0.3:
            crows.append({"list_name": "other_list", "name": "z", "label": "zed"})
            ccols.add(("label", None))
        ccols = _order_headers(sorted(ccols, key=lambda c: (CHOICE_KINDS.index(c[0]), c[1] is not None, str(c[1]))),
                               rnd.choice(["plain-first", "plain-last", "plain-middle", "shuffle"]), rnd)
        if not ccols:
            ccols = [("label", None)]
        chdr = ["list_name", "name", *[_h(k, l, cd) for k, l in ccols]]
        if "select" not in shapes:
            sel = {"type": rnd.choice(["select_one cl", "select_multiple cl", "rank cl"]), "name": "pick", "label": "pick"}
            if rnd.random() < 0.15 and not sel["type"].startswith("rank"):
                sel["appearance"] = "search('f')"
            srows.append(sel)
            if "label" not in shdr:
                shdr.append("label")
            if "appearance" in sel:
                shdr.append("appearance")
        elif rnd.random() < 0.3:
            srows.append({"type": "select_multiple cl", "name": "pick2", "label": "pick2"})
            if "label" not in shdr:
                shdr.append("label")
        cname, st, kw = rnd.choice(_configs(langs[0], langs[-1]))
        out.append(_mk(f"rnd[{i}|{len(langs)}L|{sd}|{cd}|{order}|{cname}]", srows, shdr, crows, chdr, st, kw))
    return out


def fam_pairs(pairs, delims):
    """Two rows x two kinds: the second row's fill is the complement / a shifted copy of the first, so text
    attached to a sibling row or a swapped language is visible. Exhaustive over fills of row 1."""
    out = []
    kind_pairs = [("label", "hint"), ("hint", "guidance_hint"), ("label", "image"), ("label", "constraint_message"),
                  ("required_message", "constraint_message"), ("image", "audio"), ("label", "big-image")]
    for (a, b) in pairs:
        slots = (None, a, b)
        cells = [(k, s) for k in (0, 1) for s in slots]
        for kp in kind_pairs:
            for mask in range(1, 64):
                f1 = {(kp[k], s) for j, (k, s) in enumerate(cells) if mask >> j & 1}
                f2 = {(kp[k], s) for j, (k, s) in enumerate(cells) if not (mask >> j & 1)}
                for delim in delims:
                    fills = []
                    for f in (set(f1), set(f2)):
                        if not any(k in ("label", "hint") for k, _ in f):
                            f.add(("label", None))
                        if any(k == "big-image" for k, _ in f):
                            f |= {("image", l) for k, l in f if k == "big-image"}
                        fills.append(f)
                    cols = sorted({c for f in fills for c in f}, key=lambda c: (SURVEY_KINDS.index(c[0]), c[1] is not None, str(c[1])))
                    hdrs = ["type", "name", *[_h(k, l, delim) for k, l in cols]]
                    cname, st, kw = _configs(a, b)[mask % 3]
                    out.append(_mk(f"pair[{a}|{b}|{kp}|{mask}|{delim}|{cname}]", _survey_rows(["q", "q"], fills, delim),
                                   hdrs, settings=st, kwargs=kw))
    return out


GAP_TRIGGERS = {
    # name: (columns as (kind, slot) with slot in None | 'A' | 'B', sparse variant makes sense)
    "tr": ([("label", "A"), ("label", "B")], True),                                   # translated labels
    "tr+plain": ([("label", None), ("label", "A"), ("label", "B")], True),            # unsuffixed + translated
    "media": ([("label", None), ("image", None)], True),                              # media makes the list use itext
    "tr-media": ([("label", "A"), ("label", "B"), ("image", "A"), ("audio", "B")], True),
    "ref": ([("label", None)], False),                                                # ${ref} in one label
    "plain": ([("label", None)], False),                                              # control: no itext at all
}
GAP_USAGES = ("one", "multi", "shared", "search", "search2", "or_other", "two-lists")


def _gap_masks(n):
    """Which of the n choice rows have NO label/media in any language (bit i = row i is empty)."""
    if n <= 4:
        return list(range(1 << n))
    picks = [0, 1, 1 << (n - 1), 1 << (n // 2), 1 | 1 << (n - 1), 0b110, 3 << (n - 2), 0b10101 & ((1 << n) - 1),
             0b01010 & ((1 << n) - 1), (1 << n) - 2, (1 << (n - 1)) - 1]
    return list(dict.fromkeys(picks))


def _gap_list(list_name, tag, n, mask, cols, sparse, shift, delim, ref_row):
    """Choice rows of one list. Non-empty rows fill every column ('full') or a row-dependent non-empty subset of
    the columns ('sparse': per-language gaps, label-only and media-only rows). Texts are unique per (row, column)."""
    subsets = [c for k in range(1, len(cols) + 1) for c in itertools.combinations(cols, k)]
    rows, j = [], 0
    for i in range(n):
        row = {"list_name": list_name, "name": f"{tag}{i}"}
        if not (mask >> i & 1):
            fill = subsets[(j * 2 + shift) % len(subsets)] if sparse else cols
            for (k, lang) in fill:
                row[_h(k, lang, delim)] = _cell(f"{tag}{i}", k, lang)
            if ref_row is not None and j == ref_row and ("label", None) in fill:
                row["label"] = row["label"] + " ${t0}"
            j += 1
        rows.append(row)
    return rows


def fam_choice_gaps(pairs, sizes, usages, every=1):
    """Choice rows with NOTHING written (no label, no media, in any language) -- legitimate input, pyxform only
    warns -- at every position of lists that use itext (translated labels / media / a ${ref} in a label) and of a
    plain list: all subsets of empty rows for lists of <= 4 rows, first/middle/last/several for longer ones;
    full and sparse per-language fills of the other rows; the list used by one select, several selects (group,
    repeat, rank), search() selects, or_other, and next to a second list whose rows are interleaved with it."""
    out, idx = [], 0
    for (a, b) in pairs:
        for n in sizes:
            for mask in _gap_masks(n):
                for tname, (tcols, has_sparse) in GAP_TRIGGERS.items():
                    cols = [(k, {None: None, "A": a, "B": b}[s]) for k, s in tcols]
                    for sparse in ((False, True) if has_sparse else (False,)):
                        for usage in usages:
                            idx += 1
                            if idx % every:
                                continue
                            delim = ":" if idx % 5 == 0 and ":" not in a + b else "::"
                            cfgs = _configs(a, b)
                            cname, st, kw = cfgs[(idx // 3) % len(cfgs)]
                            shift = idx % 7
                            ref_row = (idx % 3) if tname == "ref" else None
                            crows = _gap_list("cl", "c", n, mask, cols, sparse, shift, delim, ref_row)
                            srows = [{"type": "text", "name": "t0", "label": "T"}]
                            if usage == "one":
                                srows.append({"type": "select_one cl", "name": "s1", "label": "S1"})
                            elif usage == "multi":
                                srows.append({"type": "select_multiple cl", "name": "s1", "label": "S1"})
                            elif usage == "shared":
                                srows += [{"type": "select_one cl", "name": "s1", "label": "S1"},
                                          {"type": "begin group", "name": "g", "label": "G"},
                                          {"type": "select_multiple cl", "name": "s2", "label": "S2"},
                                          {"type": "begin repeat", "name": "r", "label": "R"},
                                          {"type": "rank cl", "name": "s3", "label": "S3"},
                                          {"type": "end repeat"}, {"type": "end group"}]
                            elif usage == "search":
                                srows.append({"type": "select_one cl", "name": "s1", "label": "S1", "appearance": "search('f')"})
                            elif usage == "search2":
                                srows += [{"type": "select_one cl", "name": "s1", "label": "S1", "appearance": "search('f')"},
                                          {"type": "select_multiple cl", "name": "s2", "label": "S2",
                                           "appearance": "minimal search('f')"}]
                            elif usage == "or_other":
                                srows += [{"type": "select_one cl or_other", "name": "s1", "label": "S1"},
                                          {"type": "select_multiple cl", "name": "s2", "label": "S2"}]
                            else:  # a second list with its own empty rows, rows of both lists interleaved
                                n2 = 3
                                mask2 = (mask * 5 + idx) % (1 << n2)
                                drows = _gap_list("d.l", "d", n2, mask2, cols, not sparse, shift + 1, delim, None)
                                inter = []
                                for i in range(max(len(crows), len(drows))):
                                    inter += drows[i:i + 1] + crows[i:i + 1]
                                crows = inter
                                srows += [{"type": "select_one cl", "name": "s1", "label": "S1"},
                                          {"type": "select_multiple d.l", "name": "s2", "label": "S2"}]
                            chdr = ["list_name", "name", *[_h(k, l, delim) for k, l in cols]]
                            if idx % 4 == 1:
                                chdr = [*[_h(k, l, delim) for k, l in reversed(cols)], "name", "list_name"]
                            name = f"gaps[{a}|{b}|n{n}|empty={mask:0{n}b}|{tname}|{'sparse' if sparse else 'full'}|{usage}|{delim}|{cname}]"
                            out.append(_mk(name, srows, ["type", "name", "label", "appearance"], crows, chdr, st, kw))
    return out


# every way a survey row can offer the choices of an internal list (what the row adds to the select's cells)
SEL_VARIANTS = {
    "plain": {"type": "select_one cl"},
    "multi": {"type": "select_multiple cl"},
    "rank": {"type": "rank cl"},
    "minimal": {"type": "select_one cl", "appearance": "minimal"},
    "filter": {"type": "select_one cl", "choice_filter": "cf = ${t0} or ${t0} = ''"},
    "filter-multi": {"type": "select_multiple cl", "choice_filter": "cf != 'zz'"},
    "rand": {"type": "select_one cl", "parameters": "randomize=true"},
    "rand-multi": {"type": "select_multiple cl", "parameters": "randomize=true"},
    "rand-seed": {"type": "select_one cl", "parameters": "randomize=true, seed=42"},
    "rand-seedref": {"type": "select_multiple cl", "parameters": "randomize=true seed=${n0}"},
    "rand-false": {"type": "select_one cl", "parameters": "randomize=false"},
    "rand-filter": {"type": "select_one cl", "parameters": "randomize=true", "choice_filter": "cf = ${t0}"},
    "rank-rand": {"type": "rank cl", "parameters": "seed=7 randomize=true"},
    "search": {"type": "select_one cl", "appearance": "search('f')"},
    "search-multi": {"type": "select_multiple cl", "appearance": "minimal search('f')"},
    "or_other": {"type": "select_one cl or_other"},
}
SEL_PLACEMENTS = ("top", "group", "repeat", "repeat>group")
SEL_TRIGGERS = [(t, sparse) for t, (_c, has_sparse) in GAP_TRIGGERS.items()
                for sparse in ((False, True) if has_sparse else (False,))]


def _variant_form(name, variants, placement, a, b, tname, sparse, mask, idx, cfg, bystanders=False):
    """One list `cl` (3 rows, itext trigger `tname`) offered by the given select variants, all of them at
    `placement`; t0 / n0 are the questions the filters and seeds refer to."""
    tcols, _ = GAP_TRIGGERS[tname]
    cols = [(k, {None: None, "A": a, "B": b}[s]) for k, s in tcols]
    delim = ":" if idx % 5 == 0 and ":" not in a + b else "::"
    crows = _gap_list("cl", "c", 3, mask, cols, sparse, idx % 7, delim, (idx % 3) if tname == "ref" else None)
    for i, r in enumerate(crows):
        r["cf"] = "xy"[i % 2]
    srows = [{"type": "text", "name": "t0", "label": "T"}, {"type": "integer", "name": "n0", "label": "N"}]
    opening = {"top": [], "group": ["group"], "repeat": ["repeat"], "repeat>group": ["repeat", "group"]}[placement]
    for j, o in enumerate(opening):
        srows.append({"type": f"begin {o}", "name": f"w{j}", "label": f"W{j}"})
    for j, v in enumerate(variants):
        srows.append({"name": f"s{j}", "label": f"S{j} {v}", **SEL_VARIANTS[v]})
    for o in reversed(opening):
        srows.append({"type": f"end {o}"})
    if bystanders:
        # selects whose choices do not come from the choices sheet at all, next to the ones that do
        srows += [{"type": "begin repeat", "name": "pr", "label": "PR"},
                  {"type": "text", "name": "pq", "label": "PQ"}, {"type": "end repeat"},
                  {"type": "select_one ${pq}", "name": "sp", "label": "SP"},
                  {"type": "select_one_from_file ext.csv", "name": "sf", "label": "SF"}]
    chdr = ["list_name", "name", *[_h(k, l, delim) for k, l in cols], "cf"]
    if idx % 4 == 1:
        chdr = ["cf", *[_h(k, l, delim) for k, l in reversed(cols)], "name", "list_name"]
    cname, st, kw = cfg
    return _mk(f"{name}[{a}|{b}|{'+'.join(variants)}|{placement}|{tname}|{'sparse' if sparse else 'full'}|"
               f"empty={mask:03b}|{delim}|{cname}{'|bystanders' if bystanders else ''}]",
               srows, ["type", "name", "label", "appearance", "parameters", "choice_filter"], crows, chdr, st, kw)


def fam_select_variants(pairs, full=False):
    """What each select SHOWS for its choices: every select variant (select_one / select_multiple / rank, plain,
    appearance, choice_filter, randomize with and without seed, randomize=false, randomize + choice_filter,
    search() on both select types, or_other) x every reason for a list to use itext (translated labels, unsuffixed + translated, media,
    translated media, a ${ref} in a label) and a plain list x full / sparse per-language fills x placement (top
    level, group, repeat, repeat > group) -- alone, and two variants sharing the list in either order (so that a
    variant that renders correctly cannot vouch for its neighbour), with default-language configurations, header
    delimiters, column orders and rows with nothing written rotating through the family."""
    out, idx = [], 0
    names = list(SEL_VARIANTS)
    for (a, b) in pairs:
        cfgs = _configs(a, b)
        for tname, sparse in SEL_TRIGGERS:
            for v in names:
                for placement in (SEL_PLACEMENTS if full else (None,)):
                    idx += 1
                    pl = placement or SEL_PLACEMENTS[idx % 4]
                    mask = (0, 0, 0b010, 0b001, 0b100, 0)[idx % 6]
                    out.append(_variant_form("variant", (v,), pl, a, b, tname, sparse, mask, idx,
                                             cfgs[idx % len(cfgs)], bystanders=idx % 5 == 2))
            for i, v in enumerate(names):
                for j, w in enumerate(names):
                    if i == j or (not full and (i + j) % 2 == (1 if i < j else 0)):
                        continue   # quick tier: each unordered pair once, the order alternating
                    if v.startswith("search") != w.startswith("search"):
                        continue   # a list used by a search() select cannot be shared with other selects
                    idx += 1
                    mask = (0, 0, 0, 0b010, 0b100)[idx % 5]
                    out.append(_variant_form("variants", (v, w), SEL_PLACEMENTS[(idx // 3) % 4], a, b, tname, sparse,
                                             mask, idx, cfgs[(idx // 2) % len(cfgs)], bystanders=idx % 7 == 3))
            idx += 1
            out.append(_variant_form("variants-all", tuple(n for n in names if not n.startswith("search") and n != "or_other"),
                                     SEL_PLACEMENTS[idx % 4], a, b, tname, sparse, 0, idx, cfgs[idx % len(cfgs)]))
    return out


def cases(tier, seed):
    rnd = random.Random(seed * 104729 + 8)
    thorough = tier == "thorough"
    out = []
    orders = ("plain-first", "plain-last", "plain-middle")
    if thorough:
        out += fam_single([("English", "French"), ("en", "default")], orders, ("::", ":"), _configs)
        out += fam_pairs([("English", "French")], ("::", ":"))
        out += fam_random(rnd, 6000)
        out += fam_choice_gaps([("English", "French"), ("en", "default"), ("English (en)", "x y")], (1, 2, 3, 4, 5, 6),
                               GAP_USAGES)
    else:
        out += fam_single([("English", "French")], orders, ("::", ":"), lambda a, b: _configs(a, b)[:5])
        out += fam_pairs([("English", "French")], ("::",))[::3]
        out += fam_random(rnd, 900)
        out += fam_choice_gaps([("English", "French")], (3, 4, 5), GAP_USAGES)
    # appended last so that the cases above (and their share of the time budget) are unchanged
    if thorough:
        out += fam_select_variants([("English", "French"), ("en", "default"), ("English (en)", "x y")], full=True)
    else:
        out += fam_select_variants([("English", "French")])
    return out
