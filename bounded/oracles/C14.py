"""C14 (bounded e2e): conversion is a pure function of its input.

Property (properties.jsonl, C14): converting the same input always yields byte-identical XForm text,
warnings and itemsets -- regardless of PYTHONHASHSEED, of which forms were converted earlier in the
same process, of conversions running concurrently in other threads, and of how many times the XML is
regenerated from the same survey object; a conversion leaves behind no state (stale-object caches,
mutated module-level tables, temporary files) that can change a later conversion.

The oracle is purely differential: it never computes an "expected XForm"; it only demands that the
observable triple (xform, warnings, itemsets) -- or the fact that the form is rejected -- is the same
for the same input under every configuration/history/schedule it tries:

  per case (check):
    * the same input converted a second time in the same process (whatever came in between);
    * survey.to_xml() called again (twice) on the survey object that produced the result, and
      survey._to_pretty_xml() called repeatedly, and to_xml() again after pretty generation;
      the pretty text must equal convert(pretty_print=True) of the same input;
  global (check_global):
    * PYTHONHASHSEED in a fixed list: one driver subprocess per seed converts the whole corpus
      (default corpus + cases()) in the same order; every record must equal the seed-0 record;
    * histories: driver subprocesses (seed 0) that convert the corpus reversed and shuffled, and one
      *fresh process per form* for the special batch; in-process permutations of the special batch;
      structural twins (same xpaths, group/repeat kinds differ) converted many times with
      gc.collect() in between so that object addresses are re-used;
    * N concurrent threads converting shuffled copies of the special batch;
    * deep snapshot of every module-level container (and class-level container) of the pyxform
      package, and of xml.etree's namespace table, before/after batches in different orders, and across
      two fresh processes that converted the same forms in opposite orders;
    * a private TMPDIR that must be empty after every batch (also after rejected forms).

Error *messages* of rejected forms are not compared (the property speaks of XForm text, warnings and
itemsets); a form that is accepted in one configuration and rejected in another is a violation.
"""
from __future__ import annotations

import gc
import json
import os
import random
import subprocess
import sys
import tempfile
import threading
import xml.etree.ElementTree as ET
from collections import Counter, deque

from bounded import corpus
from bounded.corpus import Case, Result, WB

USES_DEFAULT_CORPUS = True
N_GENERATED = {"quick": 120, "thorough": 1200}
TIME_BUDGET_S = {"quick": 60, "thorough": 900}

HASH_SEEDS = {"quick": [0, 1, 2, 3, 4, 5, 6, 7], "thorough": [0, 1, 2, 3, 4, 5, 6, 7, 8, 9, 10, 11, 42, 1234567, 4294967295]}
N_THREADS = {"quick": 8, "thorough": 16}
N_PERMS = {"quick": 4, "thorough": 16}
TWIN_ROUNDS = {"quick": 5, "thorough": 25}

VERIF = os.path.dirname(os.path.dirname(os.path.dirname(os.path.abspath(__file__))))


# ----------------------------------------------------------------------------- case families


def _md(name, text, tags=(), **kwargs):
    return Case(name, md=text, kwargs=dict(kwargs), origin="C14", tags=set(tags))


def _settings_family() -> list[Case]:
    """Forms using rarely used settings; each setting value appears in two variants so that a value that
    'sticks' in a module-level table is visible in the other form (and in forms without the setting)."""
    out = []
    base = """
| survey |
|        | type    | name | label |
|        | text    | q1   | Q1    |
|        | integer | q2   | Q2    |
"""
    out.append(_md("plain", base, tags={"special"}))
    out.append(_md("plain-named", base, tags={"special"}, form_name="data"))
    settings = [
        ("instance_id", ["deviceid", "simserial", "uid"]),
        ("instance_name", ["concat(${q1}, '-', ${q2})", "${q1}"]),
        ("namespaces", ['esri="http://esri.com/xforms"', 'foo="http://foo.example/ns" bar="http://bar.example/ns"',
                        'esri="http://other.example/esri"']),
        ("instance_xmlns", ["http://example.com/a", "http://example.com/b"]),
        ("public_key", ["MIIBIjANBgkqhkiG9w0BAQEFAAOCAQ8AMIIB", "QUJDREVGRw=="]),
        ("submission_url", ["https://a.example/submission", "https://b.example/s"]),
        ("auto_send", ["true", "false"]),
        ("auto_delete", ["true", "false"]),
        ("style", ["pages", "theme-grid"]),
        ("version", ["1", "2024010100"]),
        ("form_id", ["idA", "idB"]),
        ("form_title", ["Title A", "Title <B> & C"]),
        ("name", ["rootA", "rootB"]),
        ("attribute::xyz", ["1", "2"]),
        ("omit_instanceID", ["yes"]),
        ("clean_text_values", ["no", "yes"]),
        ("allow_choice_duplicates", ["yes"]),
        ("default_language", ["English (en)"]),
    ]
    for key, values in settings:
        for i, v in enumerate(values):
            md = base + f"| settings |\n|          | {key} |\n|          | {v.replace('|', chr(92) + '|')} |\n"
            out.append(_md(f"setting:{key}:{i}", md, tags={"special"}))
    # namespaces used by a bind attribute
    out.append(_md("namespaces-bind", """
| survey |
|        | type    | name | label | bind::esri:fieldType | bind::foo:x |
|        | text    | q1   | Q1    | esriFieldTypeString  | 1           |
|        | integer | q2   | Q2    |                      | 2           |
| settings |
|          | namespaces |
|          | esri="http://esri.com/xforms" foo="http://foo.example/ns" |
""", tags={"special"}))
    # settings combined
    out.append(_md("settings-combo", """
| survey |
|        | type    | name | label |
|        | text    | q1   | Q1    |
|        | integer | q2   | Q2    |
| settings |
|          | instance_id | instance_name | namespaces                  | form_id | version | public_key | submission_url |
|          | simserial   | ${q1}         | z="http://z.example/ns"     | combo   | 7       | QUJD       | https://c.example/x |
""", tags={"special"}))
    return out


def _entities_family() -> list[Case]:
    out = []
    out.append(_md("entities-create", """
| survey |
|        | type | name | label | save_to |
|        | text | a    | A     | p1      |
|        | text | b    | B     |         |
| entities |
|          | dataset | label |
|          | trees   | ${a}  |
""", tags={"special"}))
    out.append(_md("entities-create-2", """
| survey |
|        | type | name | label | save_to |
|        | text | a    | A     |         |
|        | text | b    | B     | p2      |
| entities |
|          | dataset | label        | create_if |
|          | shovels | concat(${b}) | ${a} != '' |
""", tags={"special"}))
    out.append(_md("entities-update", """
| survey |
|        | type | name | label | save_to |
|        | text | id   | Id    |         |
|        | text | a    | A     | p1      |
| entities |
|          | dataset | entity_id | update_if | label |
|          | trees   | ${id}     | true()    | ${a}  |
""", tags={"special"}))
    out.append(_md("entities-upsert", """
| survey |
|        | type | name | label |
|        | text | id   | Id    |
|        | text | a    | A     |
| entities |
|          | dataset | entity_id | update_if   | create_if   | label |
|          | trees   | ${id}     | ${id} != '' | ${id} = ''  | ${a}  |
""", tags={"special"}))
    return out


def _mutation_prone_family() -> list[Case]:
    """Forms whose generation is known to mutate objects (or_other on a shared list, search(), nsmap,
    external instances, translations padding) or goes through module-level memo tables."""
    out = []
    out.append(_md("or_other-shared-list", """
| survey |
|        | type                      | name | label |
|        | select_one l1 or_other    | s1   | S1    |
|        | select_multiple l1 or_other | s2 | S2    |
|        | select_one l1             | s3   | S3    |
| choices |
|         | list_name | name | label |
|         | l1        | a    | A     |
|         | l1        | b    | B     |
""", tags={"special"}))
    out.append(_md("or_other-translated", """
| survey |
|        | type                   | name | label::English (en) | label::French (fr) | label::Swahili (sw) |
|        | select_one l1 or_other | s1   | S1                  | S1f                | S1s                 |
|        | select_one l1 or_other | s2   | S2                  | S2f                | S2s                 |
| choices |
|         | list_name | name | label::English (en) | label::French (fr) | label::Swahili (sw) |
|         | l1        | a    | A                   | Af                 | As                  |
|         | l1        | b    | B                   | Bf                 |                     |
""", tags={"special"}))
    out.append(_md("search-appearance", """
| survey |
|        | type            | name | label | appearance               |
|        | select_one l1   | s1   | S1    | search('fruits')         |
|        | select_one l1   | s2   | S2    | minimal search('fruits') |
|        | select_one l2   | s3   | S3    |                          |
| choices |
|         | list_name | name     | label |
|         | l1        | name_key | name  |
|         | l2        | x        | X     |
""", tags={"special"}))
    out.append(_md("search-translated", """
| survey |
|        | type            | name | label::en | label::fr | appearance       |
|        | select_one l1   | s1   | S1        | S1f       | search('fruits') |
| choices |
|         | list_name | name     | label::en | label::fr |
|         | l1        | name_key | name      | nom       |
""", tags={"special"}))
    out.append(_md("pulldata-and-external-instances", """
| survey |
|        | type                         | name | label | calculation                         | choice_filter |
|        | text                         | k    | K     |                                     |               |
|        | calculate                    | c1   |       | pulldata('fruits', 'a', 'b', ${k})  |               |
|        | calculate                    | c2   |       | pulldata('veg', 'a', 'b', ${k})     |               |
|        | select_one_from_file f.csv   | s1   | S1    |                                     | a = ${k}      |
|        | select_one_from_file g.xml   | s2   | S2    |                                     |               |
|        | csv-external                 | ext1 |       |                                     |               |
|        | xml-external                 | ext2 |       |                                     |               |
""", tags={"special"}))
    out.append(_md("last-saved-trigger-audit", """
| survey |
|        | type      | name | label | default            | calculation | trigger | parameters |
|        | text      | a    | A     | ${last-saved#a}    |             |         |            |
|        | integer   | b    | B     |                    |             |         |            |
|        | calculate | c    |       |                    | ${b} * 2    | ${b}    |            |
|        | audit     | audit |      |                    |             |         | location-priority=balanced location-min-interval=60 location-max-age=300 |
|        | start-geopoint | sg | SG  |                    |             |         |            |
""", tags={"special"}))
    out.append(_md("choice-filter-and-select-from-repeat", """
| survey |
|        | type             | name | label     | choice_filter  |
|        | begin repeat     | r    | R         |                |
|        | text             | n    | N         |                |
|        | end repeat       |      |           |                |
|        | select_one ${n}  | pick | Pick      | ${n} != ''     |
|        | select_one l1    | s1   | S1 ${pick} | f = ${pick}   |
|        | select_multiple l1 | s2 | S2        |                |
| choices |
|         | list_name | name | label | f |
|         | l1        | a    | A     | 1 |
|         | l1        | b    | B     | 2 |
""", tags={"special"}))
    out.append(_md("dup-choices-allowed", """
| survey |
|        | type          | name | label |
|        | select_one l1 | s1   | S1    |
| choices |
|         | list_name | name | label |
|         | l1        | a    | A     |
|         | l1        | a    | A2    |
| settings |
|          | allow_choice_duplicates |
|          | yes |
""", tags={"special"}))
    out.append(_md("media-and-translations", """
| survey |
|        | type          | name | label::English (en) | label::French (fr) | image::English (en) | audio::French (fr) | video | hint::English (en) | guidance_hint::French (fr) | constraint | constraint_message::French (fr) | required | required_message::English (en) |
|        | text          | q1   | Q1                  | Q1f                | a.png               | a.mp3              | v.mp4 | H1                 | G1f                        | . != 'x'   | Non                             | yes      | Req                            |
|        | select_one l1 | s1   | S1                  |                    |                     |                    |       |                    |                            |            |                                 |          |                                |
| choices |
|         | list_name | name | label::English (en) | label::French (fr) | image::French (fr) | big-image::English (en) |
|         | l1        | a    | A                   | Af                 | c.png              | d.png                   |
|         | l1        | b    | B                   |                    |                    |                         |
""", tags={"special"}))
    out.append(_md("bad-language-and-warnings", """
| survey |
|        | type | name | label::Klingon | label::English (en) | hint::zz | relevance |
|        | text | q1   | Q1k            | Q1                  | H        | 1         |
|        | note | n1   | N              |                     |          |           |
| chioces |
|         | list_name | name | label |
|         | l1        | a    | A     |
""", tags={"special"}))
    out.append(_md("osm", """
| survey |
|        | type         | name | label |
|        | osm building | o1   | O1    |
|        | osm          | o2   | O2    |
| osm |
|     | list_name | name | label |
|     | building  | k1   | K1    |
|     | building  | k2   | K2    |
""", tags={"special"}))
    out.append(_md("range-rank-misc", """
| survey |
|        | type          | name | label | parameters            | appearance |
|        | range         | r1   | R1    | start=1 end=9 step=2  | picker     |
|        | rank l1       | k1   | K1    | randomize=true seed=3 |            |
|        | select_one l1 | s1   | S1    | randomize=true        | likert     |
|        | image         | i1   | I1    | max-pixels=100        | annotate   |
|        | geoshape      | g1   | G1    |                       |            |
| choices |
|         | list_name | name | label | geometry |
|         | l1        | a    | A     | 1 2 0 0  |
|         | l1        | b    | B     | 3 4 0 0  |
""", tags={"special"}))
    return out


def _external_choices_family() -> list[Case]:
    out = []
    wb = WB()
    wb["survey"] = (["type", "name", "label", "choice_filter"], [
        ["text", "state", "State", None],
        ["select_one_external cities", "city", "City", "state=${state}"],
        ["select_one_external wards", "ward", "Ward", "state=${state} and city=${city}"],
    ])
    wb["choices"] = (["list_name", "name", "label"], [["states", "s1", "S1"]])
    wb["external_choices"] = (["list_name", "name", "label", "state", "city", "population", "zone"], [
        ["cities", "c1", "C1", "s1", None, "10", None],
        ["cities", "c2", "C2", "s1", None, None, "z"],
        ["wards", "w1", "W1", "s1", "c1", None, None],
        ["wards", "w2", "W 2, \"quoted\"", "s1", "c2", "5", "y"],
    ])
    out.append(Case("external-choices", wb=wb, origin="C14", tags={"special"}))
    out.append(Case("external-choices-md", md=corpus.wb_to_md(wb), origin="C14", tags={"special"}))
    # the same workbook given as a hand-built dict *without* the optional *_header entries (the
    # DefinitionData fields default to None): a legal input of convert(xlsform: dict).
    for i, cols in enumerate((["list_name", "name", "label", "state", "city", "population", "zone"],
                              ["list_name", "name", "label", "state", "city"],
                              ["list_name", "name", "label", "state", "city", "alpha", "beta", "gamma", "delta"])):
        rows = []
        for r in range(3):
            rows.append({c: (["cities", "wards", "wards"][r] if c == "list_name" else f"{c}{r}") for c in cols})
        d = {
            "survey": [{"type": "text", "name": "state", "label": "State"},
                       {"type": "select_one_external cities", "name": "city", "label": "City",
                        "choice_filter": "state=${state}"},
                       {"type": "select_one_external wards", "name": "ward", "label": "Ward",
                        "choice_filter": "state=${state} and city=${city}"}],
            "external_choices": rows,
        }
        wb2 = WB()
        wb2["survey"] = (["type", "name", "label", "choice_filter"],
                         [[r.get(h) for h in ["type", "name", "label", "choice_filter"]] for r in d["survey"]])
        wb2["external_choices"] = (cols, [[r[c] for c in cols] for r in rows])
        out.append(Case(f"external-choices-dict-noheader:{i}", wb=wb2, kwargs={"_source": d}, origin="C14",
                        tags={"special"}))
    return out


_CONTENT_COLS = ["label", "hint", "guidance_hint", "image", "audio", "video", "big-image",
                 "constraint_message", "required_message"]


def _translation_padding_family(seed: int, n_random: int) -> list[Case]:
    """Two or three languages where some text/media columns exist in one language only, so that the other
    languages have to be padded -- small-scope exhaustive over pairs of columns, plus random subsets."""
    out = []
    langs = ["English (en)", "French (fr)", "Swahili (sw)"]

    def form(cols_l1, cols_l2, cols_default, nlang=2, choices=False):
        # big-image is only accepted together with an image
        cols_l1, cols_l2, cols_default = (
            [*cs, "image"] if "big-image" in cs and "image" not in cs else list(cs)
            for cs in (cols_l1, cols_l2, cols_default))
        headers = ["type", "name"]
        row1 = ["text", "q1"]
        row2 = ["integer", "q2"]
        for c in cols_l1:
            headers.append(f"{c}::{langs[0]}")
            row1.append(f"{c} one")
            row2.append(None if c != "label" else "two")
        for c in cols_l2:
            headers.append(f"{c}::{langs[1]}")
            row1.append(f"{c} un")
            row2.append(f"{c} deux")
        if nlang == 3:
            headers.append(f"label::{langs[2]}")
            row1.append("moja")
            row2.append(None)
        for c in cols_default:
            headers.append(c)
            row1.append(f"{c} dflt")
            row2.append(None)
        if any(c.startswith("constraint_message") for c in cols_l1 + cols_l2 + cols_default):
            headers.append("constraint")
            row1.append(". != ''")
            row2.append(". > 0")
        if any(c.startswith("required_message") for c in cols_l1 + cols_l2 + cols_default):
            headers.append("required")
            row1.append("yes")
            row2.append("yes")
        wb = WB()
        rows = [row1, row2]
        if choices:
            rows.append(["select_one l1", "s1"] + ["S" if h.startswith("label") else None for h in headers[2:]])
        wb["survey"] = (headers, rows)
        if choices:
            ch = ["list_name", "name", f"label::{langs[0]}", f"image::{langs[0]}", f"audio::{langs[1]}"]
            wb["choices"] = (ch, [["l1", "a", "A", "a.png", "a.mp3"], ["l1", "b", "B", None, None]])
        return wb

    k = 0
    for i, c1 in enumerate(_CONTENT_COLS[1:], 1):
        for c2 in _CONTENT_COLS[i + 1:]:
            # label in both languages; c1 and c2 in the first language only
            out.append(Case(f"pad:{c1}+{c2}", wb=form(["label", c1, c2], ["label"], []), origin="C14", tags={"hashy"}))
            k += 1
    for c1 in _CONTENT_COLS[1:]:
        out.append(Case(f"pad1:{c1}", wb=form(["label", c1], ["label"], []), origin="C14", tags={"hashy"}))
        out.append(Case(f"pad-dflt:{c1}", wb=form(["label"], ["label"], [c1, "hint"]), origin="C14", tags={"hashy"}))
    r = random.Random(seed * 7919 + 14)
    for j in range(n_random):
        cols = r.sample(_CONTENT_COLS[1:], r.randint(2, 6))
        cut = r.randint(0, len(cols))
        out.append(Case(f"pad-rand:{j}", wb=form(["label", *cols[:cut]], ["label", *cols[cut:]], [],
                                                  nlang=r.choice([2, 3]), choices=r.random() < 0.5),
                        origin="C14", tags={"hashy"}))
    return out


def _header_warning_family() -> list[Case]:
    """Forms that produce warnings built from several items (unknown/misspelled headers, sheets, missing
    translations), where an unordered intermediate would show up in the warning text."""
    out = []
    out.append(_md("warn:misspelled-headers", """
| survey |
|        | type | name | label | constrain | relevnt | calculate | requird | hnt | apperance |
|        | text | q1   | Q1    | . != ''   | 1       | 1         | yes     | h   | minimal   |
| choices |
|         | list_name | name | label | lable | nmae |
|         | l1        | a    | A     | x     | y    |
| setings |
|         | form_title |
|         | T          |
| chocies |
|         | list_name |
|         | l2 |
| extrnal_choices |
|         | list_name |
|         | l2 |
""", tags={"special"}))
    out.append(_md("warn:missing-translations", """
| survey |
|        | type | name | label::en | label::fr | hint::en | hint::de | guidance_hint::es | image::pt | constraint_message::it | constraint |
|        | text | q1   | Q1        | Q1f       | H        | Hd       | G                 | i.png     | C                      | . != ''    |
|        | text | q2   | Q2        |           |          |          |                   |           |                        |            |
| choices |
|         | list_name | name | label::en | label::nl | audio::sv |
|         | l1        | a    | A         | An        | a.mp3     |
""", tags={"special"}))
    out.append(_md("warn:settings-unknown", """
| survey |
|        | type | name | label |
|        | text | q1   | Q1    |
| settings |
|          | form_titel | versoin | instance_nmae | stlye | form_id |
|          | T          | 1       | a             | pages | x       |
""", tags={"special"}))
    return out


def _pulldata_family() -> list[Case]:
    """One question with pulldata() from different files in two or three of its expression columns
    (small-scope exhaustive over pairs), so several secondary instances stem from one element."""
    cols = ["calculation", "constraint", "readonly", "required", "relevant", "default", "choice_filter"]
    out = []
    combos = [(a, b) for i, a in enumerate(cols) for b in cols[i + 1:]] + [("constraint", "required", "relevant"),
                                                                         ("calculation", "readonly", "relevant", "required")]
    for combo in combos:
        sel = "choice_filter" in combo
        headers = ["type", "name", "label", *combo]
        row = ["select_one l1" if sel else "text", "q1", "Q1"]
        for j, c in enumerate(combo):
            f = f"file_{c}_{j}"
            row.append(f"pulldata('{f}', 'n', 'k', 'v') = 'x'" if c != "default" else f"pulldata('{f}', 'n', 'k', 'v')")
        wb = WB()
        wb["survey"] = (headers, [["text", "k", "K", *[None] * len(combo)], row])
        if sel:
            wb["choices"] = (["list_name", "name", "label"], [["l1", "a", "A"], ["l1", "b", "B"]])
        out.append(Case("pulldata:" + "+".join(combo), wb=wb, origin="C14", tags={"hashy"}))
    return out


_TWIN_KINDS = [(a, b, c) for a in ("group", "repeat") for b in ("group", "repeat") for c in ("group", "repeat")]


def _twin_family() -> list[Case]:
    """Structurally different forms with identical xpaths: three containers c1 > {c2, c3} (family A) or
    c1 > c2 > c3 (family B) whose kinds range over {group, repeat}^3; references cross the containers."""
    out = []
    for a, b, c in _TWIN_KINDS:
        out.append(_md(f"twinA:{a[0]}{b[0]}{c[0]}", f"""
| survey |
|        | type      | name | label          | calculation  | relevant     |
|        | text      | q0   | Q0             |              |              |
|        | begin {a} | c1   | C1             |              |              |
|        | text      | p    | P ${{q0}}      |              |              |
|        | begin {b} | c2   | C2             |              |              |
|        | text      | q2   | Q2 ${{q1}}     | ${{q1}} + 1  | ${{p}} != '' |
|        | end {b}   |      |                |              |              |
|        | begin {c} | c3   | C3             |              |              |
|        | text      | q1   | Q1 ${{p}}      |              | ${{q2}} != ''|
|        | end {c}   |      |                |              |              |
|        | end {a}   |      |                |              |              |
|        | note      | n    | N ${{q1}} ${{q2}} |           |              |
""", tags={"special", "twin"}, form_name="data"))
        out.append(_md(f"twinB:{a[0]}{b[0]}{c[0]}", f"""
| survey |
|        | type      | name | label          | calculation      | constraint   |
|        | begin {a} | c1   | C1             |                  |              |
|        | integer   | x    | X              |                  |              |
|        | begin {b} | c2   | C2             |                  |              |
|        | integer   | y    | Y ${{x}}       |                  | . > ${{x}}   |
|        | begin {c} | c3   | C3             |                  |              |
|        | integer   | z    | Z ${{y}} ${{x}} | ${{x}} + ${{y}} | . > ${{y}}   |
|        | end {c}   |      |                |                  |              |
|        | calculate | sy   |                | sum(${{z}})      |              |
|        | end {b}   |      |                |                  |              |
|        | calculate | sx   |                | sum(${{y}})      |              |
|        | end {a}   |      |                |                  |              |
""", tags={"special", "twin"}, form_name="data"))
    return out


def _invalid_family() -> list[Case]:
    """Rejected forms (errors before and during XML generation): they must stay rejected, and must not
    leave temp files or state behind."""
    out = []
    out.append(_md("invalid:unknown-ref", """
| survey |
|        | type | name | label      |
|        | text | q1   | Q ${nope}  |
""", tags={"special"}))
    out.append(_md("invalid:dup-name", """
| survey |
|        | type | name | label |
|        | text | q1   | Q     |
|        | text | q1   | Q     |
""", tags={"special"}))
    out.append(_md("invalid:calc-ref", """
| survey |
|        | type      | name | label | calculation |
|        | calculate | c1   |       | ${zzz} + 1  |
""", tags={"special"}))
    out.append(_md("invalid:unmatched-end", """
| survey |
|        | type      | name | label |
|        | text      | q1   | Q     |
|        | end group |      |       |
""", tags={"special"}))
    out.append(_md("invalid:ns-instance-id", """
| survey |
|        | type          | name | label |
|        | select_one l9 | q1   | Q     |
| settings |
|          | instance_id | namespaces            |
|          | subscriberid | q="http://q.example" |
""", tags={"special"}))
    return out


def cases(tier: str, seed: int) -> list[Case]:
    out = []
    out += _settings_family()
    out += _entities_family()
    out += _mutation_prone_family()
    out += _external_choices_family()
    out += _header_warning_family()
    out += _pulldata_family()
    out += _twin_family()
    out += _invalid_family()
    out += _translation_padding_family(seed, 20 if tier == "quick" else 200)
    return out


def all_cases(tier: str, seed: int) -> list[Case]:
    """Exactly the list bounded.e2e iterates over (default corpus, then cases())."""
    return [*corpus.corpus(tier, seed, N_GENERATED[tier]), *cases(tier, seed)]


# ----------------------------------------------------------------------------- records and diffs


def _rec(res: Result) -> dict:
    if res.ok:
        return {"ok": True, "xform": res.xform, "warnings": [str(w) for w in (res.warnings or [])],
                "itemsets": res.itemsets}
    return {"ok": False, "err": f"{type(res.error).__name__}: {res.error}"[:600],
            "internal": bool(res.internal_error)}


def _same(a: dict, b: dict) -> bool:
    if a["ok"] != b["ok"]:
        return False
    if not a["ok"]:
        return True  # both rejected; messages are not part of the property
    return a["xform"] == b["xform"] and a["warnings"] == b["warnings"] and a["itemsets"] == b["itemsets"]


def _loc(tag):
    return tag.rsplit("}", 1)[-1] if isinstance(tag, str) else "?"


def _xml_first_diff(a: str, b: str):
    """(class, detail) of the first structural difference between two XML texts."""
    try:
        ra, rb = ET.fromstring(a.encode("utf-8")), ET.fromstring(b.encode("utf-8"))
    except ET.ParseError:
        return "text", _text_diff(a, b)

    def canon(e):
        return ET.tostring(e, encoding="unicode")

    def walk(x, y, path):
        if x.tag != y.tag:
            return f"tag:{_loc(x.tag)}", f"{path}: <{_loc(x.tag)}> vs <{_loc(y.tag)}>"
        p = f"{path}/{_loc(x.tag)}"
        if x.attrib != y.attrib:
            ks = sorted(k for k in set(x.attrib) | set(y.attrib) if x.attrib.get(k) != y.attrib.get(k))
            return f"attr:{_loc(x.tag)}@{_loc(ks[0])}", f"{p} @{_loc(ks[0])}: {x.attrib.get(ks[0])!r} vs {y.attrib.get(ks[0])!r}"
        if list(x.attrib) != list(y.attrib):
            return f"attr-order:{_loc(x.tag)}", f"{p}: {list(x.attrib)} vs {list(y.attrib)}"
        if (x.text or "") != (y.text or ""):
            return f"text:{_loc(x.tag)}", f"{p}: {x.text!r} vs {y.text!r}"
        cx, cy = list(x), list(y)
        if Counter(map(canon, cx)) == Counter(map(canon, cy)) and [canon(c) for c in cx] != [canon(c) for c in cy]:
            i = next(i for i, (u, v) in enumerate(zip(cx, cy)) if canon(u) != canon(v))
            return f"child-order:{_loc(x.tag)}/{_loc(cx[i].tag)}", \
                f"{p}: children in different order, e.g. #{i}: {canon(cx[i])[:120]} vs {canon(cy[i])[:120]}"
        if len(cx) != len(cy):
            return f"child-count:{_loc(x.tag)}", f"{p}: {len(cx)} vs {len(cy)} children"
        for u, v in zip(cx, cy):
            d = walk(u, v, p)
            if d:
                return d
            if (u.tail or "") != (v.tail or ""):
                return f"tail:{_loc(u.tag)}", f"{p}: tail {u.tail!r} vs {v.tail!r}"
        return None

    d = walk(ra, rb, "")
    return d or ("text", _text_diff(a, b))


def _text_diff(a: str, b: str) -> str:
    i = next((i for i, (x, y) in enumerate(zip(a, b)) if x != y), min(len(a), len(b)))
    return f"at char {i}: ...{a[max(0, i - 40):i + 60]!r} vs ...{b[max(0, i - 40):i + 60]!r}"


def _classify(a: dict, b: dict):
    """Stable class + human detail of the difference between two records of the same input."""
    if a["ok"] != b["ok"]:
        bad = a if not a["ok"] else b
        return "outcome", f"accepted in one run, rejected in the other ({bad.get('err')})"
    if a["xform"] != b["xform"]:
        cls, det = _xml_first_diff(a["xform"], b["xform"])
        return f"xform:{cls}", det
    if a["itemsets"] != b["itemsets"]:
        x, y = a["itemsets"], b["itemsets"]
        if x is None or y is None:
            return "itemsets:presence", f"{x!r:.80} vs {y!r:.80}"
        hx, hy = x.splitlines()[:1], y.splitlines()[:1]
        if hx != hy and sorted(hx[0].split(",")) == sorted(hy[0].split(",")) and x.splitlines()[1:] == y.splitlines()[1:]:
            return "itemsets:header-order", f"header {hx[0]} vs {hy[0]} (data rows identical)"
        return "itemsets:content", _text_diff(x, y)
    wa, wb = a["warnings"], b["warnings"]
    if sorted(wa) == sorted(wb):
        return "warnings:order", f"{wa} vs {wb}"
    if len(wa) == len(wb):
        for u, v in zip(wa, wb):
            if u != v:
                if sorted(u.replace(",", " ").split()) == sorted(v.replace(",", " ").split()):
                    return "warnings:item-order", f"{u!r} vs {v!r}"
                return "warnings:content", f"{u!r} vs {v!r}"
    return "warnings:count", f"{len(wa)} vs {len(wb)}: {[w for w in wa if w not in wb][:2]} / {[w for w in wb if w not in wa][:2]}"


def _viol(prefix: str, a: dict, b: dict, case_name: str, how: str) -> dict:
    cls, det = _classify(a, b)
    return {"key": f"C14:{prefix}:{cls}", "what": f"{how}: {det}", "case": case_name}


# ----------------------------------------------------------------------------- per-case check


def check(case: Case, res: Result, ctx: dict) -> list[dict]:
    st = ctx.setdefault("C14", {"first": {}, "n": 0})
    idx = st["n"]
    st["n"] += 1
    first = _rec(res)
    if "special" in case.tags:
        st["first"][idx] = (case.name, first)  # very first conversion of this input in this process
    out = []
    # the same input again, same process, later
    again = _rec(corpus.convert_case(case))
    if not _same(first, again):
        out.append(_viol("reconvert", first, again, case.name, "second conversion of the same input in the same process differs"))
    if not res.ok or res.survey is None:
        return out
    pretty = bool(case.kwargs.get("pretty_print", False))
    s = res.survey

    def regen(label, text, base):
        if text != base:
            cls, det = _xml_first_diff(base, text) if not pretty and label.startswith("to_xml") else ("text", _text_diff(base, text))
            out.append({"key": f"C14:regen:{label}:{cls}", "what": f"{label} on the same survey object differs: {det}"})

    try:
        w1, w2 = [], []
        x1 = s.to_xml(validate=False, pretty_print=pretty, warnings=w1)
        x2 = s.to_xml(validate=False, pretty_print=pretty, warnings=w2)
        regen("to_xml#2", x1, res.xform)
        regen("to_xml#3", x2, res.xform)
        if w1 != w2:
            out.append({"key": "C14:regen:warnings", "what": f"warnings of repeated to_xml differ: {w1} vs {w2}"})
        tail = (res.warnings or [])[len(res.warnings or []) - len(w1):] if w1 else []
        if w1 and [str(w) for w in tail] != [str(w) for w in w1]:
            out.append({"key": "C14:regen:warnings-vs-first", "what": f"to_xml warnings of the 2nd call {w1} are not the ones of the 1st call {tail}"})
        p1 = s._to_pretty_xml()
        p2 = s._to_pretty_xml()
        if p1 != p2:
            out.append({"key": "C14:regen:pretty-repeat", "what": "two _to_pretty_xml() calls differ: " + _text_diff(p1, p2)})
        x3 = s.to_xml(validate=False, pretty_print=pretty, warnings=[])
        regen("to_xml-after-pretty", x3, res.xform)
        fresh = corpus.convert_case(case, pretty_print=True)
        if fresh.ok and fresh.xform != p1:
            out.append({"key": "C14:regen:pretty-vs-fresh", "what": "_to_pretty_xml() on a used survey differs from convert(pretty_print=True): " + _text_diff(fresh.xform, p1)})
        if not fresh.ok:
            out.append({"key": "C14:regen:pretty-outcome", "what": f"convert(pretty_print=True) rejected an input accepted before: {fresh.error}"})
    except Exception as e:  # noqa: BLE001
        out.append({"key": f"C14:regen:exception:{type(e).__name__}", "what": f"regenerating XML from the same survey raised {type(e).__name__}: {e}"})
    return out


# ----------------------------------------------------------------------------- module / tmp snapshots


_PRIMS = (str, bytes, int, float, bool, type(None), complex)


def _deep(o, depth=0, seen=None):
    seen = seen if seen is not None else set()
    if isinstance(o, _PRIMS):
        return repr(o)
    if depth > 7:
        return f"<{type(o).__name__}...>"
    if id(o) in seen:
        return "<cycle>"
    if isinstance(o, (list, tuple, deque)):
        seen = seen | {id(o)}
        return f"{type(o).__name__}[" + ", ".join(_deep(x, depth + 1, seen) for x in o) + "]"
    if isinstance(o, (set, frozenset)):
        seen = seen | {id(o)}
        return f"{type(o).__name__}{{" + ", ".join(sorted(_deep(x, depth + 1, seen) for x in o)) + "}"
    if isinstance(o, dict):
        seen = seen | {id(o)}
        return f"{type(o).__name__}{{" + ", ".join(f"{_deep(k, depth + 1, seen)}: {_deep(v, depth + 1, seen)}" for k, v in o.items()) + "}"
    if hasattr(o, "pattern") and hasattr(o, "flags"):
        return f"re({o.pattern!r})"
    if isinstance(o, type) or callable(o) or type(o).__name__ == "module":
        return f"<{getattr(o, '__module__', '')}.{getattr(o, '__qualname__', getattr(o, '__name__', type(o).__name__))}>"
    mod = type(o).__module__ or ""
    if mod.startswith("pyxform"):
        seen = seen | {id(o)}
        names = list(getattr(o, "__dict__", {}) or [])
        for klass in type(o).__mro__:
            names += [n for n in getattr(klass, "__slots__", ()) if isinstance(n, str)]
        parts = []
        for n in dict.fromkeys(names):
            try:
                parts.append(f"{n}={_deep(getattr(o, n), depth + 1, seen)}")
            except AttributeError:
                pass
        return f"{type(o).__qualname__}(" + ", ".join(parts) + ")"
    try:
        import enum

        if isinstance(o, enum.Enum):
            return repr(o)
    except Exception:  # noqa: BLE001
        pass
    return f"<{mod}.{type(o).__qualname__}>"


_CONTAINERS = (dict, list, set, frozenset, tuple, deque)


def module_snapshot() -> dict:
    out = {}
    for mname in sorted(sys.modules):
        if not (mname == "pyxform" or mname.startswith("pyxform.")):
            continue
        mod = sys.modules[mname]
        if mod is None:
            continue
        for attr, val in sorted(vars(mod).items()):
            if attr.startswith("__"):
                continue
            if isinstance(val, _CONTAINERS):
                out[f"{mname}.{attr}"] = _deep(val)
            elif isinstance(val, type) and getattr(val, "__module__", None) == mname:
                for cattr, cval in sorted(vars(val).items()):
                    if cattr.startswith("__"):
                        continue
                    if isinstance(cval, _CONTAINERS):
                        out[f"{mname}.{val.__name__}.{cattr}"] = _deep(cval)
    out["xml.etree.ElementTree._namespace_map"] = _deep(dict(sorted(ET._namespace_map.items())))
    return out


def _snapshot_diff(a: dict, b: dict, how: str) -> list[dict]:
    out = []
    for k in sorted(set(a) | set(b)):
        if a.get(k) != b.get(k):
            x, y = a.get(k, "<absent>"), b.get(k, "<absent>")
            short = k.replace("pyxform.", "", 1)
            out.append({"key": f"C14:module-state:{short}", "what": f"module-level container {k} {how}: " + _text_diff(x, y),
                        "case": "(batch)"})
    return out


class _PrivateTmp:
    """Redirect tempfile to a private directory for the duration of the block."""

    def __enter__(self):
        self.dir = tempfile.mkdtemp(prefix="c14tmp_")
        self.old_env = os.environ.get("TMPDIR")
        self.old = tempfile.tempdir
        os.environ["TMPDIR"] = self.dir
        tempfile.tempdir = self.dir
        return self

    def listing(self):
        return sorted(os.listdir(self.dir))

    def __exit__(self, *exc):
        tempfile.tempdir = self.old
        if self.old_env is None:
            os.environ.pop("TMPDIR", None)
        else:
            os.environ["TMPDIR"] = self.old_env
        import shutil

        shutil.rmtree(self.dir, ignore_errors=True)


# ----------------------------------------------------------------------------- driver subprocess


def _driver_main(spec_path: str):
    """Runs inside a subprocess: convert the listed cases in the listed order, dump records, module
    snapshot and TMPDIR listing as JSON."""
    spec = json.load(open(spec_path, encoding="utf-8"))
    tmpdir = spec["tmpdir"]
    os.environ["TMPDIR"] = tmpdir
    tempfile.tempdir = tmpdir
    import pyxform.xls2xform  # noqa: F401

    snap0 = module_snapshot() if spec.get("snapshot") else None
    cs = all_cases(spec["tier"], spec["seed"])
    records = []
    for i in spec["order"]:
        records.append([i, _rec(corpus.convert_case(cs[i]))])
        if spec.get("gc_every") and len(records) % spec["gc_every"] == 0:
            gc.collect()
    out = {"n_cases": len(cs), "records": records, "tmp": sorted(os.listdir(tmpdir)),
           "hashseed": os.environ.get("PYTHONHASHSEED")}
    if spec.get("snapshot"):
        out["snap0"] = snap0
        out["snap1"] = module_snapshot()
    with open(spec["out"], "w", encoding="utf-8") as f:
        json.dump(out, f)


def _spawn(work: str, tag: str, tier: str, seed: int, order: list[int], hashseed: int, snapshot=False):
    spec_path = os.path.join(work, f"{tag}.spec.json")
    out_path = os.path.join(work, f"{tag}.out.json")
    tmpdir = os.path.join(work, f"{tag}.tmp")
    os.mkdir(tmpdir)
    json.dump({"tier": tier, "seed": seed, "order": order, "out": out_path, "tmpdir": tmpdir, "snapshot": snapshot},
              open(spec_path, "w", encoding="utf-8"))
    env = dict(os.environ)
    env["PYTHONPATH"] = os.pathsep.join([VERIF, corpus.REPO])
    env["PYTHONHASHSEED"] = str(hashseed)
    env["PYTHONDONTWRITEBYTECODE"] = "1"
    env["VERIF_REPO"] = corpus.REPO
    env["TMPDIR"] = tmpdir
    p = subprocess.Popen([sys.executable, "-m", "bounded.oracles.C14", "--driver", spec_path], cwd=VERIF, env=env,
                         stdout=subprocess.DEVNULL, stderr=subprocess.PIPE)
    return p, out_path


def _collect(p, out_path):
    _, err = p.communicate()
    if p.returncode != 0 or not os.path.exists(out_path):
        raise RuntimeError(f"C14 driver failed (rc={p.returncode}): {err.decode('utf-8', 'replace')[-800:]}")
    d = json.load(open(out_path, encoding="utf-8"))
    d["by_index"] = {}
    for i, r in d["records"]:
        d["by_index"].setdefault(i, []).append(r)
    return d


def _run_many(jobs, max_par):
    """jobs: list of (tag, thunk->(p, out_path)); returns {tag: result dict}; at most max_par at a time."""
    results, running = {}, []
    jobs = list(jobs)
    while jobs or running:
        while jobs and len(running) < max_par:
            tag, thunk = jobs.pop(0)
            running.append((tag, *thunk()))
        tag, p, out_path = running.pop(0)
        results[tag] = _collect(p, out_path)
    return results


# ----------------------------------------------------------------------------- global checks


def check_global(tier: str, seed: int, ctx: dict):
    import shutil

    violations: list[dict] = []
    n_eval = 0
    cs = all_cases(tier, seed)
    n = len(cs)
    special = [i for i, c in enumerate(cs) if "special" in c.tags]
    twins = [i for i, c in enumerate(cs) if "twin" in c.tags]
    rnd = random.Random(seed * 1000003 + 14)
    work = tempfile.mkdtemp(prefix="c14work_")
    max_par = max(2, min(12, (os.cpu_count() or 4) - 2))

    def add(v):
        violations.append(v)

    try:
        # ---- subprocess runs: hash seeds (same order), histories (seed 0), fresh process per special form
        natural = list(range(n))
        perm = natural[:]
        rnd.shuffle(perm)
        # interleave: special batch first in reversed order, then everything reversed
        rev = natural[::-1]
        jobs = []
        for hs in HASH_SEEDS[tier]:
            jobs.append((f"seed{hs}", (lambda hs=hs: _spawn(work, f"seed{hs}", tier, seed, natural, hs, snapshot=(hs == 0)))))
        jobs.append(("rev", lambda: _spawn(work, "rev", tier, seed, rev, 0, snapshot=True)))
        jobs.append(("perm", lambda: _spawn(work, "perm", tier, seed, perm, 0, snapshot=True)))
        jobs.append(("twice", lambda: _spawn(work, "twice", tier, seed, special + special[::-1] + natural, 0, snapshot=True)))
        for i in special:
            jobs.append((f"fresh{i}", (lambda i=i: _spawn(work, f"fresh{i}", tier, seed, [i], 0))))
        res = _run_many(jobs, max_par)
        base = res["seed0"]
        if base["n_cases"] != n:
            raise RuntimeError("C14: case list differs between processes (generator is not deterministic)")
        # in-process first results (arbitrary hash seed of this process) are compared below, per history.
        for hs in HASH_SEEDS[tier][1:]:
            other = res[f"seed{hs}"]
            for i in natural:
                a, b = base["by_index"][i][0], other["by_index"][i][0]
                n_eval += 1
                if not _same(a, b):
                    add(_viol("hashseed", a, b, cs[i].name, f"PYTHONHASHSEED=0 vs {hs}, same process history"))
        for tag in ("rev", "perm", "twice"):
            other = res[tag]
            for i, recs in other["by_index"].items():
                for b in recs:
                    n_eval += 1
                    a = base["by_index"][i][0]
                    if not _same(a, b):
                        add(_viol("history", a, b, cs[i].name, f"same hash seed, batch order '{tag}' vs natural order (separate processes)"))
        for i in special:
            b = res[f"fresh{i}"]["by_index"][i][0]
            a = base["by_index"][i][0]
            n_eval += 1
            if not _same(a, b):
                add(_viol("history", a, b, cs[i].name, "same hash seed, fresh process converting only this form vs after the whole corpus"))
        # temp residue and module state of the subprocesses
        for tag, r in res.items():
            n_eval += 1
            if r["tmp"]:
                add({"key": "C14:tmp-residue", "what": f"private TMPDIR of run '{tag}' not empty after the batch: {r['tmp'][:5]}", "case": "(batch)"})
        # same forms, same seed, different orders: module-level state must be the same at the end
        for tag in ("rev", "perm"):
            n_eval += 1
            violations.extend(_snapshot_diff(base["snap1"], res[tag]["snap1"], f"differs between two processes that converted the same forms in different orders (natural vs {tag})"))
        # state after the batch vs after the batch + more conversions of the same forms
        n_eval += 1
        violations.extend(_snapshot_diff(base["snap1"], res["twice"]["snap1"], "differs after converting the same forms once vs several times"))

        # ---- in-process histories
        first = {}
        with _PrivateTmp() as tmp:
            snap_a = module_snapshot()
            # reference in this process: the first in-process conversion here, checked against every later one
            batch = special[:]
            orders = [batch[:], batch[::-1]]
            for _ in range(N_PERMS[tier]):
                o = batch[:]
                rnd.shuffle(o)
                orders.append(o)
            # a rotation that puts every form right after every other form at least once is too large;
            # use pair-adjacent orders for the settings forms instead
            for o in orders:
                for i in o:
                    r = _rec(corpus.convert_case(cs[i]))
                    n_eval += 1
                    if i not in first:
                        first[i] = r
                    elif not _same(first[i], r):
                        add(_viol("history", first[i], r, cs[i].name, "same process, same form converted again after a different sequence of other forms"))
            # in-process results vs the subprocess with the same inputs: only comparable modulo hash seed,
            # so only used when this process runs under the same seed as a driver run
            my_seed = os.environ.get("PYTHONHASHSEED")
            if my_seed is not None and f"seed{my_seed}" in res:
                for i in batch:
                    n_eval += 1
                    a = res[f"seed{my_seed}"]["by_index"][i][0]
                    if not _same(a, first[i]):
                        add(_viol("history", a, first[i], cs[i].name, "driver subprocess vs oracle process, same hash seed"))
            # ... and the very first conversion of the same input in this process (main loop of bounded.e2e)
            for i, (name, r0) in sorted((ctx.get("C14") or {}).get("first", {}).items()):
                if i < n and cs[i].name == name and i in first:
                    n_eval += 1
                    if not _same(r0, first[i]):
                        add(_viol("history", r0, first[i], name, "same process, first conversion of the input vs a conversion after the whole corpus"))
            snap_b = module_snapshot()
            violations.extend(_snapshot_diff(snap_a, snap_b, "changed while converting a batch of forms that had all been converted before"))
            n_eval += 1
            if tmp.listing():
                add({"key": "C14:tmp-residue", "what": f"private TMPDIR not empty after in-process batch: {tmp.listing()[:5]}", "case": "(batch)"})

            # ---- structural twins, many conversions, address re-use
            gc.collect()
            ref = {i: first[i] for i in twins}
            for rnd_i in range(TWIN_ROUNDS[tier]):
                order = twins[:]
                rnd.shuffle(order)
                for i in order:
                    keep = None
                    for _ in range(6):
                        keep = corpus.convert_case(cs[i])  # earlier results dropped -> surveys become garbage
                        n_eval += 1
                        r = _rec(keep)
                        if not _same(ref[i], r):
                            add(_viol("stale-cache", ref[i], r, cs[i].name, "form converted after structurally different forms with the same xpaths were converted and garbage collected"))
                    del keep
                    gc.collect()
            n_eval += 1
            if tmp.listing():
                add({"key": "C14:tmp-residue", "what": f"private TMPDIR not empty after twin batch: {tmp.listing()[:5]}", "case": "(batch)"})

            # ---- threads
            nthreads = N_THREADS[tier]
            thread_orders = []
            for t in range(nthreads):
                o = batch[:]
                random.Random(seed * 131 + t).shuffle(o)
                thread_orders.append(o)
            results = [[] for _ in range(nthreads)]
            errors = []
            barrier = threading.Barrier(nthreads)

            def worker(t):
                try:
                    barrier.wait()
                    for i in thread_orders[t]:
                        results[t].append((i, _rec(corpus.convert_case(cs[i]))))
                except BaseException as e:  # noqa: BLE001
                    errors.append((t, e))

            old_si = sys.getswitchinterval()
            sys.setswitchinterval(1e-5)
            try:
                ths = [threading.Thread(target=worker, args=(t,)) for t in range(nthreads)]
                for th in ths:
                    th.start()
                for th in ths:
                    th.join()
            finally:
                sys.setswitchinterval(old_si)
            for t, e in errors:
                add({"key": f"C14:threads:exception:{type(e).__name__}", "what": f"thread {t} crashed: {e}", "case": "(batch)"})
            for t in range(nthreads):
                for i, r in results[t]:
                    n_eval += 1
                    if not _same(first[i], r):
                        add(_viol("threads", first[i], r, cs[i].name, f"conversion in one of {nthreads} concurrent threads differs from the sequential result"))
            n_eval += 1
            if tmp.listing():
                add({"key": "C14:tmp-residue", "what": f"private TMPDIR not empty after threaded batch: {tmp.listing()[:5]}", "case": "(batch)"})
            snap_c = module_snapshot()
            violations.extend(_snapshot_diff(snap_b, snap_c, "changed during the twin/threaded batches"))
    finally:
        shutil.rmtree(work, ignore_errors=True)
    return violations, n_eval


if __name__ == "__main__":
    if len(sys.argv) == 3 and sys.argv[1] == "--driver":
        _driver_main(sys.argv[2])
    else:
        print("usage: python -m bounded.oracles.C14 --driver spec.json")
        sys.exit(2)
