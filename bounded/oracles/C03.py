"""C03 (bounded e2e): every ${name} written in a survey cell is replaced by an XPath that, evaluated from the
node the cell belongs to, reaches the instance node of the question called `name`.

The oracle never asks pyxform where a reference should point.  It reads the source workbook, lays the survey
rows out as a tree (XLSForm convention: a row's node is /<root>/<enclosing groups and repeats>/<name>), finds
for every reference-bearing cell the place where that cell lands in the XForm (bind attribute, setvalue value,
itemset predicate, jr:count, <output value>, itext value, entity bind ...), aligns the literal parts of the cell
with the output to isolate what each ${..} token became, and evaluates that replacement with a small XPath-subset
evaluator (absolute paths, '..' steps, current()/ prefix, instance('__last-saved') prefix) from the referrer's node.

Demanded (property text):
  * the replacement is a path and reaches the target's node (absolute path of the target, or a relative path that
    arrives there);
  * it is relative, and stays inside the shared repeat, whenever the target's innermost enclosing repeat also
    (strictly) encloses the referrer -- except inside indexed-repeat(...) arguments, where absolute is by design;
  * ${last-saved#name} -> instance('__last-saved')<absolute path>, and that instance is declared;
  * a relative replacement inside a predicate of an instance(...) path (choice filters included: itemset nodesets and
    the query attribute of selects with external choices) starts with current()/;
  * in the filter of a `select_one ${q}` (predicate of a primary-instance nodeset) every replacement arrives at the
    target: from the select's node when anchored with current(), else from the candidate node of the nodeset;
  * no ${...} token survives anywhere in the output;
  * a reference to a name that no row has, or that several rows have, makes the conversion fail with a library
    error whose message contains the name.

This module also hosts the source-side helpers shared with the C02 and C10 oracles (Markdown reader, survey tree,
alignment, path evaluator) so that the shared bounded/corpus.py stays untouched.
"""
from __future__ import annotations

import itertools
import random
import re
from dataclasses import dataclass

from bounded import corpus
from bounded.corpus import Case, WB, XForm, XF, XH

USES_DEFAULT_CORPUS = True
N_GENERATED = {"quick": 120, "thorough": 1500}
TIME_BUDGET_S = {"quick": 100, "thorough": 1200}

JR = "{http://openrosa.org/javarosa}"
ODK = "{http://www.opendatakit.org/xforms}"

# ------------------------------------------------------------------------------------------------
# shared source-side helpers (also imported by C02.py and C10.py)
# ------------------------------------------------------------------------------------------------

_MD_SPLIT = re.compile(r"(?<!\\)\|")


def md_to_wb(md: str) -> WB:
    """Minimal reader of the Markdown form notation used by the tests ('| sheet |' / '| | h1 | h2 |')."""
    wb = WB()
    cur = None
    has_header = set()
    for line in md.split("\n"):
        if re.match(r"^\s*#", line):
            continue
        m = re.match(r"^(.*)(#[^|]+)$", line)
        if m:
            line = m.group(1)
        m = re.match(r"\s*\|(.*)\|\s*", line)
        if not m or re.match(r"^[\|-]+$", m.group(1)):
            continue
        parts = _MD_SPLIT.split(m.group(1))
        cells = [None if (not c or c.isspace()) else c.strip().replace(r"\|", "|") for c in parts]
        first, row = cells[0], cells[1:]
        if first is not None:
            cur = first
            wb.setdefault(cur, ([], []))
        if cur is None or not any(c is not None for c in row):
            continue
        if cur not in has_header:
            has_header.add(cur)
            wb[cur] = (list(row), wb[cur][1])
        else:
            wb[cur][1].append(list(row))
    return wb


def source_wb(case: Case) -> WB | None:
    if case.wb is not None:
        return case.wb
    if case.md is not None:
        try:
            return md_to_wb(case.md)
        except Exception:  # noqa: BLE001
            return None
    return None


_HEADER_ALIASES = {
    "bind::relevant": "relevant", "bind:relevant": "relevant", "relevance": "relevant",
    "bind::constraint": "constraint", "bind:constraint": "constraint",
    "bind::calculate": "calculation", "bind:calculate": "calculation", "calculate": "calculation",
    "bind::required": "required", "bind:required": "required",
    "bind::readonly": "readonly", "bind:readonly": "readonly", "read_only": "readonly",
    "bind::jr:constraintmsg": "constraint_message", "bind:jr:constraintmsg": "constraint_message",
    "bind::jr:requiredmsg": "required_message", "bind:jr:requiredmsg": "required_message",
    "control::jr:count": "repeat_count", "jr:count": "repeat_count", "control:jr:count": "repeat_count",
    "control::appearance": "appearance", "control:appearance": "appearance",
    "caption": "label",
}
_TRANSLATABLE = ("guidance_hint", "guidance hint", "constraint_message", "constraint message",
                 "required_message", "required message", "label", "hint")


def canon_header(h: str):
    """(canonical column, language or None).  'label::English (en)' -> ('label', 'English (en)')."""
    h = (h or "").strip()
    low = h.lower()
    if low in _HEADER_ALIASES:
        return _HEADER_ALIASES[low], None
    lang, base = None, h
    for kind in _TRANSLATABLE:
        hit = False
        for sep in ("::", ":"):
            if low.startswith(kind + sep):
                lang = h[len(kind) + len(sep):].strip()
                base = kind
                hit = True
                break
        if hit:
            break
    base = base.strip().lower().replace(" ", "_")
    return _HEADER_ALIASES.get(base, base), lang


@dataclass
class SRow:
    """One named survey row seen from the source."""
    idx: int            # 0-based index among the survey rows
    type: str           # full type cell
    name: str
    kind: str           # 'question' | 'group' | 'repeat'
    path: tuple         # steps below the root element, own name last: ('outer', 'rep', 'y')
    cells: dict         # canonical column -> text; translated columns under (column, language)
    repeats: tuple      # paths of the enclosing repeats, outermost first (own path not included)

    @property
    def base_type(self):
        p = self.type.split()
        return p[0] if p else ""

    def xpath(self, root):
        return "/" + "/".join((root, *self.path))


@dataclass
class STree:
    rows: list
    ok: bool            # False when the sheet uses constructs this reader does not model (loops, ...)
    why: str = ""


_BEGIN = re.compile(r"^begin[ _](group|repeat|lgroup|looped group|loop)\b(.*)$")
_END = re.compile(r"^end[ _](group|repeat|lgroup|looped group|loop)\s*$")


def survey_tree(wb: WB | None) -> STree:
    """Tree view of the survey sheet.  ok=False for loops, unbalanced begin/end, missing columns."""
    if wb is None:
        return STree([], False, "no workbook")
    sheet = next((k for k in wb if str(k).strip().lower() == "survey"), None)
    if sheet is None:
        return STree([], False, "no survey sheet")
    headers, rows = wb[sheet]
    canon = [canon_header(h) if h is not None else (None, None) for h in headers]
    cols = [c for c, _ in canon]
    if "type" not in cols or "name" not in cols:
        return STree([], False, "no type/name column")
    out, stack = [], []
    for i, row in enumerate(rows):
        cells = {}
        for (c, lang), v in zip(canon, row):
            if c is None or v is None or str(v).strip() == "":
                continue
            key = c if lang is None else (c, lang)
            if key in cells:
                return STree(out, False, "duplicate column")
            cells[key] = str(v).strip()
        t = cells.get("type")
        if t is None:
            if cells:
                return STree(out, False, "row without type")
            continue
        tl = " ".join(t.lower().split())
        if _END.match(tl):
            if not stack:
                return STree(out, False, "unbalanced end")
            stack.pop()
            continue
        m = _BEGIN.match(tl)
        name = cells.get("name")
        reps = tuple(tuple(n for n, _ in stack[: j + 1]) for j, (_, k) in enumerate(stack) if k == "repeat")
        if m:
            if m.group(1) == "loop" or name is None:
                return STree(out, False, "loop or unnamed section")
            kind = "group" if m.group(1) == "group" else "repeat"
            out.append(SRow(i, t, name, kind, tuple(n for n, _ in stack) + (name,), cells, reps))
            stack.append((name, kind))
            continue
        if tl.split()[0] in ("audit", "include", "xml-external", "csv-external"):
            continue
        if name is None:
            continue
        out.append(SRow(i, t, name, "question", tuple(n for n, _ in stack) + (name,), cells, reps))
    if stack:
        return STree(out, False, "unbalanced begin")
    return STree(out, True)


def flat_text(e) -> str:
    """Mixed content of a label/value element with every <output value="X"/> written as \\x01X\\x02."""
    s = e.text or ""
    for c in e:
        if XForm.local(c.tag) == "output":
            s += "\x01" + (c.get("value") or "") + "\x02"
        else:
            s += flat_text(c)
        s += c.tail or ""
    return s


REF_TOKEN = re.compile(r"\$\{(last-saved#)?([^}]*)\}")


def align_refs(source: str, output: str, open_="", close=""):
    """Match `output` against `source` with every ${..} token standing for an arbitrary non-empty run.
    Returns the replacement strings (one per token, in order) or None when the literal parts of the cell are
    not preserved.  Whitespace runs are compared loosely (the converter pads replacements with blanks)."""
    parts, pos = [], 0
    toks = list(REF_TOKEN.finditer(source))
    for m in toks:
        parts.append(source[pos:m.start()])
        pos = m.end()
    parts.append(source[pos:])
    rx = r"\s*"
    for i, p in enumerate(parts):
        words = [w for w in re.split(r"\s+", p) if w]
        rx += r"\s*".join(re.escape(w) for w in words) + r"\s*"
        if i < len(toks):
            rx += re.escape(open_) + r"\s*(\S(?:.*?\S)?)\s*" + re.escape(close) + r"\s*"
    m = re.fullmatch(rx, output, re.S)
    return list(m.groups()) if m else None


def eval_path(context: tuple, expr: str, root: str):
    """XPath-subset evaluator over schema paths (no multiplicities).

    `context`: steps below the root element of the node the expression is evaluated from.
    Returns (kind, steps, pivot, instance, current):
      kind      'abs' | 'rel' | 'bad'
      steps     steps below the root of the node reached (None when kind == 'bad')
      pivot     for 'rel': number of steps below the root of the highest node the walk passes through
      instance  None or the id given in a leading instance('id')
      current   True when the expression starts with current()/
    """
    e = expr.strip()
    inst = None
    m = re.match(r"^instance\(\s*'([^']*)'\s*\)", e)
    if m:
        inst = m.group(1)
        e = e[m.end():]
    cur = False
    if e.startswith("current()/"):
        cur = True
        e = e[len("current()/"):]
    name_ok = re.compile(r"[^\s\[\]()'\"=<>!,|*+@$]+")
    if e.startswith("/"):
        steps = e[1:].split("/")
        if cur or not steps or steps[0] != root or any(s in ("", ".", "..") or not name_ok.fullmatch(s) for s in steps):
            return "bad", None, None, inst, cur
        return "abs", tuple(steps[1:]), None, inst, cur
    if inst is not None or not e:
        return "bad", None, None, inst, cur
    node = list(context)
    pivot = len(node)
    for s in e.split("/"):
        if s == "..":
            if not node:
                # the walk leaves the document above the root element: a relative path that arrives nowhere
                return "rel", ("<above the root element>",), -1, inst, cur
            node.pop()
            pivot = min(pivot, len(node))
        elif s == ".":
            continue
        elif not name_ok.fullmatch(s):
            return "bad", None, None, inst, cur
        else:
            node.append(s)
    return "rel", tuple(node), pivot, inst, cur


def local(tag):
    return tag.rsplit("}", 1)[-1]


# ------------------------------------------------------------------------------------------------
# reference tokens of a source cell
# ------------------------------------------------------------------------------------------------


def _spans(text: str, opener: str):
    """Spans (start of opener, index after the matching ')') of calls like 'indexed-repeat(' (quote aware)."""
    out, i = [], 0
    while True:
        i = text.find(opener, i)
        if i < 0:
            return out
        depth, j, q = 0, i + len(opener) - 1, None
        while j < len(text):
            ch = text[j]
            if q:
                if ch == q:
                    q = None
            elif ch in "'\"":
                q = ch
            elif ch == "(":
                depth += 1
            elif ch == ")":
                depth -= 1
                if depth == 0:
                    break
            j += 1
        out.append((i, j + 1))
        i += len(opener)


def ref_tokens(cell: str):
    """[{name, last_saved, start, end, in_pred, in_indexed}] for every ${..} of the cell."""
    idx_spans = _spans(cell, "indexed-repeat(")
    has_instance = "instance(" in cell
    out = []
    for m in REF_TOKEN.finditer(cell):
        depth, q = 0, None
        for ch in cell[: m.start()]:
            if q:
                if ch == q:
                    q = None
            elif ch in "'\"":
                q = ch
            elif ch == "[":
                depth += 1
            elif ch == "]":
                depth = max(0, depth - 1)
        out.append({
            "name": m.group(2), "last_saved": m.group(1) is not None, "start": m.start(), "end": m.end(),
            "in_pred": has_instance and depth > 0,
            "in_indexed": any(a <= m.start() and m.end() <= b for a, b in idx_spans),
        })
    return out


# ------------------------------------------------------------------------------------------------
# where a cell lands in the XForm
# ------------------------------------------------------------------------------------------------

BIND_ATTR = {"relevant": "relevant", "constraint": "constraint", "calculation": "calculate",
             "required": "required", "readonly": "readonly"}
TEXT_KINDS = {"label": "label", "hint": "hint", "guidance_hint": "hint",
              "constraint_message": "jr:constraintMsg", "required_message": "jr:requiredMsg"}
GENERATED_NAME = re.compile(r"^(generated_.*|.*_count|.*_other|meta|instanceID|instanceName|entity)$")


class Doc:
    """Index of the places of an XForm where cells land."""

    def __init__(self, xf: XForm):
        self.xf = xf
        self.root = local(xf.iroot.tag)
        self.binds = {}
        for b in xf.binds():
            self.binds.setdefault(b.get("nodeset"), []).append(b)
        self.controls = {}      # ref -> [body elements]
        self.repeats = {}       # nodeset -> [repeat elements]
        self.parent = {}
        for e in xf.root.iter():
            for c in e:
                self.parent[c] = e
        if xf.body is not None:
            for e in xf.body.iter():
                t = local(e.tag)
                if t == "repeat" and e.get("nodeset"):
                    self.repeats.setdefault(e.get("nodeset"), []).append(e)
                elif e.get("ref") and t not in ("label", "hint", "value", "output", "setvalue", "setgeopoint",
                                                "recordaudio", "item", "itemset", "tag"):
                    self.controls.setdefault(e.get("ref"), []).append(e)
        self.setvalues = [e for e in xf.root.iter() if local(e.tag) in ("setvalue", "setgeopoint")]
        self.itext = {}         # text id -> [(lang, form, flat text)]
        if xf.model is not None:
            it = xf.model.find(f"{XF}itext")
            if it is not None:
                for tr in it.findall(f"{XF}translation"):
                    for tx in tr.findall(f"{XF}text"):
                        for v in tx.findall(f"{XF}value"):
                            self.itext.setdefault(tx.get("id"), []).append((tr.get("lang"), v.get("form"), flat_text(v)))
        self.instance_ids = {i.get("id"): i for i in xf.instances if i.get("id")}
        self.source_paths = set()


def _predicate(nodeset: str):
    """Text between the first '[' and its matching ']' of an itemset nodeset, or None."""
    i = nodeset.find("[")
    if i < 0:
        return None
    depth, q = 0, None
    for j in range(i, len(nodeset)):
        ch = nodeset[j]
        if q:
            if ch == q:
                q = None
        elif ch in "'\"":
            q = ch
        elif ch == "[":
            depth += 1
        elif ch == "]":
            depth -= 1
            if depth == 0:
                return nodeset[i + 1: j]
    return None


def _randomize_seed(nodeset: str):
    """Second top-level argument of randomize(a, b) or None."""
    s = nodeset.strip()
    if not (s.startswith("randomize(") and s.endswith(")")):
        return None
    inner = s[len("randomize("):-1]
    depth, q, cut = 0, None, None
    for j, ch in enumerate(inner):
        if q:
            if ch == q:
                q = None
        elif ch in "'\"":
            q = ch
        elif ch in "([":
            depth += 1
        elif ch in ")]":
            depth -= 1
        elif ch == "," and depth == 0:
            cut = j
    return None if cut is None else inner[cut + 1:]


def landings(doc: Doc, tree: STree, row: SRow, col, text: str):
    """Candidate output strings for one source cell: list of (output text, context steps, open, close, what).
    Empty list: this oracle does not know where the cell lands (nothing is demanded)."""
    key, lang = (col, None) if isinstance(col, str) else col
    P = row.xpath(doc.root)
    out = []
    if key in BIND_ATTR and lang is None:
        if key == "calculation" and row.cells.get("trigger"):
            for sv in doc.setvalues:
                if sv.get("ref") == P and "xforms-value-changed" in (sv.get("event") or "") and sv.get("value") is not None:
                    out.append((sv.get("value"), row.path, "", "", "triggered setvalue value"))
            return out
        for b in doc.binds.get(P, []):
            v = b.get(BIND_ATTR[key])
            if v is not None:
                out.append((v, row.path, "", "", f"bind {BIND_ATTR[key]}"))
        return out
    if key == "default" and lang is None and row.kind == "question":
        for sv in doc.setvalues:
            if sv.get("ref") == P and "odk-instance-first-load" in (sv.get("event") or "") and sv.get("value") is not None:
                out.append((sv.get("value"), row.path, "", "", "dynamic default setvalue value"))
        return out
    if key == "choice_filter" and lang is None and "${" in row.type:
        # `select_one ${q}` (choices = the answers given to q in a repeat): the filter is the predicate of a path of
        # the primary instance, nodeset[filter].  Inside it a path without current() starts from the candidate node
        # the nodeset selects; current() is the select's own node.  The sixth field is the candidate's position.
        for c in doc.controls.get(P, []):
            for its in c.findall(f"{XF}itemset"):
                ns = (its.get("nodeset") or "").strip()
                if ns.startswith("randomize("):
                    ns = ns[len("randomize("):]
                pred = _predicate(ns)
                kind, steps, _pv, inst, cur = eval_path(row.path, ns.split("[", 1)[0], doc.root)
                if pred is not None and kind in ("abs", "rel") and inst is None and not cur:
                    out.append((pred, row.path, "", "", "select-from-repeat filter", steps))
        return out
    if key == "choice_filter" and lang is None:
        for c in doc.controls.get(P, []):
            for its in c.findall(f"{XF}itemset"):
                pred = _predicate(its.get("nodeset") or "")
                if pred is not None and (its.get("nodeset") or "").lstrip().startswith(("instance(", "randomize(instance(")):
                    out.append((pred, row.path, "", "", "choice filter predicate"))
            # selects with external choices (select_one_external ...) are written as <input query="instance('list')
            # /root/item[filter]">: the filter is the predicate of a secondary instance there as well, and current()
            # is the input's own node
            q = c.get("query")
            if q is not None and q.lstrip().startswith("instance("):
                pred = _predicate(q)
                if pred is not None:
                    out.append((pred, row.path, "", "", "choice filter predicate of the query attribute"))
        return out
    if key == "parameters" and lang is None:
        m = re.search(r"seed\s*=\s*(\$\{[^}]*\})", text)
        if m and re.search(r"randomize\s*=\s*true", text):
            for c in doc.controls.get(P, []):
                for its in c.findall(f"{XF}itemset"):
                    seed = _randomize_seed(its.get("nodeset") or "")
                    if seed is not None:
                        out.append((seed, row.path, "", "", "randomize seed", m.group(1)))
        return out
    if key == "repeat_count" and lang is None and row.kind == "repeat":
        if re.fullmatch(r"\$\{[^}]*\}", text):
            for r in doc.repeats.get(P, []):
                v = r.get(f"{JR}count")
                if v is not None:
                    out.append((v, row.path, "", "", "jr:count"))
        else:
            cnt = row.path[:-1] + (row.name + "_count",)
            for b in doc.binds.get("/" + "/".join((doc.root, *cnt)), []):
                if b.get("calculate") is not None:
                    out.append((b.get("calculate"), cnt, "", "", "repeat count calculate"))
        return out
    if key in TEXT_KINDS:
        suffix = TEXT_KINDS[key]
        form = "guidance" if key == "guidance_hint" else None
        for (lg, fm, txt) in doc.itext.get(f"{P}:{suffix}", []):
            if fm == form and (lang is None or lg == lang or True):
                out.append((txt, row.path, "\x01", "\x02", f"itext {suffix} ({lg})"))
        if key in ("label", "hint") and lang is None:
            for c in doc.controls.get(P, []):
                for el in c.findall(f"{XF}{key}"):
                    if el.get("ref") is None:
                        out.append((flat_text(el), row.path, "\x01", "\x02", f"body {key}"))
        return out
    return out


# ------------------------------------------------------------------------------------------------
# the check
# ------------------------------------------------------------------------------------------------


def _v(key, what):
    return {"key": key, "what": what}


def _names(tree: STree):
    d = {}
    for r in tree.rows:
        d.setdefault(r.name, []).append(r)
    return d


def _survey_cells(tree: STree):
    """(row, column key, text) of every cell kind this oracle knows to accept references."""
    for row in tree.rows:
        for col, text in row.cells.items():
            key = col if isinstance(col, str) else col[0]
            if "${" not in text:
                continue
            if key in BIND_ATTR or key in TEXT_KINDS or key in ("default", "choice_filter", "repeat_count",
                                                               "trigger", "parameters"):
                yield row, col, text


def judge(tok, repl: str, context: tuple, target: SRow, root: str, doc: Doc, where: str):
    """Violations for one replaced reference."""
    kind, steps, pivot, inst, cur = eval_path(context, repl, root)
    ref = "${%s%s}" % ("last-saved#" if tok["last_saved"] else "", tok["name"])
    ctx_s = "/" + "/".join((root, *context))
    tgt_s = target.xpath(root)
    tail = f"{ref} in {where} of {ctx_s} became '{repl.strip()}'; the node of '{tok['name']}' is {tgt_s}"
    if tok["last_saved"]:
        if not (kind == "abs" and inst == "__last-saved" and steps == target.path):
            return [_v("C03:last-saved-wrong-path", tail + " (expected instance('__last-saved')" + tgt_s + ")")]
        i = doc.instance_ids.get("__last-saved")
        if i is None or i.get("src") != "jr://instance/last-saved":
            return [_v("C03:last-saved-instance-missing", tail + "; no <instance id='__last-saved' src='jr://instance/last-saved'>")]
        return []
    if kind == "bad" or inst is not None:
        return [_v("C03:replacement-not-a-path", tail)]
    inner = target.repeats[-1] if target.repeats else None
    shared = inner is not None and len(context) > len(inner) and context[: len(inner)] == inner
    if kind == "abs":
        if steps != target.path:
            # class of the failure: the node reached is the one whose name is the written name in another case
            folded = steps and steps[-1] != tok["name"] and steps[-1].lower() == tok["name"].lower()
            return [_v("C03:absolute-path-wrong-node" + (":name-case-folded" if folded else ""), tail)]
        if shared and not tok["in_indexed"]:
            return [_v("C03:absolute-inside-shared-repeat",
                       tail + f"; referrer and target share the repeat /{'/'.join((root, *inner))}, the path must be relative")]
        return []
    # relative
    out = []
    if steps != target.path:
        # class of the failure: does the path arrive at some other existing node or nowhere; and are the first
        # diverging ancestors of referrer and target prefix-related names (rep / rep2)?
        common = 0
        for a, b in zip(context, target.path):
            if a != b:
                break
            common += 1
        a = context[common] if common < len(context) else ""
        b = target.path[common] if common < len(target.path) else ""
        prefix = bool(a and b and a != b and (a.startswith(b) or b.startswith(a)))
        cls = "other-node" if steps in doc.source_paths else "dangling"
        reached = "/" + "/".join((root, *steps))
        trig = ":triggered-calculation" if where == "triggered setvalue value" else ""
        return [_v(f"C03:relative-path-wrong-node:{cls}" + (":prefix-related-section-names" if prefix else "") + trig,
                   tail + f"; evaluated from the referrer it reaches {reached}")]
    if shared and pivot < len(inner) and not tok["in_indexed"]:
        out.append(_v("C03:relative-path-leaves-shared-repeat", tail))
    if tok["in_pred"] and not cur:
        out.append(_v("C03:predicate-relative-without-current", tail + "; inside an instance() predicate a bare '..' is "
                      "relative to the item, not to the question"))
    return out


def judge_candidate_predicate(tok, repl: str, context: tuple, candidate: tuple, target: SRow, root: str):
    """One replaced reference inside the predicate of a primary-instance nodeset (select from a repeat's answers).
    Only the clause 'identifies the instance node of the question' is demanded: an absolute path is the target's, a
    path anchored with current() arrives at the target from the select's node, any other relative path arrives at
    the target from the candidate node the predicate is applied to (XPath: the predicate's context node)."""
    kind, steps, _pv, inst, cur = eval_path(context, repl, root)
    if kind == "rel" and not cur:
        kind, steps, _pv, inst, cur = eval_path(candidate, repl, root)
    if kind != "bad" and inst is None and steps == target.path:
        return []
    frm = "/" + "/".join((root, *(context if cur or kind != "rel" else candidate)))
    reached = "no node (not a path)" if kind == "bad" or inst is not None else "/" + "/".join((root, *steps))
    return [_v("C03:select-from-repeat-filter-wrong-node",
               f"${{{tok['name']}}} in the choice filter of /{'/'.join((root, *context))} (choices: the nodes "
               f"/{'/'.join((root, *candidate))}) became '{repl.strip()}', which evaluated from {frm} reaches {reached}; "
               f"the node of '{tok['name']}' is {target.xpath(root)}")]


def check(case, res, ctx):
    wb = source_wb(case)
    tree = survey_tree(wb)
    strict = case.name.startswith("c03")
    vs = []
    names = _names(tree) if tree.ok else {}

    # --- references that cannot be resolved must fail the conversion with an error naming them
    bad_refs = []
    if tree.ok:
        for row, col, text in _survey_cells(tree):
            for tok in ref_tokens(text):
                n = tok["name"]
                if n in names and len(names[n]) == 1:
                    continue
                if n not in names and (GENERATED_NAME.match(n) or not re.fullmatch(r"[A-Za-z_][A-Za-z0-9_.-]*", n)):
                    continue
                bad_refs.append((row, col, tok, "ambiguous" if n in names else "unknown"))
    if bad_refs:
        row, col, tok, why = bad_refs[0]
        colname = col if isinstance(col, str) else col[0]
        if res.ok:
            k = len(names.get(tok["name"], []))
            vs.append(_v(f"C03:{why}-reference-accepted" + (":parameters" if colname == "parameters" else ""),
                         f"${{{tok['name']}}} in column {colname} of row '{row.name}' is {why} "
                         f"({k} rows carry that name) but the form was converted"))
        elif not res.internal_error:
            msg = str(res.error)
            if all(t["name"] not in msg for _, _, t, _ in bad_refs):
                cls = "trigger" if all((c if isinstance(c, str) else c[0]) == "trigger" for _, c, _, _ in bad_refs) else "other"
                vs.append(_v(f"C03:error-does-not-name-reference:{cls}",
                             f"${{{tok['name']}}} ({why}) in column {colname}: conversion failed with "
                             f"'{msg[:160]}' which does not name the reference"))
        return vs
    if not res.ok:
        # every reference of the source is resolvable: the converter must not complain about a reference the
        # source never wrote (e.g. a re-cased name)
        if tree.ok and not res.internal_error:
            written = {t["name"] for _, _, text in _survey_cells(tree) for t in ref_tokens(text)}
            for m in REF_TOKEN.finditer(str(res.error)):
                if written and m.group(2) not in written and m.group(2).lower() in {w.lower() for w in written}:
                    vs.append(_v("C03:valid-reference-rejected",
                                 f"conversion failed with '{str(res.error)[:200]}' but the source only references "
                                 f"{sorted(written)}, all of which name exactly one row"))
                    break
        return vs

    xf, err = corpus.parse_ok(res.xform)
    if xf is None or xf.iroot is None:
        return vs

    # --- no ${...} survives anywhere
    for e in xf.root.iter():
        for k, v in e.attrib.items():
            if "${" in v and REF_TOKEN.search(v):
                vs.append(_v("C03:token-survives", f"attribute {local(k)} of <{local(e.tag)}> still contains '{v[:80]}'"))
                break
        for s in (e.text, e.tail):
            if s and "${" in s and REF_TOKEN.search(s):
                # only a finding when the source token names a row (free text such as '${' + '}' in notes is not)
                vs.append(_v("C03:token-survives", f"text near <{local(e.tag)}> still contains '{s.strip()[:80]}'"))
                break
    if not tree.ok:
        return vs

    doc = Doc(xf)
    doc.source_paths = {r.path for r in tree.rows}
    for row, col, text in _survey_cells(tree):
        key = col if isinstance(col, str) else col[0]
        toks = ref_tokens(text)
        if key == "trigger":
            continue
        cands = landings(doc, tree, row, col, text)
        if not cands:
            if strict:
                vs.append(_v("C03:cell-not-found", f"column {key} of row '{row.name}' ('{text}') was not found in the output"))
            continue
        if key == "parameters":
            src = cands[0][5]
            toks = ref_tokens(src)
        else:
            src = text
        if key == "choice_filter":
            for t in toks:
                t["in_pred"] = True
        aligned = None
        for cand in cands:
            outtxt, context, op, cl, what = cand[:5]
            reps = align_refs(src, outtxt, op, cl)
            if reps is not None and len(reps) == len(toks):
                aligned = (reps, context, what, *cand[5:6])
                break
        if aligned is None:
            if strict:
                vs.append(_v("C03:cell-not-preserved",
                             f"column {key} of row '{row.name}': '{text}' does not match any of "
                             f"{[c[0].replace(chr(1), '<').replace(chr(2), '>')[:80] for c in cands]} modulo reference replacement"))
            continue
        reps, context, what = aligned[:3]
        for tok, repl in zip(toks, reps):
            target = names[tok["name"]][0]
            if what == "select-from-repeat filter":
                vs.extend(judge_candidate_predicate(tok, repl, tuple(context), tuple(aligned[3]), target, doc.root))
                continue
            vs.extend(judge(tok, repl, tuple(context), target, doc.root, doc, what))
        if key == "repeat_count" and not re.fullmatch(r"\$\{[^}]*\}", text):
            # the repeat's jr:count must reach the generated count node from the repeat
            cnt = row.path[:-1] + (row.name + "_count",)
            for r in doc.repeats.get(row.xpath(doc.root), []):
                v = r.get(f"{JR}count")
                if v is not None:
                    kind, steps, pivot, inst, cur = eval_path(row.path, v, doc.root)
                    if kind == "bad" or steps != cnt:
                        vs.append(_v("C03:jr-count-wrong-node", f"jr:count '{v}' of {row.xpath(doc.root)} does not reach "
                                     f"/{'/'.join((doc.root, *cnt))}"))

    # --- select from repeat: `select_one ${q}`: itemset nodeset + value ref reach q
    for row in tree.rows:
        m = re.fullmatch(r"\s*(select_one|select_multiple)\s+\$\{([^}]*)\}\s*", row.type)
        if not m or m.group(2) not in names or len(names[m.group(2)]) != 1:
            continue
        target = names[m.group(2)][0]
        for c in doc.controls.get(row.xpath(doc.root), []):
            for its in c.findall(f"{XF}itemset"):
                ns = its.get("nodeset") or ""
                base = ns.split("[", 1)[0]
                val = its.find(f"{XF}value")
                vref = val.get("ref") if val is not None else None
                kind, steps, pivot, inst, cur = eval_path(row.path, base, doc.root)
                if kind == "bad" or vref is None or steps + (vref,) != target.path:
                    vs.append(_v("C03:select-from-repeat-wrong-node",
                                 f"itemset nodeset '{ns}' + value ref '{vref}' of {row.xpath(doc.root)} does not reach {target.xpath(doc.root)}"))

    # --- entities sheet and settings expressions (never inside repeats: context is the meta block)
    if wb is not None:
        for sheet, mapping, ctxpath in (
            ("entities", {"label": ("/meta/entity/label", "calculate"), "entity_id": ("/meta/entity/@id", "calculate"),
                          "create_if": ("/meta/entity/@create", "calculate"), "update_if": ("/meta/entity/@update", "calculate")},
             ("meta", "entity")),
            ("settings", {"instance_name": ("/meta/instanceName", "calculate")}, ("meta", "instanceName")),
        ):
            sh = next((k for k in wb if str(k).strip().lower() == sheet), None)
            if sh is None:
                continue
            headers, rows = wb[sh]
            for r in rows[:1]:
                for h, v in zip(headers, r):
                    if h is None or v is None or "${" not in str(v):
                        continue
                    hk = str(h).strip().lower()
                    if hk not in mapping:
                        continue
                    suffix, attr = mapping[hk]
                    for b in doc.binds.get("/" + doc.root + suffix, []):
                        outv = b.get(attr)
                        toks = ref_tokens(str(v))
                        reps = align_refs(str(v).strip(), outv or "")
                        if reps is None or len(reps) != len(toks):
                            continue
                        for tok, repl in zip(toks, reps):
                            if tok["name"] in names and len(names[tok["name"]]) == 1:
                                vs.extend(judge(tok, repl, ctxpath, names[tok["name"]][0], doc.root, doc, f"{sheet}.{hk}"))
    return vs


# ------------------------------------------------------------------------------------------------
# case families
# ------------------------------------------------------------------------------------------------


def forests(n: int, max_depth: int):
    """All ordered forests with n nodes and height <= max_depth, as nested tuples of children."""
    if n == 0:
        yield ()
        return
    if max_depth == 0:
        return
    # first tree has k nodes (root + forest of k-1), the rest is a forest of n-k
    for k in range(1, n + 1):
        for sub in forests(k - 1, max_depth - 1):
            for rest in forests(n - k, max_depth):
                yield ((sub,),) + tuple(rest)


def _count_nodes(forest):
    return sum(1 + _count_nodes(t[0]) for t in forest)


NAME_POOLS = {
    "plain": ["ka", "mb", "nc", "pd", "se", "tf", "ug", "vh"],
    # every two names are prefix-related (r / r2 / r22 ...), in both orders, plus the pool of the task statement
    "chain": ["r", "r2", "r22", "r222", "r2222", "r22222", "r222222", "r2222222"],
    "chain-rev": ["g2222", "g222", "g22", "g2", "g", "g22222", "g222222", "g2222222"],
    "prefix": ["outer", "r", "r2", "rr", "g", "g2", "outer2", "r22"],
}

REFERRER_HEADERS = ["type", "name", "label", "hint", "relevant", "constraint", "constraint_message", "required",
                    "required_message", "readonly", "calculation", "default", "choice_filter", "parameters",
                    "repeat_count", "trigger"]


def _render(rows):
    headers = [h for h in REFERRER_HEADERS if any(h in r for r in rows)]
    for r in rows:
        for h in r:
            if h not in headers:
                headers.append(h)
    return headers, [[r.get(h) for h in headers] for r in rows]


CHOICES = (["list_name", "name", "label", "x"], [["l", "c1", "C1", "1"], ["l", "c2", "C2", "2"]])


def layout_case(name, forest, kinds, pool, target_pos, variant=0, ref="${y}", tname="y", target_container=None):
    """One form: a container tree (kinds[i] in 'gr' for the i-th container in preorder), the target question
    `tname` at position target_pos (0 = root, i = inside the i-th container) and, at every position, referrer rows
    that use `ref` in every reference-bearing column."""
    rows = []
    counter = [0]
    if target_container is not None:
        # the statement quantifies over "every placement of referrer and target in every tree of groups and repeats": the
        # target may itself be a group or repeat (count(${repeat}), ${group} in an expression), including one that
        # encloses the referrer; no target question is placed (target_pos = -1)
        tname = pool[target_container - 1]
        ref = "${" + tname + "}"
        target_pos = -1
    open_targets = [0]

    def referrers(pos):
        sel = {"type": "select_one l", "name": f"f{pos}", "label": f"L {ref} end", "hint": f"H {ref}",
               "relevant": f"{ref} = 1", "constraint": f". != {ref}", "constraint_message": f"M {ref} m",
               "required": f"{ref} = 3", "required_message": f"{ref} needed", "readonly": f"{ref} = 7",
               "choice_filter": f"x = {ref} or x > {ref}", "parameters": f"randomize=true, seed={ref}"}
        if variant % 2 == 0:
            sel["default"] = f"{ref}"
        else:
            sel["default"] = f"{ref} + 1"
        calc = {"type": "calculate", "name": f"c{pos}", "calculation": f"{ref} + 1 - {ref}"}
        inst = {"type": "calculate", "name": f"d{pos}",
                "calculation": f"instance('l')/root/item[name = {ref}]/label"}
        note = {"type": "note", "name": f"n{pos}", "label": f"{ref}"}
        return [sel, calc, inst, note] if variant % 2 == 0 else [note, inst, calc, sel]

    def place(pos):
        if pos == target_pos:
            rows.append({"type": "text", "name": tname, "label": "T"})
        rows.extend(referrers(pos))

    def walk(forest):
        for (children,) in forest:
            counter[0] += 1
            i = counter[0]
            kind = kinds[i - 1]
            nm = pool[i - 1]
            row = {"type": "begin repeat" if kind == "r" else "begin group", "name": nm, "label": f"S{i}"}
            row["relevant"] = f"{ref} = 2"
            rows.append(row)
            start = len(rows)
            is_target = target_container is not None and i == target_container
            if is_target:
                open_targets[0] += 1
            place(i)
            walk(children)
            if is_target:
                open_targets[0] -= 1
            # repeat_count may only reference a question outside the repeat itself
            if kind == "r" and not is_target and not open_targets[0]:
                inside = any(r.get("name") == tname for r in rows[start:])
                if not inside:
                    row["repeat_count"] = ref if (variant + i) % 2 == 0 else f"{ref} + 1"
            rows.append({"type": "end repeat" if kind == "r" else "end group"})

    place(0)
    walk(forest)
    wb = WB()
    wb["survey"] = _render(rows)
    wb["choices"] = CHOICES
    return Case(name, md=corpus.wb_to_md(wb), origin="c03-family")


def container_target_family(ns, max_depth, pools):
    """Every forest with n containers x every group/repeat labelling x every *container* as the target of the
    references (referrers at every position: outside it, inside it, in a sibling subtree)."""
    out = []
    sid = 0
    for n in ns:
        for forest in forests(n, max_depth):
            for kinds in itertools.product("gr", repeat=n):
                sid += 1
                for tc in range(1, n + 1):
                    pool_name = pools[(sid + tc) % len(pools)]
                    out.append(layout_case(f"c03-container-n{n}-s{sid}-{''.join(kinds)}-{pool_name}-c{tc}",
                                           forest, kinds, NAME_POOLS[pool_name], -1, variant=sid + tc,
                                           target_container=tc))
    return out


def _height(forest):
    return 0 if not forest else 1 + max(_height(t[0]) for t in forest)


def layout_family(ns, max_depth, pools, rnd=None, sample=None, tall_full=False):
    """Every forest with n in `ns` containers x every group/repeat labelling x every target position; the name
    pool rotates over `pools` when sampling, otherwise every pool is used.  Shapes of height >= 3 are never sampled
    away when tall_full is set."""
    out = []
    sid = 0
    for n in ns:
        for forest in forests(n, max_depth):
            tall = _height(forest) >= 3
            for kinds in itertools.product("gr", repeat=n):
                sid += 1
                for tpos in range(n + 1):
                    use = pools
                    if sample is not None:
                        if tall and tall_full:
                            use = [pools[(sid + tpos) % len(pools)]]
                        elif rnd.random() > sample:
                            continue
                        else:
                            use = [pools[(sid + tpos) % len(pools)]]
                    if n == 0:
                        use = use[:1]
                    for pool_name in use:
                        out.append(layout_case(f"c03-layout-n{n}-s{sid}-{''.join(kinds)}-{pool_name}-t{tpos}",
                                               forest, kinds, NAME_POOLS[pool_name], tpos,
                                               variant=sid + tpos + pools.index(pool_name)))
    return out


def _wrap(rows, choices=True, extra=None):
    wb = WB()
    wb["survey"] = _render(rows)
    if choices:
        wb["choices"] = CHOICES
    for k, v in (extra or {}).items():
        wb[k] = v
    return wb


REF_CELLS = [
    ("relevant", lambda r: {"type": "text", "name": "zz", "label": "Z", "relevant": f"{r} = 1"}),
    ("constraint", lambda r: {"type": "text", "name": "zz", "label": "Z", "constraint": f". != {r}"}),
    ("calculation", lambda r: {"type": "calculate", "name": "zz", "calculation": f"{r} + 1"}),
    ("required", lambda r: {"type": "text", "name": "zz", "label": "Z", "required": f"{r} = 1"}),
    ("readonly", lambda r: {"type": "text", "name": "zz", "label": "Z", "readonly": f"{r} = 1"}),
    ("default", lambda r: {"type": "text", "name": "zz", "label": "Z", "default": f"{r}"}),
    ("label", lambda r: {"type": "text", "name": "zz", "label": f"Z {r}"}),
    ("hint", lambda r: {"type": "text", "name": "zz", "label": "Z", "hint": f"H {r}"}),
    ("constraint_message", lambda r: {"type": "text", "name": "zz", "label": "Z", "constraint": ". > 1", "constraint_message": f"M {r}"}),
    ("required_message", lambda r: {"type": "text", "name": "zz", "label": "Z", "required": "yes", "required_message": f"M {r}"}),
    ("choice_filter", lambda r: {"type": "select_one l", "name": "zz", "label": "Z", "choice_filter": f"x = {r}"}),
    ("seed", lambda r: {"type": "select_one l", "name": "zz", "label": "Z", "parameters": f"randomize=true, seed={r}"}),
    ("trigger", lambda r: {"type": "calculate", "name": "zz", "calculation": "1 + 1", "trigger": f"{r}"}),
    ("group-relevant", lambda r: [{"type": "begin group", "name": "zg", "label": "ZG", "relevant": f"{r} = 1"},
                                  {"type": "text", "name": "zz", "label": "Z"}, {"type": "end group"}]),
    ("repeat-count", lambda r: [{"type": "begin repeat", "name": "zr", "label": "ZR", "repeat_count": f"{r}"},
                                {"type": "text", "name": "zz", "label": "Z"}, {"type": "end repeat"}]),
    ("repeat-count-expr", lambda r: [{"type": "begin repeat", "name": "zr", "label": "ZR", "repeat_count": f"{r} + 1"},
                                     {"type": "text", "name": "zz", "label": "Z"}, {"type": "end repeat"}]),
    ("group-label", lambda r: [{"type": "begin group", "name": "zg", "label": f"ZG {r}"},
                               {"type": "text", "name": "zz", "label": "Z"}, {"type": "end group"}]),
]


def _as_rows(x):
    return x if isinstance(x, list) else [x]


def ambiguity_family():
    """k = 1..6 rows named 'a' spread over groups/repeats (k = 1: control), one reference per cell kind;
    plus references to names that no row has."""
    out = []
    for k in range(1, 7):
        for mix in ("g", "r", "gr", "nest"):
            for ci, (cname, mk) in enumerate(REF_CELLS):
                rows = []
                if mix == "nest":
                    # nested sections each holding an 'a'
                    for j in range(k):
                        rows.append({"type": "begin group" if j % 2 else "begin repeat", "name": f"s{j}", "label": f"S{j}"})
                        rows.append({"type": "text" if j % 3 else "integer", "name": "a", "label": f"A{j}"})
                    for j in reversed(range(k)):
                        rows.append({"type": "end group" if j % 2 else "end repeat"})
                else:
                    for j in range(k):
                        kind = mix[j % len(mix)]
                        rows.append({"type": "begin group" if kind == "g" else "begin repeat", "name": f"s{j}", "label": f"S{j}"})
                        rows.append({"type": "text", "name": "a", "label": f"A{j}"})
                        rows.append({"type": "end group" if kind == "g" else "end repeat"})
                ref_rows = _as_rows(mk("${a}"))
                # the referrer goes first, last, or in the middle
                where = (k + ci) % 3
                if where == 0:
                    rows = ref_rows + rows
                else:
                    rows = rows + ref_rows
                out.append(Case(f"c03-dup{k}-{mix}-{cname}", md=corpus.wb_to_md(_wrap(rows)), origin="c03-family"))
    # a section and questions sharing the name
    for cname, mk in REF_CELLS:
        rows = [{"type": "begin group", "name": "a", "label": "GA"}, {"type": "text", "name": "b", "label": "B"},
                {"type": "end group"},
                {"type": "begin group", "name": "h", "label": "H"}, {"type": "text", "name": "a", "label": "A"},
                {"type": "end group"},
                {"type": "begin repeat", "name": "h2", "label": "H2"}, {"type": "text", "name": "a", "label": "A"},
                {"type": "end repeat"}] + _as_rows(mk("${a}"))
        out.append(Case(f"c03-dup-section-{cname}", md=corpus.wb_to_md(_wrap(rows)), origin="c03-family"))
    # names that differ only in case are different names: ${Age} is the row Age, never the row age
    for cname, mk in REF_CELLS:
        rows = [{"type": "integer", "name": "Age", "label": "A"},
                {"type": "begin group", "name": "s0", "label": "S"}, {"type": "integer", "name": "age", "label": "a"},
                {"type": "end group"}] + _as_rows(mk("${Age}"))
        out.append(Case(f"c03-case-{cname}", md=corpus.wb_to_md(_wrap(rows)), origin="c03-family"))
    # unknown names
    for cname, mk in REF_CELLS:
        for missing in ("nope", "a2", "A"):
            rows = [{"type": "text", "name": "a", "label": "A"},
                    {"type": "begin repeat", "name": "s0", "label": "S"}, {"type": "text", "name": "aa", "label": "AA"},
                    {"type": "end repeat"}] + _as_rows(mk("${%s}" % missing))
            out.append(Case(f"c03-missing-{missing}-{cname}", md=corpus.wb_to_md(_wrap(rows)), origin="c03-family"))
        rows = [{"type": "text", "name": "a", "label": "A"}] + _as_rows(mk("${last-saved#nope}"))
        if cname not in ("trigger", "repeat-count", "seed"):
            out.append(Case(f"c03-missing-lastsaved-{cname}", md=corpus.wb_to_md(_wrap(rows)), origin="c03-family"))
    return out


def special_family():
    """last-saved, indexed-repeat, instance() predicates, several references in one cell, entities, settings."""
    out = []

    def add(name, rows, **extra):
        out.append(Case("c03-" + name, md=corpus.wb_to_md(_wrap(rows, extra=extra or None)), origin="c03-family"))

    base = [{"type": "text", "name": "a", "label": "A"}, {"type": "integer", "name": "n", "label": "N"}]
    # last-saved from every placement
    for wrapk, wrap in (("root", []), ("g", ["group"]), ("r", ["repeat"]), ("rg", ["repeat", "group"]),
                        ("rr", ["repeat", "repeat"])):
        for tw in ("root", "g", "r"):
            rows = list(base)
            if tw == "g":
                rows += [{"type": "begin group", "name": "tg", "label": "TG"}, {"type": "text", "name": "t", "label": "T"}, {"type": "end group"}]
            elif tw == "r":
                rows += [{"type": "begin repeat", "name": "tr", "label": "TR"}, {"type": "text", "name": "t", "label": "T"}, {"type": "end repeat"}]
            else:
                rows += [{"type": "text", "name": "t", "label": "T"}]
            for j, w in enumerate(wrap):
                rows.append({"type": f"begin {w}", "name": f"w{j}", "label": f"W{j}"})
            rows += [{"type": "text", "name": "q1", "label": "Q ${last-saved#t}", "default": "${last-saved#t}",
                      "relevant": "${last-saved#t} != ${t}", "constraint": ". != ${last-saved#t} and ${a} != ''"},
                     {"type": "calculate", "name": "q2", "calculation": "concat(${last-saved#t}, ${last-saved#a}, ${t})"},
                     {"type": "select_one l", "name": "q3", "label": "Q3", "choice_filter": "x = ${last-saved#n} or x = ${n}"}]
            for j, w in reversed(list(enumerate(wrap))):
                rows.append({"type": f"end {w}"})
            add(f"lastsaved-{wrapk}-{tw}", rows)
    # last-saved alone in one cell kind (the instance declaration must not depend on a lucky neighbour cell)
    for cname, mk in REF_CELLS:
        if cname in ("trigger",):
            continue
        for tw in ("root", "r"):
            rows = [{"type": "text", "name": "t", "label": "T"}] if tw == "root" else [
                {"type": "begin repeat", "name": "tr", "label": "TR"}, {"type": "text", "name": "t", "label": "T"},
                {"type": "end repeat"}]
            add(f"lastsaved-only-{cname}-{tw}", rows + _as_rows(mk("${last-saved#t}")))
    # calculation with a trigger: the value of the nested setvalue is evaluated from the calculated node
    # (W3C XForms 1.1 setvalue: the context of @value is the node selected by @ref)
    for tname_, tdepth, cdepth in (("same", 1, 1), ("trigger-deeper", 2, 0), ("calc-deeper", 0, 2), ("both-deep", 2, 2),
                                   ("trigger-deeper1", 1, 0), ("calc-deeper1", 0, 1)):
        for outer in ("repeat", "group", None):
            rows = [{"type": "text", "name": "top", "label": "Top"}]
            if outer:
                rows.append({"type": f"begin {outer}", "name": "rep", "label": "R"})
            rows.append({"type": "text", "name": "y", "label": "Y"})
            for j in range(tdepth):
                rows.append({"type": "begin group", "name": f"tg{j}", "label": f"TG{j}"})
            rows.append({"type": "text", "name": "t", "label": "T"})
            for j in range(tdepth):
                rows.append({"type": "end group"})
            for j in range(cdepth):
                rows.append({"type": "begin group", "name": f"cg{j}", "label": f"CG{j}"})
            rows.append({"type": "calculate", "name": "c", "calculation": "concat(${y}, ${top}, ${t})", "trigger": "${t}"})
            rows.append({"type": "text", "name": "c2", "label": "C2", "calculation": "${y} + 1", "trigger": "${t}"})
            for j in range(cdepth):
                rows.append({"type": "end group"})
            if outer:
                rows.append({"type": f"end {outer}"})
            add(f"trigger-{tname_}-{outer}", rows)
    # indexed-repeat
    ir_rows = lambda exprs: (  # noqa: E731
        [{"type": "integer", "name": "n", "label": "N"},
         {"type": "begin repeat", "name": "rep", "label": "R"},
         {"type": "text", "name": "a", "label": "A"},
         {"type": "integer", "name": "i1", "label": "I"},
         {"type": "begin group", "name": "grp", "label": "G"},
         {"type": "text", "name": "b", "label": "B"},
         {"type": "begin repeat", "name": "rep2", "label": "R2"},
         {"type": "text", "name": "c", "label": "C"},
         {"type": "integer", "name": "i2", "label": "I2"}]
        + [{"type": "calculate", "name": f"in{j}", "calculation": e} for j, e in enumerate(exprs)]
        + [{"type": "end repeat"},
           {"type": "end group"}]
        + [{"type": "calculate", "name": f"mid{j}", "calculation": e} for j, e in enumerate(exprs)]
        + [{"type": "end repeat"}]
        + [{"type": "calculate", "name": f"out{j}", "calculation": e} for j, e in enumerate(exprs)])
    exprs = ["indexed-repeat(${a}, ${rep}, 1)",
             "indexed-repeat(${a}, ${rep}, ${n})",
             "indexed-repeat(${c}, ${rep}, 1, ${rep2}, 2)",
             "indexed-repeat(${c}, ${rep}, ${n}, ${rep2}, ${n} + 1)",
             "indexed-repeat(${b}, ${rep}, ${n}) + ${n}",
             "concat(indexed-repeat(${a}, ${rep}, 1), ${n}, indexed-repeat(${b}, ${rep}, 2))",
             "if(${n} > 1, indexed-repeat(${a}, ${rep}, ${n} - 1), '')"]
    add("indexed-outer", ir_rows(exprs))
    inner_only = [{"type": "integer", "name": "n", "label": "N"},
                  {"type": "begin repeat", "name": "rep", "label": "R"},
                  {"type": "text", "name": "a", "label": "A"},
                  {"type": "integer", "name": "i1", "label": "I"},
                  {"type": "calculate", "name": "p1", "calculation": "indexed-repeat(${a}, ${rep}, position(..) - 1)"},
                  {"type": "calculate", "name": "p2", "calculation": "indexed-repeat(${a}, ${rep}, ${i1})"},
                  {"type": "calculate", "name": "p3", "calculation": "indexed-repeat(${a}, ${rep}, ${i1}) + ${i1} + ${a}"},
                  {"type": "calculate", "name": "p4", "calculation": "${i1} + indexed-repeat(${a}, ${rep}, 1)"},
                  {"type": "text", "name": "p5", "label": "P5", "relevant": "indexed-repeat(${a}, ${rep}, 1) = ${a}"},
                  {"type": "end repeat"}]
    add("indexed-inner", inner_only)
    # instance() predicates and several references in one cell, in and out of repeats, prefix-related names
    for wrapk, wrap in (("root", []), ("r", ["repeat"]), ("rg", ["repeat", "group"]), ("rgg", ["repeat", "group", "group"])):
        rows = [{"type": "text", "name": "a", "label": "A"}]
        for j, w in enumerate(wrap):
            rows.append({"type": f"begin {w}", "name": ["rep", "g", "g2"][j], "label": f"W{j}"})
            if j == 0:
                rows.append({"type": "text", "name": "aa", "label": "AA"})
        rows += [{"type": "text", "name": "a2", "label": "A2"},
                 {"type": "calculate", "name": "k1", "calculation": "instance('l')/root/item[name = ${a2} and x = ${a}]/label"},
                 {"type": "calculate", "name": "k2", "calculation": "concat(${a2}, instance('l')/root/item[name = ${a2}]/label, ${a})"},
                 {"type": "calculate", "name": "k3", "calculation": "count(instance('l')/root/item[x > ${a2}][name != ${a}])"},
                 {"type": "text", "name": "k4", "label": "K ${a} ${a2} ${a}", "hint": "${a2}${a}",
                  "relevant": "${a}=${a2} or ${a2}=${a}"},
                 {"type": "select_multiple l", "name": "k5", "label": "K5", "choice_filter": "selected(${a2}, name) or x = ${a}"}]
        if wrap:
            rows[-5]["calculation"] = "instance('l')/root/item[name = ${a2} and x = ${aa}]/label"
        for j, w in reversed(list(enumerate(wrap))):
            rows.append({"type": f"end {w}"})
        add(f"instance-pred-{wrapk}", rows)
    # entities + instance_name
    ent = (["dataset", "label", "create_if"], [["trees", "concat(${a}, ' ', ${n})", "${n} > 1"]])
    rows = base + [{"type": "begin group", "name": "g", "label": "G"}, {"type": "text", "name": "t", "label": "T"}, {"type": "end group"}]
    add("entities-create", rows, entities=ent, settings=(["instance_name"], [["concat(${a}, '-', ${t})"]]))
    ent2 = (["dataset", "label", "entity_id", "update_if"], [["trees", "${t}", "${a}", "${n} = 1"]])
    add("entities-update", rows, entities=ent2)
    add("lastsaved-only-entity-label", rows, entities=(["dataset", "label"], [["trees", "concat(${last-saved#a}, ${t})"]]))
    add("lastsaved-only-instance-name", rows, settings=(["instance_name"], [["concat(${last-saved#t}, '-', ${a})"]]))
    # select from repeat
    for where in ("after", "inside", "nested"):
        rows = [{"type": "begin repeat", "name": "rep", "label": "R"}, {"type": "text", "name": "pname", "label": "P"}]
        sel = {"type": "select_one ${pname}", "name": "pick", "label": "Pick"}
        if where == "inside":
            rows.append(sel)
        if where == "nested":
            rows += [{"type": "begin group", "name": "g", "label": "G"}, sel, {"type": "end group"}]
        rows.append({"type": "end repeat"})
        if where == "after":
            rows.append(sel)
        add(f"select-from-repeat-{where}", rows)
    # the sibling-repeat layouts with prefix-related names, both orders, at several depths
    for na, nb in (("rep", "rep2"), ("rep2", "rep"), ("ab", "cd"), ("r", "rr"), ("g1", "g10")):
        for outer in ("repeat", "group"):
            for deep in (0, 1):
                rows = [{"type": f"begin {outer}", "name": "outer", "label": "O"},
                        {"type": "begin repeat", "name": na, "label": "A"},
                        {"type": "text", "name": "y", "label": "Y"}, {"type": "end repeat"},
                        {"type": "begin repeat", "name": nb, "label": "B"}]
                if deep:
                    rows.append({"type": "begin group", "name": "gg", "label": "GG"})
                rows += [{"type": "text", "name": "z", "label": "Z ${y}", "relevant": "${y} = 1"},
                         {"type": "calculate", "name": "zc", "calculation": "count(${y})"}]
                if deep:
                    rows.append({"type": "end group"})
                rows += [{"type": "end repeat"}, {"type": f"end {outer}"}]
                add(f"sibling-repeats-{na}-{nb}-{outer}-{deep}", rows)
    return out


def random_deep(rnd, n_forms):
    """Random trees beyond the exhaustive bound: depth up to 7, up to 9 containers, names from the mixed pool."""
    out = []
    pool_all = ["r", "r2", "rr", "g", "outer", "g2", "rep", "rep2", "grp", "inner", "o", "oo", "x1", "x10", "x"]
    for i in range(n_forms):
        n = rnd.randint(3, 9)
        # random forest by random parent pointers
        parents = [rnd.randint(max(0, j - 3), j) if rnd.random() < 0.8 else 0 for j in range(n)]
        children = {j: [] for j in range(n + 1)}
        for j, p in enumerate(parents):
            children[p].append(j + 1)

        def build(p, depth):
            res = []
            for c in children[p]:
                res.append((tuple(build(c, depth + 1)),))
            return tuple(res)

        forest = build(0, 0)
        kinds = [rnd.choice("grr") for _ in range(n)]
        pool = rnd.sample(pool_all, n)
        tpos = rnd.randint(0, n)
        out.append(layout_case(f"c03-random-{i}", forest, kinds, pool, tpos, variant=rnd.randint(0, 3)))
    return out


# Every way a choice filter / an expression ends up as the predicate of a secondary instance: `mk(name, filter, seed)`.
# (select_one_external is written as <input query="instance('e')/root/item[filter]">, the others as an itemset
# nodeset or a bind attribute.)
PREDICATE_KINDS = [
    ("sel1", lambda nm, f, s: {"type": "select_one l", "name": nm, "label": "Q", "choice_filter": f}),
    ("selm", lambda nm, f, s: {"type": "select_multiple l", "name": nm, "label": "Q", "choice_filter": f}),
    ("rand", lambda nm, f, s: {"type": "select_one l", "name": nm, "label": "Q", "choice_filter": f,
                               "parameters": "randomize=true, seed=${%s}" % s}),
    ("ext1", lambda nm, f, s: {"type": "select_one_external e", "name": nm, "label": "Q", "choice_filter": f}),
    ("ext2", lambda nm, f, s: {"type": "select_one_external e2", "name": nm, "label": "Q ${%s}" % s, "choice_filter": f,
                               "relevant": "${%s} != ''" % s}),
    ("csv", lambda nm, f, s: {"type": "select_one_from_file fcsv.csv", "name": nm, "label": "Q", "choice_filter": f}),
    ("xml", lambda nm, f, s: {"type": "select_multiple_from_file fxml.xml", "name": nm, "label": "Q", "choice_filter": f}),
    ("geojson", lambda nm, f, s: {"type": "select_one_from_file fgeo.geojson", "name": nm, "label": "Q", "choice_filter": f}),
    ("calc", lambda nm, f, s: {"type": "calculate", "name": nm, "calculation": f"instance('l')/root/item[{f}]/label"}),
    ("rel", lambda nm, f, s: {"type": "text", "name": nm, "label": "Q",
                              "relevant": f"count(instance('e')/root/item[{f}]) > ${{{s}}}"}),
]
EXTERNAL_CHOICES = (["list_name", "name", "x"], [["e", "c1", "1"], ["e", "c2", "2"], ["e2", "d1", "1"]])

_FILTER_SHAPES = ["x={r}", "x = {r}", "name != {r}", "selected({r}, name)", "x >{r}", "{r}=x", "contains(name, {r})"]


def _predicate_text(names, variant):
    """A filter body that references every name once, in a mix of spellings (with / without blanks around the
    reference, reference first / last / inside a call), joined with and / or."""
    parts = [_FILTER_SHAPES[(variant + j) % len(_FILTER_SHAPES)].format(r="${%s}" % n) for j, n in enumerate(names)]
    out = parts[0]
    for j, p in enumerate(parts[1:]):
        out += (" and " if (variant + j) % 2 == 0 else " or ") + p
    return out


def predicate_case(name, chain, pool, order="before", variant=0, kinds=None, styled=False):
    """One form: nested containers chain[i] in 'gr' (names from pool); at every level i = 0..len(chain) a target
    question t<i> and a target u<i> inside a side group sg<i> of that level, and one question of every secondary-
    instance-predicate kind whose filter references all targets of all levels (same repeat, outer repeats, outside
    any repeat, and - for the levels below - inside deeper repeats)."""
    n = len(chain)
    tn = [(f"{pool[i]}_t" if styled and i < n else f"t{i}") for i in range(n + 1)]
    un = [(f"{pool[i]}_" if styled and i < n else f"u{i}") for i in range(n + 1)]
    allrefs = [x for i in range(n + 1) for x in (tn[i], un[i])]
    kinds = kinds or PREDICATE_KINDS
    rows = []

    def targets(i):
        rows.append({"type": "text", "name": tn[i], "label": f"T{i}"})
        rows.append({"type": "begin group", "name": f"sg{i}", "label": f"SG{i}"})
        rows.append({"type": "integer", "name": un[i], "label": f"U{i}"})
        rows.append({"type": "end group"})

    def level(i):
        if order == "before":
            targets(i)
        for j, (kname, mk) in enumerate(kinds):
            refs = allrefs[(variant + i + j) % len(allrefs):] + allrefs[:(variant + i + j) % len(allrefs)]
            rows.append(mk(f"q{i}{kname}", _predicate_text(refs, variant + i + j), tn[i] if order == "before" else tn[0]))
        # `select_one ${t}`: the answers given to t<k> / u<k> (inside a repeat) are the choices, filtered by a predicate
        # that references the question itself and the targets of all levels
        for k in range(n + 1):
            if "r" in chain[:k]:
                src = (tn, un)[(variant + i + k) % 2][k]
                refs = [src] + [x for x in allrefs if x != src]
                rows.append({"type": ("select_one ${%s}", "select_multiple ${%s}")[(variant + k) % 2] % src,
                             "name": f"q{i}from{k}", "label": "Q",
                             "choice_filter": _predicate_text(refs, variant + i + k).replace("name", "'nm'")})
        if i < n:
            rows.append({"type": "begin repeat" if chain[i] == "r" else "begin group", "name": pool[i], "label": f"S{i}"})
            level(i + 1)
            rows.append({"type": "end repeat" if chain[i] == "r" else "end group"})
        if order != "before":
            targets(i)

    level(0)
    wb = _wrap(rows, extra={"external_choices": EXTERNAL_CHOICES})
    return Case(name, md=corpus.wb_to_md(wb), origin="c03-family")


def predicate_family(tier, rnd):
    """References inside predicates of secondary instances (itemset nodesets, the query attribute of selects with
    external choices, instance() paths in bind expressions) from every placement among groups and repeats: every
    chain of containers up to depth 3 (quick; depth 4 sampled) or 4 (thorough; deeper random), targets at every
    level, declared before or after the referrers."""
    out = []
    pools = ["plain", "prefix", "chain", "chain-rev"]
    k = 0
    full = 3 if tier == "quick" else 4
    chains = ["".join(c) for d in range(0, full + 1) for c in itertools.product("gr", repeat=d)]
    if tier == "quick":
        chains += ["rrrr", "rgrg", "grgr", "rrgr", "rggr", "grrg"]
    else:
        chains += ["".join(rnd.choice("grr") for _ in range(rnd.randint(5, 6))) for _ in range(40)]
    for chain in chains:
        for order in ("before", "after"):
            use = [pools[k % len(pools)]] if tier == "quick" else pools
            for pn in use:
                k += 1
                out.append(predicate_case(f"c03-pred-{chain or 'root'}-{order}-{pn}-{k}", chain, NAME_POOLS[pn], order,
                                          variant=k, styled=(k % 3 == 0)))
    return out


def cases(tier, seed):
    rnd = random.Random(seed * 7919 + 3)
    out = []
    pools = ["plain", "chain", "chain-rev", "prefix"]
    if tier == "quick":
        out += layout_family(range(0, 4), 4, pools[:3])
        out += layout_family([4], 4, pools, rnd=rnd, sample=0.2, tall_full=True)
        out += random_deep(rnd, 60)
        out += container_target_family(range(1, 4), 4, pools[:2])
    else:
        out += container_target_family(range(1, 5), 4, pools)
        out += layout_family(range(0, 5), 4, pools)
        out += layout_family([5], 5, pools, rnd=rnd, sample=0.12, tall_full=False)
        out += random_deep(rnd, 1500)
    out += ambiguity_family()
    out += special_family()
    out += predicate_family(tier, random.Random(seed * 7919 + 5))
    return out
